"""Control-flow facts of the two in-memory stores that the Lean models (Model/Store.lean, Model/DStore.lean) depend on
(C04/C05): where imported nodes get their internal ids from and how the allocators move (shared: one counter `start_id`
= highest id ever handed out + 1; disjoint: relabel from 1, one counter per graph id), what del_graph / del_all_graphs do to
that bookkeeping, when the disjoint store regards a graph id as present, and which lookup methods filter on GraphID.

The facts are *observed*, not read off the source text: each probe runs a few calls of the real storage / property-graph
classes of /repo's working tree on a fresh singleton and compares what comes back (internal ids handed out, nodes listed)
with what the modelled control flow yields.  A behaviour-preserving rewrite (renamed locals, `with lock:`, a helper method,
another way of writing the search) therefore extracts the same facts; a semantic change flips a flag, and the generated
`flow` no longer equals the model's `Store.modelFlow` (theorems `C04.flow_is_modelled` / `C05.flow_is_modelled` fail) while
the parts of the model that are parameterised by a flag (allocator bookkeeping of del_graph / del_all_graphs) follow the
change.  A probe that cannot be run at all (class or method gone, unexpected exception) is an ExtractionError.
"""
import networkx as nx

from .common import *

FLAGS = ["sharedImportFromCounter", "sharedCounterAdvancesByLen", "sharedBlankFromCounter", "sharedDelGraphKeepsCounter",
         "sharedDelAllKeepsCounter", "disjointImportFromOne", "disjointCounterAfterImportLenPlusOne", "disjointBlankFromCounter",
         "disjointDelGraphKeepsCounter", "disjointDelAllKeepsCounters", "disjointPresentMeansHasNodes",
         "disjointDirectImportReplaces", "sharedStoreSurvivesNewImporter", "disjointStoreSurvivesNewImporter"]
FILTERED = ["_find_node", "_find_all_nodes", "node_exists", "add_node", "get_all_nodes_by_class",
            "get_all_nodes_by_class_and_type", "check_node_unique", "graph_exists", "extract_graph", "del_graph"]


def _mods():
    try:
        import fim.graph.networkx_property_graph as m1
        import fim.graph.networkx_property_graph_disjoint as m2
        return m1, m2       # no reload: other modules of the process hold these classes (isinstance assertions)
    except Exception as e:  # noqa
        raise ExtractionError("cannot import the in-memory stores: %r" % (e,))


def _g(n, first=0, **extra):
    """a graph with n nodes whose own keys collide with small internal ids"""
    G = nx.Graph()
    for i in range(n):
        G.add_node(i + 1, NodeID="p%d" % (first + i), Class="Link", **extra)
    for i in range(n - 1):
        G.add_edge(i + 1, i + 2, Class="has")
    return G


def _shared(m1):
    m1.NetworkXGraphStorage.storage_instance = None
    imp = m1.NetworkXGraphImporter()
    return imp, imp.storage.storage_instance


def _disjoint(m2):
    m2.NetworkXGraphStorageDisjoint.storage_instance = None
    imp = m2.NetworkXGraphImporterDisjoint()
    return imp, imp.storage.storage_instance


def _ids_of(G, gid):
    return sorted(n for n, d in G.nodes(data=True) if d.get("GraphID") == gid)


def probe_shared(m1):
    f = {}
    imp, st = _shared(m1)
    st.add_graph("a", _g(2))
    s0 = st.start_id
    st.add_graph("b", _g(2, 5))
    ok_first = _ids_of(st.graphs, "b") == [s0, s0 + 1]
    f["sharedCounterAdvancesByLen"] = st.start_id == s0 + 2
    s1 = st.start_id
    got = st.add_blank_node_to_graph("a", Class="Link", NodeID="grown")
    f["sharedBlankFromCounter"] = got == s1 and st.start_id == s1 + 1 and got in st.graphs.nodes
    # re-import of the grown graph under its own id: its released ids are {1, 2, s1}, not one block
    s2 = st.start_id
    st.add_graph("a", _g(3))
    ok_re = _ids_of(st.graphs, "a") == [s2, s2 + 1, s2 + 2] and len(_ids_of(st.graphs, "b")) == 2
    s3 = st.start_id
    gd = _g(2, 7, GraphID="b")
    st.add_graph_direct("b", gd)
    ok_direct = _ids_of(st.graphs, "b") == [s3, s3 + 1] and st.start_id == s3 + 2
    f["sharedImportFromCounter"] = ok_first and ok_re and ok_direct
    s4 = st.start_id
    st.del_graph("a")
    f["sharedDelGraphKeepsCounter"] = st.start_id == s4 and not _ids_of(st.graphs, "a") and len(_ids_of(st.graphs, "b")) == 2
    st.del_all_graphs()
    f["sharedDelAllKeepsCounter"] = st.start_id == s4 and len(st.graphs.nodes) == 0
    return f


def probe_disjoint(m2):
    f = {}
    imp, st = _disjoint(m2)
    st.add_graph("a", _g(3))
    f["disjointImportFromOne"] = sorted(st.graphs["a"].nodes) == [1, 2, 3]
    n4 = st.add_blank_node_to_graph("a", Class="Link", NodeID="x4")
    f["disjointCounterAfterImportLenPlusOne"] = n4 == 4
    st.graphs["a"].remove_node(1)                     # what delete_node does
    n5 = st.add_blank_node_to_graph("a", Class="Link", NodeID="x5")
    f["disjointBlankFromCounter"] = n5 == 5 and len(st.graphs["a"].nodes) == 4
    # present = holds nodes: onto a non-empty id the import is skipped, after del_graph / a mere read it is carried out
    st.add_graph("a", _g(1, 9))
    skipped = len(st.graphs["a"].nodes) == 4
    st.get_graph("fresh")
    st.add_graph("fresh", _g(2))
    after_read = len(st.graphs["fresh"].nodes) == 2
    st.del_graph("a")
    n6 = st.add_blank_node_to_graph("a", Class="Link", NodeID="x6")
    f["disjointDelGraphKeepsCounter"] = n6 == 6 and len(st.graphs["a"].nodes) == 1
    st.del_graph("a")
    st.add_graph("a", _g(2, 3))
    after_del = sorted(st.graphs["a"].nodes) == [1, 2]
    f["disjointPresentMeansHasNodes"] = skipped and after_read and after_del
    st.add_graph_direct("a", _g(3, 0, GraphID="a"))
    f["disjointDirectImportReplaces"] = sorted(st.graphs["a"].nodes) == [1, 2, 3] and \
        st.add_blank_node_to_graph("a", Class="Link", NodeID="x") == 4
    n = st.add_blank_node_to_graph("c", Class="Link", NodeID="y1")
    n = st.add_blank_node_to_graph("c", Class="Link", NodeID="y2")
    st.del_all_graphs()
    n = st.add_blank_node_to_graph("c", Class="Link", NodeID="y3")
    f["disjointDelAllKeepsCounters"] = n == 3 and len(st.graphs["c"].nodes) == 1 and len(st.graphs.get("a", nx.Graph()).nodes) == 0
    return f


def _held(imp, gid):
    """number of nodes the store reached through this importer holds for graph id gid (0 = none / no such graph)"""
    try:
        got = imp.storage.extract_graph(gid)
    except KeyError:
        return 0
    return len(got.nodes) if got is not None else 0


def probe_importers(shell, imp_cls):
    """the process has ONE store: an importer made later - with or without a logger of its own, after a first one made with or
    without one - reaches the store object the earlier ones reach, with everything stored so far still in it (the models know
    no importer at all: `Store.enter` / `DStore.enter`)"""
    import logging
    ok = True
    for first in (False, True):
        for later in ((False,), (True,), (True, False), (False, True)):
            shell.storage_instance = None
            lg = logging.getLogger("verif-storeflow-probe")
            lg.propagate = False
            if not lg.handlers:
                lg.addHandler(logging.NullHandler())
            imp1 = imp_cls(logger=lg) if first else imp_cls()
            inner = shell.storage_instance
            imp1.storage.add_graph("a", _g(2))
            ok = ok and _held(imp1, "a") == 2
            for k, with_logger in enumerate(later):
                imp2 = imp_cls(logger=lg) if with_logger else imp_cls()
                imp2.storage.add_graph("b%d" % k, _g(1, 5))
                for imp in (imp1, imp2):
                    ok = ok and _held(imp, "a") == 2 and _held(imp, "b%d" % k) == 1
                ok = ok and shell.storage_instance is inner
    return ok


# graph ids the filter probe is run over: (the asking graph, the other graph, an id holding nothing).  "Restricts itself to the
# nodes whose GraphID is the caller's" means EQUALITY of ids: the answers must be the same when one id is a substring / prefix
# of the other (a name and its suffixed variant), in either direction
ID_FAMILIES = [("g1", "g2", "g3"), ("g1", "g1-v2", "g"), ("exp-v2", "exp", "exp-v2-tmp"), ("1", "11", "")]


def probe_filters(m1):
    rs = [_probe_filters(m1, *ids) for ids in ID_FAMILIES]
    if any(sorted(r) != sorted(rs[0]) for r in rs):
        raise ExtractionError("filter probe rows differ between id families")
    return {k: all(r[k] for r in rs) for k in rs[0]}


def _probe_filters(m1, g1, g2, g3):
    from fim.graph.abc_property_graph import PropertyGraphQueryException
    imp, st = _shared(m1)
    A, B = nx.Graph(), nx.Graph()
    A.add_node(1, NodeID="x", Class="Link", Name="nm", Type="t")
    B.add_node(1, NodeID="y", Class="Link", Name="nm2", Type="t")
    B.add_node(2, NodeID="z", Class="NetworkNode", Name="nm3", Type="u")
    st.add_graph(g1, A)
    st.add_graph(g2, B)
    pg1 = m1.NetworkXPropertyGraph(graph_id=g1, importer=imp)
    pg3 = m1.NetworkXPropertyGraph(graph_id=g3, importer=imp)
    r = {}
    try:
        pg1._find_node(node_id="y")
        r["_find_node"] = False
    except PropertyGraphQueryException:
        r["_find_node"] = True
    r["_find_all_nodes"] = sorted(pg1.list_all_node_ids()) == ["x"]
    r["node_exists"] = pg1.node_exists(node_id="y", label="Link") is False and pg1.node_exists(node_id="x", label="Link") is True
    r["get_all_nodes_by_class"] = sorted(pg1.get_all_nodes_by_class(label="Link")) == ["x"]
    r["get_all_nodes_by_class_and_type"] = sorted(pg1.get_all_nodes_by_class_and_type(label="Link", ntype="t")) == ["x"]
    r["check_node_unique"] = pg1.check_node_unique(label="Link", name="nm2") is True and pg1.check_node_unique(label="Link", name="nm") is False
    r["graph_exists"] = pg3.graph_exists() is False and pg1.graph_exists() is True
    ex = st.extract_graph(g1)
    r["extract_graph"] = ex is not None and len(ex.nodes) == 1 and st.extract_graph(g3) is None
    try:
        pg1.add_node(node_id="y", label="Link")          # y exists in g2 only
        ok = sorted(pg1.list_all_node_ids()) == ["x", "y"]
        try:
            pg1.add_node(node_id="x", label="NetworkNode")
            ok = False
        except PropertyGraphQueryException:
            pass
        r["add_node"] = ok
    except PropertyGraphQueryException:
        r["add_node"] = False
    def only_other():
        return len(st.graphs.nodes) == 2 and all(d.get("GraphID") == g2 for _, d in st.graphs.nodes(data=True))

    def both():
        return sorted(str(d.get("GraphID")) for _, d in st.graphs.nodes(data=True)) == sorted([g1, g2, g2])

    st.del_graph(g1)
    ok = only_other()
    # the same deletion as the first step of a REPLACING import (add_graph / add_graph_direct onto an id that holds nodes)
    st.add_graph(g1, A)
    ok = ok and both()
    st.add_graph(g1, A)
    ok = ok and both()
    D = nx.Graph()
    D.add_node(1, NodeID="x", Class="Link", Name="nm", Type="t", GraphID=g1)
    st.add_graph_direct(g1, D)
    ok = ok and both()
    m1.NetworkXPropertyGraph(graph_id=g1, importer=imp).delete_graph()
    r["del_graph"] = ok and only_other()
    return r


def probe_filters_disjoint(m2):
    """the same lookups on the one-graph-per-store backend, whose container for an id may hold nodes carrying ANOTHER GraphID
    (a GraphID rewrite leaves the node where it is; a direct import trusts the ids on the nodes): container g1 holds x (its own)
    and y (GraphID g2), container g3 holds only a node of graph g9.  Lookups filter on GraphID inside the container; the storage
    methods extract_graph / del_graph take the whole container."""
    from fim.graph.abc_property_graph import PropertyGraphQueryException
    imp, st = _disjoint(m2)
    A, C = nx.Graph(), nx.Graph()
    A.add_node(1, NodeID="x", Class="Link", Name="nm", Type="t", GraphID="g1")
    A.add_node(2, NodeID="y", Class="Link", Name="nm2", Type="t", GraphID="g2")
    C.add_node(1, NodeID="z", Class="Link", Name="nm3", Type="t", GraphID="g9")
    st.add_graph_direct("g1", A)
    st.add_graph_direct("g3", C)
    if sorted(d.get("GraphID") for _, d in st.graphs["g1"].nodes(data=True)) != ["g1", "g2"] or len(st.graphs["g3"].nodes) != 1:
        raise ExtractionError("direct import on the disjoint store did not keep the GraphIDs of the probe nodes")
    pg1 = m2.NetworkXPropertyGraphDisjoint(graph_id="g1", importer=imp)
    pg3 = m2.NetworkXPropertyGraphDisjoint(graph_id="g3", importer=imp)
    r = {}
    try:
        pg1._find_node(node_id="y")
        r["_find_node"] = False
    except PropertyGraphQueryException:
        r["_find_node"] = True
    r["_find_all_nodes"] = sorted(pg1.list_all_node_ids()) == ["x"]
    r["node_exists"] = pg1.node_exists(node_id="y", label="Link") is False and pg1.node_exists(node_id="x", label="Link") is True
    r["get_all_nodes_by_class"] = sorted(pg1.get_all_nodes_by_class(label="Link")) == ["x"]
    r["get_all_nodes_by_class_and_type"] = sorted(pg1.get_all_nodes_by_class_and_type(label="Link", ntype="t")) == ["x"]
    r["check_node_unique"] = pg1.check_node_unique(label="Link", name="nm2") is True and pg1.check_node_unique(label="Link", name="nm") is False
    r["graph_exists"] = pg3.graph_exists() is False and pg1.graph_exists() is True
    ex = st.extract_graph("g1")
    r["extract_graph"] = ex is not None and len(ex.nodes) == 1
    try:
        pg1.add_node(node_id="y", label="Link")          # the y already in the container belongs to g2
        ok = sorted(pg1.list_all_node_ids()) == ["x", "y"]
        try:
            pg1.add_node(node_id="x", label="NetworkNode")
            ok = False
        except PropertyGraphQueryException:
            pass
        r["add_node"] = ok
    except PropertyGraphQueryException:
        r["add_node"] = False
    st.del_graph("g1")
    r["del_graph"] = [d.get("GraphID") for _, d in st.graphs["g1"].nodes(data=True)] == ["g2"]
    return r


def extract():
    m1, m2 = _mods()
    out = {}
    for name, fn, arg in (("shared", probe_shared, m1), ("disjoint", probe_disjoint, m2), ("filters", probe_filters, m1),
                          ("dfilters", probe_filters_disjoint, m2)):
        try:
            out[name] = fn(arg)
        except ExtractionError:
            raise
        except Exception as e:  # noqa
            raise ExtractionError("probe %s could not be run: %r" % (name, e))
        finally:
            m1.NetworkXGraphStorage.storage_instance = None
            m2.NetworkXGraphStorageDisjoint.storage_instance = None
    flags = dict(out["shared"])
    flags.update(out["disjoint"])
    try:
        flags["sharedStoreSurvivesNewImporter"] = bool(probe_importers(m1.NetworkXGraphStorage, m1.NetworkXGraphImporter))
        flags["disjointStoreSurvivesNewImporter"] = bool(probe_importers(m2.NetworkXGraphStorageDisjoint, m2.NetworkXGraphImporterDisjoint))
    except Exception as e:  # noqa
        raise ExtractionError("probe importers could not be run: %r" % (e,))
    finally:
        m1.NetworkXGraphStorage.storage_instance = None
        m2.NetworkXGraphStorageDisjoint.storage_instance = None
    if sorted(flags) != sorted(FLAGS) or sorted(out["filters"]) != sorted(FILTERED) or sorted(out["dfilters"]) != sorted(FILTERED):
        raise ExtractionError("probe result has unexpected fields")
    if not all(isinstance(v, bool) for v in list(flags.values()) + list(out["filters"].values()) + list(out["dfilters"].values())):
        raise ExtractionError("probe result is not boolean")
    return flags, out["filters"], out["dfilters"]


def lean_bool(b):
    return "true" if b else "false"


def generate():
    flags, filt, dfilt = extract()
    body = "/-- observed control flow of the two stores (see gen/storeflow.py): `true` = as Model/Store.lean, Model/DStore.lean assume -/\n"
    body += "structure Flow where\n" + "".join("  %s : Bool\n" % k for k in FLAGS) + "  deriving DecidableEq, Repr\n\n"
    body += "def flow : Flow :=\n  { " + ",\n    ".join("%s := %s" % (k, lean_bool(flags[k])) for k in FLAGS) + " }\n\n"
    body += "/-- lookup methods and whether they restrict themselves to the nodes whose GraphID is the caller's graph id -/\n"
    body += "def gidFiltered : List (String × Bool) := %s\n" % lean_list(
        ["(%s, %s)" % (lean_str(k), lean_bool(filt[k])) for k in FILTERED])
    body += "\n/-- the same lookups on the one-graph-per-store backend: do they restrict themselves to the nodes whose GraphID is the caller's graph id\n"
    body += "    when the container of that id also holds nodes carrying another GraphID (after a GraphID rewrite / a direct import) -/\n"
    body += "def dgidFiltered : List (String × Bool) := %s\n" % lean_list(
        ["(%s, %s)" % (lean_str(k), lean_bool(dfilt[k])) for k in FILTERED])
    changed = emit("StoreFlow", body)
    return {"flags": flags, "filters": filt, "dfilters": dfilt, "changed": changed}


if __name__ == "__main__":
    print(generate())
