"""Translate every method of the two in-memory graph stores into the control-flow skeleton of
lean/FimVerif/Model/Lock.lean (`Stmt` over `Micro`).

Source read: fim/graph/networkx_property_graph.py            NetworkXGraphStorage.__NetworkXGraphStorage
             fim/graph/networkx_property_graph_disjoint.py   NetworkXGraphStorageDisjoint.__NetworkXGraphStorage

Control flow: Expr/Assign/AnnAssign/AugAssign/Return/Raise/If/For/While/Try(except, finally)/With self.lock/Pass;
`self.__init__(...)` and `self.lock = ...` inside a method are the micro `reinit` (the store replaces its own lock object).
Anything else (break, continue, try-else, nested defs, yield, ...) is an ExtractionError.

The skeleton is taken from a *normalised* form of each method, so that rewrites that do not change what a method does to
the lock and to the shared state give the same skeleton:

 N1  docstrings, comments, annotations (signature, `x: T = v`) are dropped;
 N2  `with self.lock: B`  ==  `self.lock.acquire(); try: B finally: self.lock.release()`; an `except` clause that only
     re-raises what it caught (`except Exception as e: raise e`, bare `raise`) is dropped;
 N3  a call of a method of the same class (`self._h(a, b)`: private/static helpers, but also public methods - a locked
     method calling a locked method acquires twice) is expanded in place, its
     parameters replaced by the arguments (which must be names / constants / `self.x`); a helper whose body is one
     `return <expr>` is expanded inside expressions; a helper body that contains `return` becomes `.call <body>` (its
     return resumes the caller), one that does not is spliced into the caller's sequence.  The no-raise whitelist is applied
     to the statements of the expanded body exactly as to the caller's own statements;
 N4  locals are renamed by what they hold: `temp_graph` = the relabelled copy `nx.convert_node_labels_to_integers(...)`,
     `new_id` = a value read from an id counter, `graph_hits` = the GraphID search over the shared store,
     `fresh_graph` = `nx.Graph()`; a local of one of these names that holds something else is renamed away;
     a local that is (or has just been stored as) the store entry `self.graphs[graph_id]` is replaced by that
     expression wherever something is read from or called on it, so a mutation through the alias is seen as a mutation of
     the store; `x = nx.Graph(); self.graphs[graph_id] = x` is read as `self.graphs[graph_id] = nx.Graph()`;
 N5  conditions are classified by what they read: a test that mentions no shared state is thread-local, and cannot raise
     when it is built from names, constants, `len(<name>)`, comparisons, `not`/`and`/`or` (so `if xs:` and
     `if xs is not None and len(xs) > 0:` give the same step).

Shared state = self.graphs, self.start_id, self.graph_node_ids.  A simple statement (or an `if` test / `for` iterable /
`return` value) that mentions one of them must, after normalisation, match one row of ACCESS below, which gives its
micro-instructions and whether it can raise; no match = ExtractionError.  A statement that does not mention shared state
is thread-local (`loc`) and is assumed able to raise unless it is pure in the sense of N5 (or assigns such a value to a
local name / returns a name or constant).

Symbolic parameters in the generated skeletons: counter 0 = `start_id`, counter 1 = `graph_node_ids[graph_id]`;
graph 1 = the `graph_id` argument; size 1 = one node, size 100 = len(temp_graph) (Lock.symK), 101 = len(temp_graph)+1.
"""
import ast
import copy
import re

from .common import *

FILES = {
    "shared": ("fim/graph/networkx_property_graph.py", "NetworkXGraphStorage"),
    "disjoint": ("fim/graph/networkx_property_graph_disjoint.py", "NetworkXGraphStorageDisjoint"),
}
INNER = "__NetworkXGraphStorage"
SHARED_ATTRS = ("graphs", "start_id", "graph_node_ids")
K = 100          # symbolic size of temp_graph
SEARCH = r"list\(nxq\.search_nodes\(self\.graphs, \{'eq': \[ABCPropertyGraph\.GRAPH_ID, graph_id\]\}\)\)"

# (flavour, regex on ast.unparse(normalised node) (fullmatch), micros).  A micro ending in "!" can raise (before or after
# taking effect).  The micros WITHOUT "!" are the whitelist of primitives assumed unable to raise for string
# graph ids (trusted base; keep short):
#   W1 the GraphID equality search over the store, `return self.graphs`
#   W2 Graph.remove_nodes_from (ignores absent nodes), Graph.clear, dict.clear
#   W3 storing an existing object under the graph id in a dict whose lookup by that id has already succeeded in the same
#      locked region (`self.graphs[graph_id] = fresh_graph`); a first lookup by graph id CAN raise (unhashable id)
#   W4 integer increment / assignment of an id counter
#   W5 the insertion step of Graph.add_node (its argument evaluation can raise, the insertion cannot)
#   W6 per-graph store only: filling a fresh graph from the node/edge views of
#      temp_graph = nx.convert_node_labels_to_integers(graph, 1) and `self.graphs[graph_id] = temp_graph`
ACCESS = [
    # ---- shared store ------------------------------------------------------------------------
    ("shared", r"\w+ = " + SEARCH, ["rdg"]),
    ("shared", r"self\.graphs\.remove_nodes_from\(graph_hits\)", ["del 1"]),
    ("shared", r"self\.graphs\.clear\(\)", ["delAll"]),
    ("shared", r"return self\.graphs", ["rdg"]),
    ("shared", r"return (len|bool)\(self\.graphs\)", ["rdg"]),
    ("disjoint", r"return (len|bool)\(self\.graphs\)", ["rdg"]),
    ("shared", r"temp_graph = nx\.convert_node_labels_to_integers\(graph, first_label=self\.start_id\)", ["read 0!"]),
    ("shared", r"self\.start_id = self\.start_id \+ len\(temp_graph(\.nodes(\(\))?)?\)", ["bump 0 %d!" % K]),
    ("shared", r"self\.start_id \+= len\(temp_graph(\.nodes(\(\))?)?\)", ["bump 0 %d!" % K]),
    ("shared", r"self\.start_id = self\.start_id \+ 1", ["bump 0 1"]),
    ("shared", r"self\.start_id \+= 1", ["bump 0 1"]),
    ("shared", r"self\.start_id = new_id \+ 1", ["bumpReg 0 1"]),
    ("shared", r"self\.start_id = 1", ["setCtr 0 1"]),
    ("shared", r"self\.graphs\.add_nodes_from\(temp_graph\.nodes\(data=True\)\)", ["add 0 1 %d!" % K]),
    ("shared", r"self\.graphs\.add_edges_from\(temp_graph\.edges\(data=True\)\)", ["rdg!"]),
    ("shared", r"self\.graphs\.add_node\(self\.start_id, GraphID=graph_id, \*\*attrs\)", ["read 0!", "add 0 1 1"]),
    ("shared", r"self\.graphs\.add_node\(new_id, GraphID=graph_id, \*\*attrs\)", ["loc!", "add 0 1 1"]),
    ("shared", r"return self\.start_id - 1", ["read 0!"]),
    ("shared", r"new_id = self\.start_id", ["read 0"]),
    ("shared", r"\w+ = nx\.to_dict_of_dicts\(self\.graphs, \w+\)", ["rdg!"]),
    ("shared", r"\w+\.nodes\[(\w+)\]\.update\(self\.graphs\.nodes\[\1\]\)", ["rdg!"]),
    # ---- per-graph (disjoint) store ------------------------------------------------------------
    ("disjoint", r"graph_id in self\.graphs(\.keys\(\))?( and len\(self\.graphs\[graph_id\](\.nodes(\(\))?)?\) > 0)?", ["rdg!"]),
    ("disjoint", r"len\(self\.graphs\[graph_id\](\.nodes(\(\))?)?\) > 0", ["rdg!"]),
    ("disjoint", r"self\.graphs\[graph_id\]\.clear\(\)", ["delSpace 1"]),
    ("disjoint", r"self\.graphs\.clear\(\)", ["delAll"]),
    ("disjoint", r"self\.graphs\[graph_id\] = nx\.Graph\(\)", ["delSpace 1!"]),
    ("disjoint", r"self\.graphs\[graph_id\] = fresh_graph", ["delSpace 1"]),
    ("disjoint", r"self\.graphs\[graph_id\]\.add_nodes_from\(temp_graph\.nodes\(data=True\)\)", ["addFrom 1 1 1 %d" % K]),
    ("disjoint", r"self\.graphs\[graph_id\]\.add_edges_from\(temp_graph\.edges\(data=True\)\)", ["rdg"]),
    ("disjoint", r"self\.graphs\[graph_id\] = temp_graph", ["delSpace 1", "addFrom 1 1 1 %d" % K]),
    ("disjoint", r"self\.graph_node_ids\[graph_id\] = len\(self\.graphs\[graph_id\](\.nodes(\(\))?)?\) \+ 1", ["setCtr 1 %d" % (K + 1)]),
    ("disjoint", r"\w+ = self\.graphs\[graph_id\]", ["rdg!"]),
    ("disjoint", r"return self\.graphs\[graph_id\]", ["rdg!"]),
    ("disjoint", r"return self\.graphs\[graph_id\]\.copy\(\)", ["rdg!"]),
    ("disjoint", r"new_id = self\.graph_node_ids\[graph_id\]", ["read 1!"]),
    ("disjoint", r"self\.graph_node_ids\[graph_id\] \+= 1", ["bump 1 1"]),
    ("disjoint", r"self\.graph_node_ids\[graph_id\] = self\.graph_node_ids\[graph_id\] \+ 1", ["bump 1 1"]),
    ("disjoint", r"self\.graph_node_ids\[graph_id\] = new_id \+ 1", ["bumpReg 1 1"]),
    ("disjoint", r"self\.graphs\[graph_id\]\.add_node\(new_id, GraphID=graph_id, \*\*attrs\)", ["add 1 1 1!"]),
]
# what `temp_graph` must be for the size/base symbols above to mean what they say
TEMP_GRAPH = {
    "shared": r"nx\.convert_node_labels_to_integers\(graph, first_label=self\.start_id\)",
    "disjoint": r"nx\.convert_node_labels_to_integers\(graph, (first_label=)?1\)",
}
# N4: canonical local names by defining expression (regex on the unparsed, normalised value)
CANON = [
    ("temp_graph", r"nx\.convert_node_labels_to_integers\(.*\)"),
    ("new_id", r"self\.start_id|self\.graph_node_ids\[graph_id\]"),
    ("graph_hits", SEARCH),
    ("fresh_graph", r"nx\.Graph\(\)"),
]
CANON_NAMES = {c for c, _ in CANON}
ENTRY = "self.graphs[graph_id]"


def _self_attr(n, names):
    return isinstance(n, ast.Attribute) and isinstance(n.value, ast.Name) and n.value.id == "self" and n.attr in names


def _mentions_shared(node):
    return any(_self_attr(n, SHARED_ATTRS) for n in ast.walk(node))


def _mentions_lock(node):
    return any(_self_attr(n, ("lock",)) for n in ast.walk(node))


def _lock_call(st):
    """'acq' / 'rel' for the statement `self.lock.acquire()` / `self.lock.release()`."""
    if isinstance(st, ast.Expr) and isinstance(st.value, ast.Call) and not st.value.args and not st.value.keywords:
        f = st.value.func
        if isinstance(f, ast.Attribute) and f.attr in ("acquire", "release") and _self_attr(f.value, ("lock",)):
            return "acq" if f.attr == "acquire" else "rel"
    return None


def _takes_lock(fn):
    return any(_lock_call(s) or (isinstance(s, ast.With) and any(_mentions_lock(i.context_expr) for i in s.items))
               for s in ast.walk(fn))


def _pure(e):
    """Expressions that cannot raise (given that local names are bound, which Python guarantees on the paths
    the skeleton keeps: an unbound local would be a NameError = a raise of a statement we flag anyway)."""
    if e is None or isinstance(e, (ast.Constant, ast.Name)):
        return True
    if isinstance(e, ast.Compare):
        return all(isinstance(o, (ast.Is, ast.IsNot, ast.Gt, ast.Lt, ast.GtE, ast.LtE, ast.Eq, ast.NotEq)) for o in e.ops) and \
            all(_pure_cmp_operand(x) for x in [e.left] + e.comparators)
    if isinstance(e, ast.BoolOp):
        return all(_pure(v) for v in e.values)
    if isinstance(e, ast.UnaryOp) and isinstance(e.op, ast.Not):
        return _pure(e.operand)
    return False


def _pure_cmp_operand(e):
    if isinstance(e, (ast.Constant, ast.Name)):
        return True
    if isinstance(e, ast.Call) and isinstance(e.func, ast.Name) and e.func.id == "len" and len(e.args) == 1 \
            and isinstance(e.args[0], ast.Name) and not e.keywords:
        return True
    return False


def _simple_arg(e):
    return isinstance(e, (ast.Name, ast.Constant)) or (isinstance(e, ast.Attribute) and isinstance(e.value, ast.Name))


def _is_private(name):
    return name.startswith("_") and not (name.startswith("__") and name.endswith("__"))


def _assigned_names(stmts):
    out = set()
    for st in stmts:
        for n in ast.walk(st):
            if isinstance(n, ast.Name) and isinstance(n.ctx, (ast.Store, ast.Del)):
                out.add(n.id)
    return out


class Env:
    """N4: what the locals of one activation stand for.
    full: name -> expression that replaces every load of the name (renames, parameter binding)
    recv: name -> expression of the shared object the name is an alias of (replaces the name where something is read from
          it or called on it; a bare `return x` / `y = x` only passes the reference on)"""

    def __init__(self, full=None, recv=None):
        self.full = dict(full or {})
        self.recv = dict(recv or {})

    def copy(self):
        return Env(self.full, self.recv)

    def kill(self, names):
        for n in names:
            self.full.pop(n, None)
            self.recv.pop(n, None)

    def canon_of(self, name):
        e = self.full.get(name)
        return e.id if isinstance(e, ast.Name) else name


class _Subst(ast.NodeTransformer):
    def __init__(self, tr, env):
        self.tr, self.env = tr, env

    def visit_Name(self, n):
        if not isinstance(n.ctx, ast.Load):
            return n
        if n.id in self.env.full:
            return copy.deepcopy(self.env.full[n.id])
        if n.id in self.env.recv:
            return copy.deepcopy(self.env.recv[n.id])
        return n

    def visit_Call(self, n):
        n = self.generic_visit(n)
        return self.tr.inline_expr(n)


class Tr:
    def __init__(self, flavour, src, cls):
        self.flavour = flavour
        self.src = src
        self.cls = cls
        self.helpers = {}       # name -> FunctionDef (methods of the class that `self.<name>(...)` can reach)
        self.rows_used = set()
        self.cache = {}
        self.depth = 0
        # every method of the class can be called through `self` - a public one too (a locked method that calls another
        # locked method re-acquires the lock it holds: the expanded skeleton shows the second `acq`)
        for fn in cls.body:
            if isinstance(fn, ast.FunctionDef) and not (fn.name.startswith("__") and fn.name.endswith("__")):
                self.helpers[fn.name] = fn

    # -- N3: helpers -------------------------------------------------------------------------
    def helper_of(self, e):
        """FunctionDef when `e` is `self.<helper>(...)` (name-mangled or not)"""
        if isinstance(e, ast.Call) and isinstance(e.func, ast.Attribute) and isinstance(e.func.value, ast.Name) \
                and e.func.value.id == "self" and e.func.attr in self.helpers:
            return self.helpers[e.func.attr]
        return None

    def bind(self, fn, call):
        """Env of a helper activation: parameter -> argument"""
        deco = [ast.unparse(d) for d in fn.decorator_list]
        if deco not in ([], ["staticmethod"]):
            raise ExtractionError("helper %s: unsupported decorator %s" % (fn.name, deco))
        a = fn.args
        if a.vararg or a.kwarg or a.kwonlyargs or a.posonlyargs:
            raise ExtractionError("helper %s: unsupported parameter kinds" % fn.name)
        params = [p.arg for p in a.args]
        if deco == []:
            if not params or params[0] != "self":
                raise ExtractionError("helper %s: first parameter is not self" % fn.name)
            params = params[1:]
        defaults = dict(zip(params[len(params) - len(a.defaults):], a.defaults)) if a.defaults else {}
        given = dict(zip(params, call.args))
        if len(call.args) > len(params):
            raise ExtractionError("helper %s: too many arguments" % fn.name)
        for kw in call.keywords:
            if kw.arg is None or kw.arg not in params or kw.arg in given:
                raise ExtractionError("helper %s: unrecognised keyword argument" % fn.name)
            given[kw.arg] = kw.value
        full = {}
        for p in params:
            v = given.get(p, defaults.get(p))
            if v is None:
                raise ExtractionError("helper %s: parameter %s not bound" % (fn.name, p))
            if not _simple_arg(v):
                raise ExtractionError("helper %s called with a compound argument: %s" % (fn.name, ast.unparse(v)))
            full[p] = v
        return Env(full)

    def inline_expr(self, call):
        """a helper whose body is one `return <expr>`: the call is that expression"""
        fn = self.helper_of(call)
        if fn is None:
            return call
        body = strip_doc(fn.body)
        if len(body) == 1 and isinstance(body[0], ast.Return) and body[0].value is not None:
            env = self.bind(fn, call)
            return _Subst(self, env).visit(copy.deepcopy(body[0].value))
        return call

    # -- leaf classification ---------------------------------------------------------------
    def access(self, node, what):
        """micros (with their "!" flags) for a node (statement or expression) that mentions shared state"""
        text = ast.unparse(node)
        for i, (fl, rx, micros) in enumerate(ACCESS):
            if fl == self.flavour and re.fullmatch(rx, text):
                self.rows_used.add(i)
                return micros
        raise ExtractionError("%s store, %s: unrecognised access to shared state: %s" % (self.flavour, what, text))

    def reads_graphs_only(self, e):
        """N5: a condition that only looks at the graph container (membership, sizes): one read of the graph structure"""
        ok = (ast.BoolOp, ast.And, ast.Or, ast.UnaryOp, ast.Not, ast.Compare, ast.In, ast.NotIn, ast.Is, ast.IsNot, ast.Eq,
              ast.NotEq, ast.Gt, ast.GtE, ast.Lt, ast.LtE, ast.Name, ast.Constant, ast.Load, ast.Subscript, ast.Attribute, ast.Call)
        for n in ast.walk(e):
            if not isinstance(n, ok):
                return False
            if isinstance(n, ast.Call):
                f = n.func
                if n.keywords or not ((isinstance(f, ast.Name) and f.id == "len" and len(n.args) == 1) or
                                      (isinstance(f, ast.Attribute) and f.attr in ("keys", "nodes") and not n.args)):
                    return False
            if isinstance(n, ast.Attribute) and isinstance(n.value, ast.Name) and n.value.id == "self" and n.attr != "graphs":
                return False
        return True

    def leaf(self, node, what, value_pure=None, test=False):
        """Stmt text for one evaluation step (statement or control expression)."""
        if _mentions_lock(node):
            raise ExtractionError("%s: unrecognised use of self.lock: %s" % (what, ast.unparse(node)))
        for n in ast.walk(node):
            if self.helper_of(n) is not None:
                raise ExtractionError("%s: helper call in an unsupported position: %s" % (what, ast.unparse(node)))
        if _mentions_shared(node):
            if test and self.reads_graphs_only(node):
                micros = ["rdg!"]
            else:
                micros = self.access(node, what)
            return ["(.prim (.%s) %s)" % (m.rstrip("!"), "true" if m.endswith("!") else "false") for m in micros]
        pure = value_pure if value_pure is not None else False
        return ["(.prim .loc %s)" % ("false" if pure else "true")]

    # -- statements ----------------------------------------------------------------------
    def block(self, stmts, what, env):
        parts = []
        stmts = list(stmts)
        i = 0
        while i < len(stmts):
            st = stmts[i]
            # N4 peephole: `x = nx.Graph()` immediately stored as the entry  ==  `self.graphs[graph_id] = nx.Graph()`
            if i + 1 < len(stmts) and self._fresh_then_store(st, stmts[i + 1], env):
                merged = copy.deepcopy(stmts[i + 1])
                merged.value = copy.deepcopy(st.value)
                parts.extend(self.stmt(merged, what, env))
                env.kill([st.targets[0].id])
                env.recv[st.targets[0].id] = ast.parse(ENTRY, mode="eval").body
                i += 2
                continue
            parts.extend(self.stmt(st, what, env))
            i += 1
        return parts

    def _fresh_then_store(self, a, b, env):
        if not (isinstance(a, ast.Assign) and len(a.targets) == 1 and isinstance(a.targets[0], ast.Name)
                and ast.unparse(a.value) == "nx.Graph()"):
            return False
        if not (isinstance(b, ast.Assign) and len(b.targets) == 1 and isinstance(b.value, ast.Name)
                and b.value.id == a.targets[0].id):
            return False
        return ast.unparse(_Subst(self, env).visit(copy.deepcopy(b.targets[0]))) == ENTRY

    @staticmethod
    def seq(parts):
        if not parts:
            return ".skip"
        out = parts[-1]
        for p in reversed(parts[:-1]):
            out = "(.seq %s %s)" % (p, out)
        return out

    def sub(self, node, env):
        return ast.fix_missing_locations(_Subst(self, env).visit(copy.deepcopy(node)))

    @staticmethod
    def bare_alias(e, env):
        """`e` is just the name of an alias of a shared object: passing the reference on reads nothing"""
        return isinstance(e, ast.Name) and e.id in env.recv and e.id not in env.full

    def branch(self, stmts, what, env):
        """a nested block: bindings made inside are not trusted after it"""
        inner = env.copy()
        parts = self.block(stmts, what, inner)
        env.kill(_assigned_names(stmts))
        return parts

    def expand_call(self, call, what, env):
        """N3: statement-level helper call -> (parts, canonical name of the returned local or None)"""
        fn = self.helper_of(call)
        self.depth += 1
        if self.depth > 6:
            raise ExtractionError("%s: helper calls nested too deeply (recursion?)" % what)
        try:
            call = copy.deepcopy(call)
            call.args = [self.sub(a, env) for a in call.args]
            for kw in call.keywords:
                kw.value = self.sub(kw.value, env)
            henv = self.bind(fn, call)
            self.check_constructs(fn, "%s>%s" % (what, fn.name))
            body = strip_doc(fn.body)
            parts = self.block(body, "%s>%s" % (what, fn.name), henv)
            rets = [n for st in body for n in ast.walk(st) if isinstance(n, ast.Return)]
            ret_name = None
            if rets:
                vals = {ast.unparse(self.sub(r.value, henv)) if r.value is not None else "None" for r in rets}
                # (the environment at the end of the body: good enough for `return <local>` of a straight-line helper)
                if len(vals) == 1 and isinstance(rets[0].value, ast.Name):
                    ret_name = henv.canon_of(rets[0].value.id)
                    if ret_name not in CANON_NAMES:
                        ret_name = None
                return ["(.call %s)" % self.seq(parts)], ret_name
            return parts, None
        finally:
            self.depth -= 1

    def stmt(self, st, what, env):
        lk = _lock_call(st)
        if lk:
            return ["(.prim .%s false)" % lk]
        if isinstance(st, ast.Pass):
            return []
        if isinstance(st, ast.AnnAssign):
            if st.value is None:
                return []
            st = ast.copy_location(ast.Assign(targets=[st.target], value=st.value), st)
        if isinstance(st, ast.Expr):
            if isinstance(st.value, ast.Constant):
                return []
            v = st.value
            if isinstance(v, ast.Call) and _self_attr(v.func, ("__init__",)):
                # the store re-initialises itself: fresh containers and counters and a NEW lock object
                return ["(.prim .reinit true)"]
            if self.helper_of(st.value) is not None:
                return self.expand_call(st.value, what, env)[0]
            return self.leaf(self.sub(st, env), what)
        if isinstance(st, ast.Assign):
            return self.assign(st, what, env)
        if isinstance(st, ast.AugAssign):
            out = self.leaf(self.sub(st, env), what)
            env.kill(_assigned_names([st]))
            return out
        if isinstance(st, ast.Return):
            if st.value is not None and self.helper_of(st.value) is not None and self.inline_expr(st.value) is st.value:
                parts, _ = self.expand_call(st.value, what, env)
                return parts + [".ret"]
            if self.bare_alias(st.value, env):
                return [".ret"]
            s2 = self.sub(st, env)
            if s2.value is not None and _mentions_shared(s2.value):
                return self.leaf(s2, what) + [".ret"]
            if _pure(s2.value):
                return [".ret"]
            return self.leaf(s2, what) + [".ret"]
        if isinstance(st, ast.Raise):
            s2 = self.sub(st, env)
            if _mentions_shared(s2) or _mentions_lock(s2):
                raise ExtractionError("%s: raise mentions shared state" % what)
            return [".raise"]
        if isinstance(st, ast.If):
            t = self.sub(st.test, env)
            test = self.leaf(t, what, value_pure=_pure(t), test=True)
            a = self.branch(st.body, what, env)
            b = self.branch(st.orelse, what, env)
            return test + ["(.ite %s %s)" % (self.seq(a), self.seq(b))]
        if isinstance(st, ast.For):
            if st.orelse:
                raise ExtractionError("%s: for-else" % what)
            itx = self.sub(st.iter, env)
            it = self.leaf(itx, what, value_pure=_pure(itx))
            env.kill(_assigned_names([st.target]))
            # each iteration: fetch the next element (can raise unless the iterable is a plain name), bind, run the body
            nxt = "(.prim .loc %s)" % ("false" if isinstance(itx, ast.Name) else "true")
            env.kill(_assigned_names(st.body))          # a binding changed by the body is unknown from the 2nd iteration on
            return it + ["(.loop %s)" % self.seq([nxt] + self.branch(st.body, what, env))]
        if isinstance(st, ast.While):
            if st.orelse:
                raise ExtractionError("%s: while-else" % what)
            env.kill(_assigned_names(st.body))
            t = self.sub(st.test, env)
            test = self.leaf(t, what, value_pure=_pure(t), test=True)
            return ["(.loop %s)" % self.seq(test + self.branch(st.body, what, env))] + test
        if isinstance(st, ast.Try):
            if st.orelse:
                raise ExtractionError("%s: try-else" % what)
            killed = _assigned_names(st.body)
            body = self.seq(self.block(st.body, what, env))
            handlers = [hd for hd in st.handlers if not self._reraise_only(hd)]      # N2
            if handlers:
                # an exception enters the first handler whose class matches; a handler for anything narrower than
                # Exception may be skipped, so the exception may also propagate
                env.kill(killed)
                h = ".raise"
                for hd in reversed(handlers):
                    hb = self.seq(self.branch(hd.body, what, env))
                    catch_all = hd.type is None or (isinstance(hd.type, ast.Name) and hd.type.id in ("Exception", "BaseException"))
                    h = hb if catch_all else "(.ite %s %s)" % (hb, h)
                body = "(.tryExcept %s %s)" % (body, h)
            if st.finalbody:
                fenv = env.copy()
                fenv.kill(killed)
                body = "(.tryFinally %s %s)" % (body, self.seq(self.block(st.finalbody, what, fenv)))
                env.kill(_assigned_names(st.finalbody))
            return [body]
        if isinstance(st, ast.With):
            if len(st.items) == 1 and ast.unparse(st.items[0].context_expr) == "self.lock" and st.items[0].optional_vars is None:
                return ["(.prim .acq false)", "(.tryFinally %s (.prim .rel false))" % self.seq(self.block(st.body, what, env))]
            raise ExtractionError("%s: unrecognised with-statement" % what)
        raise ExtractionError("%s: unrecognised statement %s" % (what, type(st).__name__))

    @staticmethod
    def _reraise_only(hd):
        if len(hd.body) != 1 or not isinstance(hd.body[0], ast.Raise) or hd.body[0].cause is not None:
            return False
        exc = hd.body[0].exc
        return exc is None or (hd.name is not None and isinstance(exc, ast.Name) and exc.id == hd.name)

    def assign(self, st, what, env):
        if any(_self_attr(t, ("lock",)) for t in st.targets):
            return ["(.prim .reinit true)"]                  # the lock object is replaced
        single = len(st.targets) == 1 and isinstance(st.targets[0], ast.Name)
        if not single:
            s2 = self.sub(st, env)
            # storing a local object as the store entry: the local is the entry from now on
            out = self.leaf(s2, what)
            if len(st.targets) == 1 and ast.unparse(s2.targets[0]) == ENTRY and isinstance(s2.value, ast.Name):
                cname = s2.value.id
                names = {cname} | {k for k, v in env.full.items() if isinstance(v, ast.Name) and v.id == cname}
                if isinstance(st.value, ast.Name):
                    names.add(st.value.id)
                for name in names:
                    env.full.pop(name, None)
                    env.recv[name] = ast.parse(ENTRY, mode="eval").body
            env.kill(_assigned_names([st]))
            return out
        name = st.targets[0].id
        pre = []
        value = st.value
        ret_name = None
        if self.helper_of(value) is not None and self.inline_expr(value) is value:
            # helper with a real body on the right-hand side: run it, then bind its result
            pre, ret_name = self.expand_call(value, what, env)
            env.kill([name])
            if ret_name:
                env.full[name] = ast.Name(id=ret_name, ctx=ast.Load())
            elif name in CANON_NAMES:
                env.full[name] = ast.Name(id=name + "__local", ctx=ast.Load())
            return pre
        if self.bare_alias(value, env):
            alias = env.recv[value.id]
            env.kill([name])
            env.recv[name] = alias                           # y = x where x is an alias: y is one too
            if name in CANON_NAMES:
                raise ExtractionError("%s: alias of a shared object stored under the reserved name %s" % (what, name))
            return ["(.prim .loc false)"]
        v2 = self.sub(value, env)
        text = ast.unparse(v2)
        env.kill([name])
        canon = next((c for c, rx in CANON if re.fullmatch(rx, text)), None)
        target = name
        if canon:
            if canon == "temp_graph" and not re.fullmatch(TEMP_GRAPH[self.flavour], text):
                raise ExtractionError("%s: temp_graph is not built the way the size symbols assume: %s" % (what, text))
            target = canon
            if name != canon:
                env.full[name] = ast.Name(id=canon, ctx=ast.Load())
        elif name in CANON_NAMES:
            target = name + "__local"
            env.full[name] = ast.Name(id=target, ctx=ast.Load())
        if text == ENTRY and self.flavour == "disjoint":
            env.recv[name] = ast.parse(ENTRY, mode="eval").body
        s2 = ast.copy_location(ast.Assign(targets=[ast.Name(id=target, ctx=ast.Store())], value=v2), st)
        ast.fix_missing_locations(s2)
        return self.leaf(s2, what, value_pure=_pure(v2))

    def check_constructs(self, fn, what):
        for n in ast.walk(fn):
            if isinstance(n, (ast.Break, ast.Continue, ast.Yield, ast.YieldFrom, ast.Await, ast.Lambda, ast.Global, ast.Nonlocal)) \
                    or (n is not fn and isinstance(n, (ast.FunctionDef, ast.ClassDef, ast.AsyncFunctionDef))):
                raise ExtractionError("%s: unsupported construct %s" % (what, type(n).__name__))

    def method(self, fn, what):
        if fn.name not in self.cache:
            self.check_constructs(fn, what)
            self.cache[fn.name] = self.seq(self.block(strip_doc(fn.body), what, Env()))
        return self.cache[fn.name]


def _check_init(flavour, cls):
    init = find_func(cls, "__init__")
    text = {ast.unparse(s) for s in init.body}
    need = {"shared": ["self.graphs = nx.Graph()", "self.start_id = 1"],
            "disjoint": ["self.graphs = defaultdict(nx.Graph)", "self.graph_node_ids = defaultdict(constant_factory(1))"]}[flavour]
    for n in need:
        if n not in text:
            raise ExtractionError("%s store __init__: expected `%s`" % (flavour, n))
    if not ({"self.lock = Lock()", "self.lock = threading.Lock()"} & text):
        raise ExtractionError("%s store __init__: self.lock is not a threading.Lock" % flavour)


def _singleton(flavour, tree, oc, cls):
    """The shell's creation idiom.  Recognised:
         storage_instance = None
         def __init__(self, logger=None):
             if not <Shell>.storage_instance:   |   if <Shell>.storage_instance is None:
                 <Shell>.storage_instance = <Shell>.__NetworkXGraphStorage(...)
         def __getattr__(self, name): return getattr(self.storage_instance, name)
       and no other assignment to storage_instance, to self.lock or call of self.__init__ anywhere in the module.
       -> dict(test_is_none, falsy_capable, weak, guard_line, first, last)"""
    outer = oc.name
    members = {}
    for n in oc.body:
        if isinstance(n, ast.AnnAssign) and isinstance(n.target, ast.Name) and n.value is not None:
            n = ast.copy_location(ast.Assign(targets=[n.target], value=n.value), n)
        if isinstance(n, ast.Assign) and len(n.targets) == 1 and isinstance(n.targets[0], ast.Name):
            members[n.targets[0].id] = n
        elif isinstance(n, ast.FunctionDef):
            members[n.name] = n
    si = members.get("storage_instance")
    if not (isinstance(si, ast.Assign) and isinstance(si.value, ast.Constant) and si.value.value is None):
        raise ExtractionError("%s: `storage_instance = None` not found" % outer)
    init = members.get("__init__")
    body = strip_doc(init.body) if isinstance(init, ast.FunctionDef) else []
    if len(body) != 1 or not isinstance(body[0], ast.If) or body[0].orelse or len(body[0].body) != 1:
        raise ExtractionError("%s.__init__: not the single guarded creation of the store" % outer)
    test = ast.unparse(body[0].test)
    if test == "not %s.storage_instance" % outer:
        is_none = False
    elif test == "%s.storage_instance is None" % outer:
        is_none = True
    else:
        raise ExtractionError("%s.__init__: unrecognised creation guard `%s`" % (outer, test))
    if not re.fullmatch(r"%s\.storage_instance = %s\.__NetworkXGraphStorage\((logger=)?logger\)" % (outer, outer), ast.unparse(body[0].body[0])):
        raise ExtractionError("%s.__init__: unrecognised creation statement `%s`" % (outer, ast.unparse(body[0].body[0])))
    ga = members.get("__getattr__")
    if not (isinstance(ga, ast.FunctionDef) and [ast.unparse(x) for x in strip_doc(ga.body)] == ["return getattr(self.storage_instance, name)"]):
        raise ExtractionError("%s.__getattr__: does not forward to the current storage_instance" % outer)
    # nothing else may replace the store, its lock, or re-initialise it
    for n in ast.walk(tree):
        if isinstance(n, ast.Attribute) and n.attr == "storage_instance" and isinstance(n.ctx, (ast.Store, ast.Del)) \
                and n is not body[0].body[0].targets[0]:
            raise ExtractionError("module: storage_instance is assigned outside the creation guard (line %d)" % n.lineno)
    for fn in cls.body:
        if isinstance(fn, ast.FunctionDef) and fn.name != "__init__":
            for n in ast.walk(fn):
                if isinstance(n, ast.Attribute) and isinstance(n.value, ast.Name) and n.value.id == "self":
                    # (`self.__init__(...)` and `self.lock = ...` inside a method are translated: micro `reinit`)
                    if n.attr == "lock" and isinstance(n.ctx, ast.Del):
                        raise ExtractionError("%s store, %s: the lock object is deleted" % (flavour, fn.name))
                    if n.attr in ("__dict__", "__class__"):
                        raise ExtractionError("%s store, %s: rewires the store object" % (flavour, fn.name))
                if isinstance(n, ast.Call) and isinstance(n.func, ast.Name) and n.func.id in ("setattr", "delattr", "vars"):
                    raise ExtractionError("%s store, %s: rewires the store object through %s()" % (flavour, fn.name, n.func.id))
    if cls.bases or cls.keywords:
        raise ExtractionError("%s store class has base classes: truthiness cannot be read off the class body" % flavour)
    falsy = any(isinstance(fn, ast.FunctionDef) and fn.name in ("__len__", "__bool__") for fn in cls.body) or \
        any(isinstance(n, ast.Assign) and any(isinstance(t, ast.Name) and t.id in ("__len__", "__bool__") for t in n.targets) for n in cls.body)
    return {"test_is_none": is_none, "falsy_capable": falsy, "weak": (not is_none) and falsy,
            "guard_line": body[0].lineno, "first": oc.lineno, "last": oc.end_lineno}


def _classes(flavour):
    rel, outer = FILES[flavour]
    tree, src = parse(rel)
    oc = find_class(tree, outer)
    inner = [n for n in oc.body if isinstance(n, ast.ClassDef) and n.name == INNER]
    if len(inner) != 1:
        raise ExtractionError("%s: inner class %s not found" % (outer, INNER))
    return rel, tree, src, oc, inner[0]


def extract():
    """-> (methods: [(name, kind, stmt_text)], ranges, spans)"""
    methods, ranges, spans = [], {}, {}
    for flavour in FILES:
        rel, tree, src, oc, cls = _classes(flavour)
        _check_init(flavour, cls)
        tr = Tr(flavour, src, cls)
        sg = _singleton(flavour, tree, oc, cls)
        ranges[flavour] = {"file": rel, "first": cls.lineno, "last": cls.end_lineno, "methods": {},
                           "shell": [oc.lineno, oc.end_lineno], "singleton": sg}
        for fn in cls.body:
            if isinstance(fn, ast.Expr) and isinstance(fn.value, ast.Constant):
                continue
            if not isinstance(fn, ast.FunctionDef):
                raise ExtractionError("%s store: unexpected class member %s" % (flavour, type(fn).__name__))
            ranges[flavour]["methods"][fn.name] = [fn.lineno, fn.end_lineno]
            if fn.name == "__init__":
                continue
            text = tr.method(fn, "%s.%s" % (flavour, fn.name))
            if _is_private(fn.name):
                kind = "helper"
            else:
                kind = "locking" if _takes_lock(fn) else "lockfree"
            methods.append(("%s.%s" % (flavour, fn.name), kind, text))
        spans[flavour] = span_hash(src, cls)
    return methods, ranges, spans


def layout():
    """Where the two storage classes are and which of their methods take the lock - no interpretation of the statements,
    so this keeps working on source the translator does not recognise (the scheduler harness needs nothing else)."""
    ranges, methods = {}, {}
    for flavour in FILES:
        rel, tree, src, oc, cls = _classes(flavour)
        ranges[flavour] = {"file": rel, "first": cls.lineno, "last": cls.end_lineno, "methods": {},
                           "shell": [oc.lineno, oc.end_lineno]}
        for fn in cls.body:
            if isinstance(fn, ast.FunctionDef):
                ranges[flavour]["methods"][fn.name] = [fn.lineno, fn.end_lineno]
                if fn.name != "__init__":
                    kind = "helper" if _is_private(fn.name) else ("locking" if _takes_lock(fn) else "lockfree")
                    methods["%s.%s" % (flavour, fn.name)] = kind
    return {"ranges": ranges, "methods": methods}


def lean_name(n):
    return n.replace(".", "_").replace("___", "_h_")


def generate():
    methods, ranges, spans = extract()
    body = "open FimVerif.Lock\n\n"
    for name, kind, text in methods:
        body += "def %s : Stmt :=\n  %s\n\n" % (lean_name(name), text)

    def table(kind):
        return lean_list(["(%s, %s)" % (lean_str(n), lean_name(n)) for n, k, _ in methods if k == kind])
    body += "/-- public methods that take the lock -/\ndef locking : List (String × Stmt) := %s\n\n" % table("locking")
    body += "/-- public methods that never touch the lock -/\ndef lockfree : List (String × Stmt) := %s\n\n" % table("lockfree")
    body += ("/-- private helpers (their bodies are also expanded into the skeletons of their callers) -/\n"
             "def helpers : List (String × Stmt) := %s\n\n" % table("helper"))
    body += "def methods : List (String × Stmt) := locking ++ lockfree ++ helpers\n\n"
    body += ("/-- the shells' singleton creation: (store, guard tests `is None`, the store class defines __len__/__bool__) -/\n"
             "def singletons : List (String × Bool × Bool) := %s\n\n" % lean_list(
                 ["(%s, %s, %s)" % (lean_str(fl), "true" if ranges[fl]["singleton"]["test_is_none"] else "false",
                                    "true" if ranges[fl]["singleton"]["falsy_capable"] else "false") for fl in FILES]))
    body += ("/-- constructing an importer / graph object: one evaluation of the creation guard -/\n"
             "def shellCtor : List (String × Stmt) := %s\n" % lean_list(
                 ["(%s, .prim (.ctor %s) false)" % (lean_str(fl), "true" if ranges[fl]["singleton"]["weak"] else "false") for fl in FILES]))
    changed = emit("LockCfg", body, header="import FimVerif.Model.Lock\n")
    return {"methods": {n: k for n, k, _ in methods}, "ranges": ranges, "spans": spans, "changed": changed}
