"""Translate every method of the two in-memory graph stores into the control-flow skeleton of
lean/FimVerif/Model/Lock.lean (`Stmt` over `Micro`) and a line table for the scheduler harness.

Source read: fim/graph/networkx_property_graph.py            NetworkXGraphStorage.__NetworkXGraphStorage
             fim/graph/networkx_property_graph_disjoint.py   NetworkXGraphStorageDisjoint.__NetworkXGraphStorage

Control flow: Expr/Assign/AugAssign/Return/Raise/If/For/While/Try(except, finally)/With self.lock/Pass.
Anything else (break, continue, try-else, nested defs, yield, ...) is an ExtractionError.

Shared state = self.graphs, self.start_id, self.graph_node_ids.  A simple statement (or an `if`
test / `for` iterable / `return` value) that mentions one of them must match one row of ACCESS
below, which gives its micro-instructions and whether it can raise; no match = ExtractionError.
A statement that does not mention shared state is thread-local (`loc`) and is assumed able to raise
unless it is built only from the constructs in `_pure` (names, constants, `is`/comparison/boolean
operators, `len(<name>)`, assignment of such a value to a local name, `return <name|constant>`).

Symbolic parameters in the generated skeletons: counter 0 = `start_id`, counter 1 = `graph_node_ids[graph_id]`;
graph 1 = the `graph_id` argument; size 1 = one node, size 100 = len(temp_graph) where
`temp_graph = nx.convert_node_labels_to_integers(graph, ...)`.
"""
import ast
import re

from .common import *

FILES = {
    "shared": ("fim/graph/networkx_property_graph.py", "NetworkXGraphStorage"),
    "disjoint": ("fim/graph/networkx_property_graph_disjoint.py", "NetworkXGraphStorageDisjoint"),
}
INNER = "__NetworkXGraphStorage"
SHARED_ATTRS = ("graphs", "start_id", "graph_node_ids")
K = 100          # symbolic size of temp_graph
SEARCH = r"list\(nxq\.search_nodes\(self\.graphs, \{'eq': \[ABCPropertyGraph\.GRAPH_ID, graph_id\]\}\)\)"

# (flavour, regex on ast.unparse(node) (fullmatch), micros).  A micro ending in "!" can raise (before or after
# taking effect).  The micros WITHOUT "!" are the whitelist of primitives assumed unable to raise for string
# graph ids (trusted base; keep short):
#   W1 the GraphID equality search over the store, `return self.graphs`
#   W2 Graph.remove_nodes_from (ignores absent nodes), Graph.clear, dict.clear
#   W3 defaultdict.__getitem__ (`x = self.graphs[graph_id]`, `new_id = self.graph_node_ids[graph_id]`)
#   W4 integer increment / assignment of an id counter
#   W5 the insertion step of Graph.add_node (its argument evaluation can raise, the insertion cannot)
#   W6 per-graph store only: filling a fresh graph from the node/edge views of
#      temp_graph = nx.convert_node_labels_to_integers(graph, 1) and `self.graphs[graph_id] = temp_graph`
ACCESS = [
    # ---- shared store ------------------------------------------------------------------------
    ("shared", r"\w+ = " + SEARCH, ["rdg"]),
    ("shared", r"self\.graphs\.remove_nodes_from\(\w+\)", ["del 1"]),
    ("shared", r"self\.graphs\.clear\(\)", ["delAll"]),
    ("shared", r"return self\.graphs", ["rdg"]),
    ("shared", r"return (len|bool)\(self\.graphs\)", ["rdg"]),
    ("disjoint", r"return (len|bool)\(self\.graphs\)", ["rdg"]),
    ("shared", r"temp_graph = nx\.convert_node_labels_to_integers\(graph, first_label=self\.start_id\)", ["read 0!"]),
    ("shared", r"self\.start_id = self\.start_id \+ len\(temp_graph\.nodes\(\)\)", ["bump 0 %d!" % K]),
    ("shared", r"self\.start_id \+= len\(temp_graph\.nodes\(\)\)", ["bump 0 %d!" % K]),
    ("shared", r"self\.start_id = self\.start_id \+ 1", ["bump 0 1"]),
    ("shared", r"self\.start_id \+= 1", ["bump 0 1"]),
    ("shared", r"self\.graphs\.add_nodes_from\(temp_graph\.nodes\(data=True\)\)", ["add 0 1 %d!" % K]),
    ("shared", r"self\.graphs\.add_edges_from\(temp_graph\.edges\(data=True\)\)", ["rdg!"]),
    ("shared", r"self\.graphs\.add_node\(self\.start_id, GraphID=graph_id, \*\*attrs\)", ["read 0!", "add 0 1 1"]),
    ("shared", r"return self\.start_id - 1", ["read 0!"]),
    ("shared", r"\w+ = self\.start_id", ["read 0"]),
    ("shared", r"\w+ = nx\.to_dict_of_dicts\(self\.graphs, \w+\)", ["rdg!"]),
    ("shared", r"ret\.nodes\[n\]\.update\(self\.graphs\.nodes\[n\]\)", ["rdg!"]),
    # ---- per-graph (disjoint) store ------------------------------------------------------------
    ("disjoint", r"graph_id in self\.graphs\.keys\(\)( and len\(self\.graphs\[graph_id\]\.nodes\) > 0)?", ["rdg!"]),
    ("disjoint", r"len\(self\.graphs\[graph_id\]\.nodes\) > 0", ["rdg!"]),
    ("disjoint", r"self\.graphs\[graph_id\]\.clear\(\)", ["delSpace 1"]),
    ("disjoint", r"self\.graphs\.clear\(\)", ["delAll"]),
    ("disjoint", r"self\.graphs\[graph_id\] = nx\.Graph\(\)", ["delSpace 1!"]),
    ("disjoint", r"self\.graphs\[graph_id\]\.add_nodes_from\(temp_graph\.nodes\(data=True\)\)", ["addFrom 1 1 1 %d" % K]),
    ("disjoint", r"self\.graphs\[graph_id\]\.add_edges_from\(temp_graph\.edges\(data=True\)\)", ["rdg"]),
    ("disjoint", r"self\.graphs\[graph_id\] = temp_graph", ["delSpace 1", "addFrom 1 1 1 %d" % K]),
    ("disjoint", r"self\.graph_node_ids\[graph_id\] = len\(self\.graphs\[graph_id\]\.nodes\(\)\) \+ 1", ["setCtr 1 %d" % (K + 1)]),
    ("disjoint", r"\w+ = self\.graphs\[graph_id\]", ["rdg"]),
    ("disjoint", r"new_id = self\.graph_node_ids\[graph_id\]", ["read 1"]),
    ("disjoint", r"self\.graph_node_ids\[graph_id\] \+= 1", ["bump 1 1"]),
    ("disjoint", r"self\.graph_node_ids\[graph_id\] = self\.graph_node_ids\[graph_id\] \+ 1", ["bump 1 1"]),
    ("disjoint", r"self\.graphs\[graph_id\]\.add_node\(new_id, GraphID=graph_id, \*\*attrs\)", ["add 1 1 1!"]),
]
# what `temp_graph` must be for the size/base symbols above to mean what they say
TEMP_GRAPH = {
    "shared": r"temp_graph = nx\.convert_node_labels_to_integers\(graph, first_label=self\.start_id\)",
    "disjoint": r"temp_graph = nx\.convert_node_labels_to_integers\(graph, 1\)",
}


def _mentions_shared(node):
    for n in ast.walk(node):
        if isinstance(n, ast.Attribute) and isinstance(n.value, ast.Name) and n.value.id == "self" and n.attr in SHARED_ATTRS:
            return True
    return False


def _mentions_lock(node):
    for n in ast.walk(node):
        if isinstance(n, ast.Attribute) and isinstance(n.value, ast.Name) and n.value.id == "self" and n.attr == "lock":
            return True
    return False


def _lock_call(st):
    """'acq' / 'rel' for the statement `self.lock.acquire()` / `self.lock.release()`."""
    if isinstance(st, ast.Expr) and isinstance(st.value, ast.Call) and not st.value.args and not st.value.keywords:
        f = st.value.func
        if isinstance(f, ast.Attribute) and f.attr in ("acquire", "release") and isinstance(f.value, ast.Attribute) \
                and f.value.attr == "lock" and isinstance(f.value.value, ast.Name) and f.value.value.id == "self":
            return "acq" if f.attr == "acquire" else "rel"
    return None


def _pure(e):
    """Expressions that cannot raise (given that local names are bound, which Python guarantees on the paths
    the skeleton keeps: an unbound local would be a NameError = a raise of a statement we flag anyway)."""
    if e is None or isinstance(e, (ast.Constant, ast.Name)):
        return True
    if isinstance(e, ast.Compare):
        return all(isinstance(o, (ast.Is, ast.IsNot, ast.Gt, ast.Lt, ast.GtE, ast.LtE, ast.Eq, ast.NotEq)) for o in e.ops) and \
            all(_pure_cmp_operand(x) for x in [e.left] + e.comparators)
    if isinstance(e, ast.BoolOp):
        return all(_pure(v) for v in e.values)
    if isinstance(e, ast.UnaryOp) and isinstance(e.op, ast.Not):
        return _pure(e.operand)
    return False


def _pure_cmp_operand(e):
    if isinstance(e, ast.Constant):
        return True
    if isinstance(e, ast.Name):
        return True
    if isinstance(e, ast.Call) and isinstance(e.func, ast.Name) and e.func.id == "len" and len(e.args) == 1 \
            and isinstance(e.args[0], ast.Name) and not e.keywords:
        return True
    return False


class Tr:
    def __init__(self, flavour, src, cls):
        self.flavour = flavour
        self.src = src
        self.cls = cls
        self.helpers = {}       # mangled-name suffix -> FunctionDef
        self.lines = {}         # lineno -> [micro strings]
        self.rows_used = set()
        self.cache = {}
        for fn in cls.body:
            if isinstance(fn, ast.FunctionDef) and fn.name.startswith("__") and not fn.name.endswith("__"):
                self.helpers[fn.name] = fn

    # -- leaf classification ---------------------------------------------------------------
    def access(self, node, what):
        """micros (with their "!" flags) for a node (statement or expression) that mentions shared state"""
        text = ast.unparse(node)
        for i, (fl, rx, micros) in enumerate(ACCESS):
            if fl == self.flavour and re.fullmatch(rx, text):
                self.rows_used.add(i)
                if micros and getattr(node, "end_lineno", node.lineno) != node.lineno:
                    raise ExtractionError("%s: shared access spans several lines: %s" % (what, text))
                return micros
        raise ExtractionError("%s store, %s: unrecognised access to shared state: %s" % (self.flavour, what, text))

    def leaf(self, node, what, value_pure=None):
        """Stmt text for one evaluation step (statement or control expression)."""
        if _mentions_lock(node):
            raise ExtractionError("%s: unrecognised use of self.lock: %s" % (what, ast.unparse(node)))
        if _mentions_shared(node):
            micros = self.access(node, what)
            self.lines.setdefault(node.lineno, []).extend(m.rstrip("!") for m in micros)
            return ["(.prim (.%s) %s)" % (m.rstrip("!"), "true" if m.endswith("!") else "false") for m in micros]
        pure = value_pure if value_pure is not None else False
        return ["(.prim .loc %s)" % ("false" if pure else "true")]

    # -- statements ----------------------------------------------------------------------
    def block(self, stmts, what):
        parts = []
        for st in stmts:
            parts.extend(self.stmt(st, what))
        return parts

    @staticmethod
    def seq(parts):
        if not parts:
            return ".skip"
        out = parts[-1]
        for p in reversed(parts[:-1]):
            out = "(.seq %s %s)" % (p, out)
        return out

    def stmt(self, st, what):
        lk = _lock_call(st)
        if lk:
            return ["(.prim .%s false)" % lk]
        if isinstance(st, ast.Pass):
            return []
        if isinstance(st, ast.Expr):
            if isinstance(st.value, ast.Constant):
                return []
            h = self.helper_call(st.value)
            if h:
                return ["(.call %s)" % self.method(self.helpers[h], "%s>%s" % (what, h))]
            return self.leaf(st, what)
        if isinstance(st, ast.Assign):
            if len(st.targets) == 1 and isinstance(st.targets[0], ast.Name) and re.fullmatch(r"temp_graph", st.targets[0].id) \
                    and not re.fullmatch(TEMP_GRAPH[self.flavour], ast.unparse(st)):
                raise ExtractionError("%s: temp_graph is not built the way the size symbols assume: %s" % (what, ast.unparse(st)))
            pure = len(st.targets) == 1 and isinstance(st.targets[0], ast.Name) and _pure(st.value)
            return self.leaf(st, what, value_pure=pure)
        if isinstance(st, ast.AugAssign):
            return self.leaf(st, what)
        if isinstance(st, ast.Return):
            if st.value is not None and _mentions_shared(st.value):
                return self.leaf(st, what) + [".ret"]
            if _pure(st.value):
                return [".ret"]
            return ["(.prim .loc true)", ".ret"]
        if isinstance(st, ast.Raise):
            if _mentions_shared(st) or _mentions_lock(st):
                raise ExtractionError("%s: raise mentions shared state" % what)
            return [".raise"]
        if isinstance(st, ast.If):
            test = self.leaf(st.test, what, value_pure=_pure(st.test))
            return test + ["(.ite %s %s)" % (self.seq(self.block(st.body, what)), self.seq(self.block(st.orelse, what)))]
        if isinstance(st, ast.For):
            if st.orelse:
                raise ExtractionError("%s: for-else" % what)
            it = self.leaf(st.iter, what, value_pure=_pure(st.iter))
            # each iteration: fetch the next element (can raise unless the iterable is a plain name), bind, run the body
            nxt = "(.prim .loc %s)" % ("false" if isinstance(st.iter, ast.Name) else "true")
            return it + ["(.loop %s)" % self.seq([nxt] + self.block(st.body, what))]
        if isinstance(st, ast.While):
            if st.orelse:
                raise ExtractionError("%s: while-else" % what)
            test = self.leaf(st.test, what, value_pure=_pure(st.test))
            return ["(.loop %s)" % self.seq(test + self.block(st.body, what))] + test
        if isinstance(st, ast.Try):
            if st.orelse:
                raise ExtractionError("%s: try-else" % what)
            body = self.seq(self.block(st.body, what))
            if st.handlers:
                # an exception enters the first handler whose class matches; a handler for anything narrower than
                # Exception may be skipped, so the exception may also propagate
                h = ".raise"
                for hd in reversed(st.handlers):
                    hb = self.seq(self.block(hd.body, what))
                    catch_all = hd.type is None or (isinstance(hd.type, ast.Name) and hd.type.id in ("Exception", "BaseException"))
                    h = hb if catch_all else "(.ite %s %s)" % (hb, h)
                body = "(.tryExcept %s %s)" % (body, h)
            if st.finalbody:
                body = "(.tryFinally %s %s)" % (body, self.seq(self.block(st.finalbody, what)))
            return [body]
        if isinstance(st, ast.With):
            if len(st.items) == 1 and ast.unparse(st.items[0].context_expr) == "self.lock" and st.items[0].optional_vars is None:
                return ["(.prim .acq false)", "(.tryFinally %s (.prim .rel false))" % self.seq(self.block(st.body, what))]
            raise ExtractionError("%s: unrecognised with-statement" % what)
        raise ExtractionError("%s: unrecognised statement %s" % (what, type(st).__name__))

    def helper_call(self, e):
        if isinstance(e, ast.Call) and isinstance(e.func, ast.Attribute) and isinstance(e.func.value, ast.Name) \
                and e.func.value.id == "self" and e.func.attr in self.helpers:
            if [ast.unparse(a) for a in e.args] != ["graph_id"] or e.keywords:
                raise ExtractionError("helper %s called with something else than graph_id" % e.func.attr)
            return e.func.attr
        return None

    def method(self, fn, what):
        if fn.name not in self.cache:
            self.cache[fn.name] = self._method(fn, "%s.%s" % (self.flavour, fn.name))
        return self.cache[fn.name]

    def _method(self, fn, what):
        for n in ast.walk(fn):
            if isinstance(n, (ast.Break, ast.Continue, ast.Yield, ast.YieldFrom, ast.Await, ast.Lambda, ast.Global, ast.Nonlocal)) \
                    or (n is not fn and isinstance(n, (ast.FunctionDef, ast.ClassDef, ast.AsyncFunctionDef))):
                raise ExtractionError("%s: unsupported construct %s" % (what, type(n).__name__))
        return self.seq(self.block(strip_doc(fn.body), what))


def _check_init(flavour, cls):
    init = find_func(cls, "__init__")
    text = {ast.unparse(s) for s in init.body}
    need = {"shared": ["self.graphs = nx.Graph()", "self.start_id = 1"],
            "disjoint": ["self.graphs = defaultdict(nx.Graph)", "self.graph_node_ids = defaultdict(constant_factory(1))"]}[flavour]
    for n in need:
        if n not in text:
            raise ExtractionError("%s store __init__: expected `%s`" % (flavour, n))
    if not ({"self.lock = Lock()", "self.lock = threading.Lock()"} & text):
        raise ExtractionError("%s store __init__: self.lock is not a threading.Lock" % flavour)


def _singleton(flavour, tree, oc, cls):
    """The shell's creation idiom.  Recognised:
         storage_instance = None
         def __init__(self, logger=None):
             if not <Shell>.storage_instance:   |   if <Shell>.storage_instance is None:
                 <Shell>.storage_instance = <Shell>.__NetworkXGraphStorage(...)
         def __getattr__(self, name): return getattr(self.storage_instance, name)
       and no other assignment to storage_instance, to self.lock or call of self.__init__ anywhere in the module.
       -> dict(test_is_none, falsy_capable, weak, guard_line, first, last)"""
    outer = oc.name
    members = {}
    for n in oc.body:
        if isinstance(n, ast.Assign) and len(n.targets) == 1 and isinstance(n.targets[0], ast.Name):
            members[n.targets[0].id] = n
        elif isinstance(n, ast.FunctionDef):
            members[n.name] = n
    si = members.get("storage_instance")
    if not (isinstance(si, ast.Assign) and isinstance(si.value, ast.Constant) and si.value.value is None):
        raise ExtractionError("%s: `storage_instance = None` not found" % outer)
    init = members.get("__init__")
    body = strip_doc(init.body) if isinstance(init, ast.FunctionDef) else []
    if len(body) != 1 or not isinstance(body[0], ast.If) or body[0].orelse or len(body[0].body) != 1:
        raise ExtractionError("%s.__init__: not the single guarded creation of the store" % outer)
    test = ast.unparse(body[0].test)
    if test == "not %s.storage_instance" % outer:
        is_none = False
    elif test == "%s.storage_instance is None" % outer:
        is_none = True
    else:
        raise ExtractionError("%s.__init__: unrecognised creation guard `%s`" % (outer, test))
    if not re.fullmatch(r"%s\.storage_instance = %s\.__NetworkXGraphStorage\((logger=)?logger\)" % (outer, outer), ast.unparse(body[0].body[0])):
        raise ExtractionError("%s.__init__: unrecognised creation statement `%s`" % (outer, ast.unparse(body[0].body[0])))
    ga = members.get("__getattr__")
    if not (isinstance(ga, ast.FunctionDef) and [ast.unparse(x) for x in strip_doc(ga.body)] == ["return getattr(self.storage_instance, name)"]):
        raise ExtractionError("%s.__getattr__: does not forward to the current storage_instance" % outer)
    # nothing else may replace the store, its lock, or re-initialise it
    for n in ast.walk(tree):
        if isinstance(n, ast.Attribute) and n.attr == "storage_instance" and isinstance(n.ctx, (ast.Store, ast.Del)) \
                and n is not body[0].body[0].targets[0]:
            raise ExtractionError("%s: storage_instance is assigned outside the creation guard (line %d)" % (rel_of(tree), n.lineno))
    for fn in cls.body:
        if isinstance(fn, ast.FunctionDef) and fn.name != "__init__":
            for n in ast.walk(fn):
                if isinstance(n, ast.Attribute) and isinstance(n.value, ast.Name) and n.value.id == "self":
                    if n.attr == "lock" and isinstance(n.ctx, (ast.Store, ast.Del)):
                        raise ExtractionError("%s store, %s: the lock object is replaced" % (flavour, fn.name))
                    if n.attr in ("__init__", "__dict__", "__class__"):
                        raise ExtractionError("%s store, %s: re-initialises / rewires the store object" % (flavour, fn.name))
    if cls.bases or cls.keywords:
        raise ExtractionError("%s store class has base classes: truthiness cannot be read off the class body" % flavour)
    falsy = any(isinstance(fn, ast.FunctionDef) and fn.name in ("__len__", "__bool__") for fn in cls.body) or \
        any(isinstance(n, ast.Assign) and any(isinstance(t, ast.Name) and t.id in ("__len__", "__bool__") for t in n.targets) for n in cls.body)
    return {"test_is_none": is_none, "falsy_capable": falsy, "weak": (not is_none) and falsy,
            "guard_line": body[0].lineno, "first": oc.lineno, "last": oc.end_lineno}


def rel_of(tree):
    return "module"


def extract():
    """-> (methods: [(name, kind, stmt_text)], lines: {flavour: {lineno: [micro]}}, ranges, report)"""
    methods, lines, ranges, spans = [], {}, {}, {}
    for flavour, (rel, outer) in FILES.items():
        tree, src = parse(rel)
        oc = find_class(tree, outer)
        inner = [n for n in oc.body if isinstance(n, ast.ClassDef) and n.name == INNER]
        if len(inner) != 1:
            raise ExtractionError("%s: inner class %s not found" % (outer, INNER))
        cls = inner[0]
        _check_init(flavour, cls)
        tr = Tr(flavour, src, cls)
        sg = _singleton(flavour, tree, oc, cls)
        ranges[flavour] = {"file": rel, "first": cls.lineno, "last": cls.end_lineno, "methods": {},
                           "shell": [oc.lineno, oc.end_lineno], "singleton": sg}
        tr.lines.setdefault(sg["guard_line"], []).append("ctor %s" % ("true" if sg["weak"] else "false"))
        for fn in cls.body:
            if isinstance(fn, ast.Expr) and isinstance(fn.value, ast.Constant):
                continue
            if not isinstance(fn, ast.FunctionDef):
                raise ExtractionError("%s store: unexpected class member %s" % (flavour, type(fn).__name__))
            ranges[flavour]["methods"][fn.name] = [fn.lineno, fn.end_lineno]
            if fn.name == "__init__":
                continue
            text = tr.method(fn, "%s.%s" % (flavour, fn.name))
            if fn.name in tr.helpers:
                kind = "helper"
            else:
                kind = "locking" if any(_lock_call(s) or isinstance(s, ast.With) for s in ast.walk(fn)) else "lockfree"
            methods.append(("%s.%s" % (flavour, fn.name), kind, text))
        lines[flavour] = {str(k): v for k, v in sorted(tr.lines.items())}
        spans[flavour] = span_hash(src, cls)
    return methods, lines, ranges, spans


def ranges_only():
    """Line ranges of the two storage classes without any interpretation of their statements: what the scheduler
    needs to keep running the property oracle when `extract` no longer recognises the source."""
    ranges, methods = {}, {}
    for flavour, (rel, outer) in FILES.items():
        tree, src = parse(rel)
        oc = find_class(tree, outer)
        cls = [n for n in oc.body if isinstance(n, ast.ClassDef) and n.name == INNER][0]
        ranges[flavour] = {"file": rel, "first": cls.lineno, "last": cls.end_lineno, "methods": {},
                           "shell": [oc.lineno, oc.end_lineno]}
        for fn in cls.body:
            if isinstance(fn, ast.FunctionDef):
                ranges[flavour]["methods"][fn.name] = [fn.lineno, fn.end_lineno]
                if fn.name != "__init__" and not (fn.name.startswith("__")):
                    takes = any(_lock_call(s) or isinstance(s, ast.With) for s in ast.walk(fn))
                    methods["%s.%s" % (flavour, fn.name)] = "locking" if takes else "lockfree"
    return {"lines": {"shared": {}, "disjoint": {}}, "ranges": ranges, "methods": methods, "degraded": True}


def lean_name(n):
    return n.replace(".", "_").replace("___", "_h_")


def generate():
    methods, lines, ranges, spans = extract()
    body = "open FimVerif.Lock\n\n"
    for name, kind, text in methods:
        body += "def %s : Stmt :=\n  %s\n\n" % (lean_name(name), text)

    def table(kind):
        return lean_list(["(%s, %s)" % (lean_str(n), lean_name(n)) for n, k, _ in methods if k == kind])
    body += "/-- public methods that take the lock -/\ndef locking : List (String × Stmt) := %s\n\n" % table("locking")
    body += "/-- public methods that never touch the lock -/\ndef lockfree : List (String × Stmt) := %s\n\n" % table("lockfree")
    body += "/-- private helpers called with the lock held -/\ndef helpers : List (String × Stmt) := %s\n\n" % table("helper")
    body += "def methods : List (String × Stmt) := locking ++ lockfree ++ helpers\n\n"
    body += ("/-- the shells' singleton creation: (store, guard tests `is None`, the store class defines __len__/__bool__) -/\n"
             "def singletons : List (String × Bool × Bool) := %s\n\n" % lean_list(
                 ["(%s, %s, %s)" % (lean_str(fl), "true" if ranges[fl]["singleton"]["test_is_none"] else "false",
                                    "true" if ranges[fl]["singleton"]["falsy_capable"] else "false") for fl in FILES]))
    body += ("/-- constructing an importer / graph object: one evaluation of the creation guard -/\n"
             "def shellCtor : List (String × Stmt) := %s\n" % lean_list(
                 ["(%s, .prim (.ctor %s) false)" % (lean_str(fl), "true" if ranges[fl]["singleton"]["weak"] else "false") for fl in FILES]))
    changed = emit("LockCfg", body, header="import FimVerif.Model.Lock\n")
    return {"methods": {n: k for n, k, _ in methods}, "lines": lines, "ranges": ranges, "spans": spans, "changed": changed}
