"""C10 - dump the constraint tables and the few code facts the validation model is parametric in.

Read from /repo's working tree on every run:
  * ServiceType / NodeType / InterfaceType / LinkType members (import);
  * NetworkServiceSliver.ServiceConstraints, NodeSliver.NodeConstraints, NetworkLinkSliver.LinkConstraints,
    NO_LIMIT (import and dump; a row for every enum member is required, numbers must be non-negative ints);
  * which property names have a getter on NodeSliver / NetworkServiceSliver (`property_exists`, introspection);
  * which properties `node_sliver_from_graph_properties_dict` / `network_service_sliver_from_graph_properties_dict`
    populate (AST: keyword names of the `set_properties(...)` calls) - a property outside this list is
    always None on the sliver `validate_constraints` looks at;
  * the guardrail pairs of NetworkService.__service_guardrails (AST, one recognised idiom) and where it is
    called from (constructor loop / connect_interface);
  * the node types `Topology._list_nodes` leaves out (AST: `if n.type != NodeType.X:` around the insertion);
  * the topology class whose services get the interface-count check (AST of the isinstance test).
Any other source shape is an ExtractionError.
"""
import ast
from .common import *

REL_NS = "fim/user/network_service.py"
REL_TOPO = "fim/user/topology.py"
REL_APG = "fim/graph/abc_property_graph.py"


def _nat(v, what):
    if isinstance(v, bool) or not isinstance(v, int) or v < 0:
        raise ExtractionError("%s is not a non-negative int: %r" % (what, v))
    return v


def _strs(v, what):
    if not isinstance(v, (list, tuple)) or not all(isinstance(x, str) for x in v):
        raise ExtractionError("%s is not a list of str: %r" % (what, v))
    return list(v)


def tables():
    """The three tables as plain data (also used by the harness to describe the live table)."""
    import fim.slivers.network_service as ns
    import fim.slivers.network_node as nn
    import fim.slivers.network_link as nl
    from fim.slivers.interface_info import InterfaceType
    S = ns.NetworkServiceSliver
    if S.NO_LIMIT != 0 or nl.NetworkLinkSliver.NO_LIMIT != 0:
        raise ExtractionError("NO_LIMIT is not 0")
    svc = []
    for t in ns.ServiceType:
        if t not in S.ServiceConstraints:
            raise ExtractionError("ServiceConstraints has no row for %s" % t)
        r = S.ServiceConstraints[t]
        its = list(r.required_interface_types)
        if not all(isinstance(x, InterfaceType) for x in its):
            raise ExtractionError("required_interface_types of %s is not a list of InterfaceType" % t)
        if not isinstance(r.layer, ns.NSLayer):
            raise ExtractionError("layer of %s" % t)
        svc.append((t.name, {"layer": r.layer.name,
                             "min_interfaces": _nat(r.min_interfaces, "min_interfaces of %s" % t),
                             "num_interfaces": _nat(r.num_interfaces, "num_interfaces of %s" % t),
                             "num_sites": _nat(r.num_sites, "num_sites of %s" % t),
                             "num_instances": _nat(r.num_instances, "num_instances of %s" % t),
                             "required_properties": _strs(r.required_properties, "required_properties of %s" % t),
                             "forbidden_properties": _strs(r.forbidden_properties, "forbidden_properties of %s" % t),
                             "required_interface_types": [x.name for x in its]}))
    if len(S.ServiceConstraints) != len(svc):
        raise ExtractionError("ServiceConstraints has keys that are not ServiceType members")
    node = []
    for t in nn.NodeType:
        if t not in nn.NodeSliver.NodeConstraints:
            raise ExtractionError("NodeConstraints has no row for %s" % t)
        r = nn.NodeSliver.NodeConstraints[t]
        node.append((t.name, {"required_properties": _strs(r.required_properties, "required of %s" % t),
                              "forbidden_properties": _strs(r.forbidden_properties, "forbidden of %s" % t)}))
    if len(nn.NodeSliver.NodeConstraints) != len(node):
        raise ExtractionError("NodeConstraints has keys that are not NodeType members")
    link = []
    for t in nl.LinkType:
        if t not in nl.NetworkLinkSliver.LinkConstraints:
            raise ExtractionError("LinkConstraints has no row for %s" % t)
        r = nl.NetworkLinkSliver.LinkConstraints[t]
        link.append((t.name, {"layer": r.layer.name, "num_interfaces": _nat(r.num_interfaces, "num_interfaces of %s" % t)}))
    enums = {"service": [t.name for t in ns.ServiceType], "node": [t.name for t in nn.NodeType],
             "interface": [t.name for t in InterfaceType], "link": [t.name for t in nl.LinkType]}
    return {"svc": svc, "node": node, "link": link, "enums": enums}


def getters():
    import fim.slivers.network_service as ns
    import fim.slivers.network_node as nn

    def of(cls):
        inst = cls()
        return sorted(k[4:] for k in dir(inst) if k.startswith("get_") and k != "get_property" and inst.property_exists(k[4:]))
    return of(nn.NodeSliver), of(ns.NetworkServiceSliver)


def _set_properties_keywords(fn):
    out = []
    for n in ast.walk(fn):
        if isinstance(n, ast.Call) and isinstance(n.func, ast.Attribute) and n.func.attr == "set_properties":
            for k in n.keywords:
                if k.arg is None:
                    raise ExtractionError("%s: set_properties(**x) is not recognised" % fn.name)
                out.append(k.arg)
    return out


def shallow():
    tree, src = parse(REL_APG)
    cls = find_class(tree, "ABCPropertyGraph")
    base = _set_properties_keywords(find_func(cls, "set_base_sliver_properties_from_graph_properties_dict"))
    res = {}
    for key, fname in (("node", "node_sliver_from_graph_properties_dict"),
                       ("svc", "network_service_sliver_from_graph_properties_dict")):
        fn = find_func(cls, fname)
        calls_base = any(isinstance(n, ast.Call) and isinstance(n.func, ast.Attribute)
                         and n.func.attr == "set_base_sliver_properties_from_graph_properties_dict" for n in ast.walk(fn))
        own = _set_properties_keywords(fn)
        if not own:
            raise ExtractionError("%s: no set_properties call" % fname)
        res[key] = sorted(set(own + (base if calls_base else [])))
    return res, span_hash(src, cls)


def _enum_attr(node, enum):
    return (isinstance(node, ast.Attribute) and isinstance(node.value, ast.Name) and node.value.id == enum) and node.attr


def guardrails():
    tree, src = parse(REL_NS)
    cls = find_class(tree, "NetworkService")
    fn = find_func(cls, "__service_guardrails")
    pairs = []
    for st in strip_doc(fn.body):
        ok = (isinstance(st, ast.If) and not st.orelse and isinstance(st.test, ast.BoolOp) and isinstance(st.test.op, ast.And)
              and len(st.test.values) == 2 and len(st.body) == 1 and isinstance(st.body[0], ast.Raise))
        if not ok:
            raise ExtractionError("__service_guardrails: statement is not `if A and B: raise`")
        a, b = st.test.values
        # sliver.get_type() == ServiceType.X
        okA = (isinstance(a, ast.Compare) and len(a.ops) == 1 and isinstance(a.ops[0], ast.Eq) and isinstance(a.left, ast.Call)
               and isinstance(a.left.func, ast.Attribute) and a.left.func.attr == "get_type"
               and getattr(a.left.func.value, "id", "") == "sliver")
        okB = (isinstance(b, ast.Compare) and len(b.ops) == 1 and isinstance(b.ops[0], ast.Eq) and isinstance(b.left, ast.Attribute)
               and b.left.attr == "type" and getattr(b.left.value, "id", "") == "interface")
        if not (okA and okB):
            raise ExtractionError("__service_guardrails: condition is not `sliver.get_type() == ServiceType.X and interface.type == InterfaceType.Y`")
        x = _enum_attr(a.comparators[0], "ServiceType")
        y = _enum_attr(b.comparators[0], "InterfaceType")
        exc = st.body[0].exc
        if not (x and y and isinstance(exc, ast.Call) and getattr(exc.func, "id", "") == "TopologyException"):
            raise ExtractionError("__service_guardrails: operands / exception class")
        pairs.append((x, y))

    def calls(fname):
        f = find_func(cls, fname)
        return any(isinstance(n, ast.Call) and isinstance(n.func, ast.Attribute) and n.func.attr == "__service_guardrails"
                   for n in ast.walk(f))
    # the class whose services get the interface-count check
    v = find_func(cls, "__validate_nstype_constraints")
    exp_cls = None
    for n in ast.walk(v):
        if isinstance(n, ast.If) and isinstance(n.test, ast.Call) and getattr(n.test.func, "id", "") == "isinstance" \
                and len(n.test.args) == 2 and isinstance(n.test.args[1], ast.Attribute):
            exp_cls = n.test.args[1].attr
    if exp_cls is None:
        raise ExtractionError("__validate_nstype_constraints: isinstance(self.topo, <class>) guard not found")
    return pairs, calls("__init__"), calls("connect_interface"), exp_cls, span_hash(src, fn)


def nodes_view_excludes():
    tree, src = parse(REL_TOPO)
    cls = find_class(tree, "Topology")
    fn = find_func(cls, "_list_nodes")
    ex = []
    for n in ast.walk(fn):
        if isinstance(n, ast.If) and isinstance(n.test, ast.Compare) and len(n.test.ops) == 1 \
                and isinstance(n.test.ops[0], ast.NotEq) and isinstance(n.test.left, ast.Attribute) and n.test.left.attr == "type":
            x = _enum_attr(n.test.comparators[0], "NodeType")
            if not x:
                raise ExtractionError("_list_nodes: filter is not on a NodeType member")
            ex.append(x)
        elif isinstance(n, ast.If):
            raise ExtractionError("_list_nodes: unrecognised condition")
    # validate() must iterate self.nodes / self.network_services
    val = find_func(cls, "validate")
    loops = [ast.unparse(n.iter) for n in ast.walk(val) if isinstance(n, ast.For)]
    if "self.nodes.values()" not in loops or "self.network_services.values()" not in loops:
        raise ExtractionError("Topology.validate: loops over self.nodes / self.network_services not found: %s" % loops)
    return ex, span_hash(src, val)


def presence_tests():
    """How each check site of validate_constraints decides that a property is set: 'truthy' (`if [not] x.get_property(p)`)
    or 'notNone' (`... is [not] None`). Anything else is an ExtractionError."""
    out = {}
    for rel, cls_name, key in ((REL_NS, "NetworkService", "svc"), ("fim/user/node.py", "Node", "node")):
        tree, src = parse(rel)
        fn = find_func(find_class(tree, cls_name), "validate_constraints")
        loops = [n for n in ast.walk(fn) if isinstance(n, ast.For) and isinstance(n.iter, ast.Name) and n.iter.id in ("req_props", "forb_props")]
        if sorted(l.iter.id for l in loops) != ["forb_props", "req_props"]:
            raise ExtractionError("%s.validate_constraints: loops over req_props / forb_props not found" % cls_name)
        for lp in loops:
            if len(lp.body) != 1 or not isinstance(lp.body[0], ast.If) or lp.body[0].orelse:
                raise ExtractionError("%s.validate_constraints: loop body is not a single `if`" % cls_name)
            test = lp.body[0].test
            modes = set()
            parents = {}
            for n in ast.walk(test):
                for ch in ast.iter_child_nodes(n):
                    parents[ch] = n
            for n in ast.walk(test):
                if isinstance(n, ast.Call) and isinstance(n.func, ast.Attribute) and n.func.attr == "get_property":
                    par = parents.get(n)
                    if isinstance(par, ast.Compare) and len(par.ops) == 1 and isinstance(par.ops[0], (ast.Is, ast.IsNot)) \
                            and isinstance(par.comparators[0], ast.Constant) and par.comparators[0].value is None:
                        modes.add("notNone")
                    elif isinstance(par, (ast.UnaryOp, ast.BoolOp, ast.If)) or par is None:
                        modes.add("truthy")
                    else:
                        raise ExtractionError("%s.validate_constraints: get_property used in an unrecognised test: %s" % (cls_name, ast.unparse(test)))
            if len(modes) != 1:
                raise ExtractionError("%s.validate_constraints: presence test not recognised: %s" % (cls_name, ast.unparse(test)))
            out[key + ("_req" if lp.iter.id == "req_props" else "_forb")] = modes.pop()
    return out


def value_classes(t):
    """For every property a row names: the class of the value the sliver holds once it is set through its setter, and
    whether that class can be falsy (defines __len__ or __bool__)."""
    import enum
    import inspect
    import fim.slivers.network_service as ns
    import fim.slivers.network_node as nn
    res = {}
    for key, cls, rows in (("svc", ns.NetworkServiceSliver, t["svc"]), ("node", nn.NodeSliver, t["node"])):
        names = []
        for _, r in rows:
            for p in r["required_properties"] + r["forbidden_properties"]:
                if p not in names:
                    names.append(p)
        out = []
        for p in names:
            setter = getattr(cls, "set_" + p, None)
            if setter is None or not hasattr(cls, "get_" + p):
                out.append((p, "unreadable", False))
                continue
            params = list(inspect.signature(setter).parameters.values())[1:]
            if len(params) != 1:
                raise ExtractionError("setter of %s does not take one value" % p)
            ann = params[0].annotation
            samples = []
            if ann is str or ann is inspect.Parameter.empty:
                samples = ["x", "10.0.0.1"]
            elif inspect.isclass(ann) and issubclass(ann, enum.Enum):
                samples = [list(ann)[0]]
            elif inspect.isclass(ann):
                samples = [ann()]
            else:
                raise ExtractionError("setter annotation of %s not recognised: %r" % (p, ann))
            val = None
            for smp in samples:
                inst = cls()
                try:
                    inst.set_property(p, smp)
                    val = inst.get_property(p)
                    break
                except (ValueError, AssertionError):
                    continue
            if val is None:
                raise ExtractionError("no sample value accepted by the setter of %s" % p)
            vc = type(val)
            falsy = any("__len__" in k.__dict__ or "__bool__" in k.__dict__ for k in vc.__mro__)
            out.append((p, vc.__name__, bool(falsy)))
        res[key] = out
    return res


def _row(r):
    return ("{ layer := %s, minIfs := %d, numIfs := %d, numSites := %d, numInst := %d, req := %s, forb := %s, ifTypes := %s }" % (
        lean_str(r["layer"]), r["min_interfaces"], r["num_interfaces"], r["num_sites"], r["num_instances"],
        lean_list([lean_str(x) for x in r["required_properties"]]), lean_list([lean_str(x) for x in r["forbidden_properties"]]),
        lean_list([lean_str(x) for x in r["required_interface_types"]])))


STRUCTS = """structure SvcRow where
  layer : String
  minIfs : Nat
  numIfs : Nat
  numSites : Nat
  numInst : Nat
  req : List String
  forb : List String
  ifTypes : List String
  deriving DecidableEq, Repr, Inhabited

structure NodeRow where
  req : List String
  forb : List String
  deriving DecidableEq, Repr, Inhabited

"""


def generate():
    t = tables()
    ng, sg = getters()
    sh, h1 = shallow()
    pairs, ctor_g, conn_g, exp_cls, h2 = guardrails()
    excl, h3 = nodes_view_excludes()
    sl = lambda xs: lean_list([lean_str(x) for x in xs])
    body = STRUCTS
    body += "def noLimit : Nat := 0\n\n"
    body += "def serviceTypes : List String := %s\n\n" % sl(t["enums"]["service"])
    body += "def nodeTypes : List String := %s\n\n" % sl(t["enums"]["node"])
    body += "def interfaceTypes : List String := %s\n\n" % sl(t["enums"]["interface"])
    body += "def linkTypes : List String := %s\n\n" % sl(t["enums"]["link"])
    body += "def svcRows : List (String × SvcRow) := [\n" + ",\n".join(
        "  (%s, %s)" % (lean_str(k), _row(r)) for k, r in t["svc"]) + "]\n\n"
    body += "def nodeRows : List (String × NodeRow) := [\n" + ",\n".join(
        "  (%s, { req := %s, forb := %s })" % (lean_str(k), sl(r["required_properties"]), sl(r["forbidden_properties"]))
        for k, r in t["node"]) + "]\n\n"
    body += "def linkRows : List (String × String × Nat) := [\n" + ",\n".join(
        "  (%s, %s, %d)" % (lean_str(k), lean_str(r["layer"]), r["num_interfaces"]) for k, r in t["link"]) + "]\n\n"
    body += "/-- property names with a `get_<name>` method (what `property_exists` answers) -/\n"
    body += "def nodeGetters : List String := %s\n\n" % sl(ng)
    body += "def svcGetters : List String := %s\n\n" % sl(sg)
    body += "/-- properties the shallow sliver built from the graph node's property dict can carry -/\n"
    body += "def nodeShallow : List String := %s\n\n" % sl(sh["node"])
    body += "def svcShallow : List String := %s\n\n" % sl(sh["svc"])
    body += "/-- `__service_guardrails`: (service type, interface type) pairs refused -/\n"
    body += "def guardPairs : List (String × String) := %s\n\n" % lean_list(["(%s, %s)" % (lean_str(a), lean_str(b)) for a, b in pairs])
    body += "def ctorRunsGuardrails : Bool := %s\n\n" % ("true" if ctor_g else "false")
    body += "def connectRunsGuardrails : Bool := %s\n\n" % ("true" if conn_g else "false")
    body += "/-- node types `Topology.nodes` leaves out (so `validate` never looks at them) -/\n"
    body += "def nodesViewExcludes : List String := %s\n\n" % sl(excl)
    body += "def ifaceCountTopologyClass : String := %s\n\n" % lean_str(exp_cls)
    pt = presence_tests()
    vc = value_classes(t)
    body += "/-- how `validate_constraints` decides that a property is set: `true` = by truthiness of the value, `false` = `is not None` -/\n"
    for k, nm in (("svc_req", "svcReqTruthy"), ("svc_forb", "svcForbTruthy"), ("node_req", "nodeReqTruthy"), ("node_forb", "nodeForbTruthy")):
        body += "def %s : Bool := %s\n" % (nm, "true" if pt[k] == "truthy" else "false")
    for key, nm in (("svc", "svcValueClasses"), ("node", "nodeValueClasses")):
        body += "\n/-- (property, class of the value the sliver holds, class defines `__len__`/`__bool__`) -/\n"
        body += "def %s : List (String × String × Bool) := %s\n" % (nm, lean_list(
            ["(%s, %s, %s)" % (lean_str(p), lean_str(c), "true" if f else "false") for p, c, f in vc[key]]))
    body += "\n/-- constrained properties whose value is an object that can be falsy although it is set (strings are not listed: an\nempty string counts as not set) -/\n"
    body += "def svcFalsyCapable : List String := %s\n" % sl([p for p, c, f in vc["svc"] if f and c != "str"])
    body += "def nodeFalsyCapable : List String := %s\n" % sl([p for p, c, f in vc["node"] if f and c != "str"])
    changed = emit("Constraints", body)
    return {"svc_rows": len(t["svc"]), "node_rows": len(t["node"]), "link_rows": len(t["link"]),
            "guard_pairs": pairs, "ctor_guardrails": ctor_g, "connect_guardrails": conn_g,
            "nodes_view_excludes": excl, "node_getters_missing": sorted({p for _, r in t["node"] for p in
                                                                         r["required_properties"] + r["forbidden_properties"]} - set(ng)),
            "presence_tests": pt, "value_classes": vc, "changed": changed, "spans": {"abc_property_graph": h1, "guardrails": h2, "validate": h3}}
