"""C10 - dump the constraint tables and the few code facts the validation model is parametric in.

Read from /repo's working tree on every run:
  * ServiceType / NodeType / InterfaceType / LinkType members (import);
  * NetworkServiceSliver.ServiceConstraints, NodeSliver.NodeConstraints, NetworkLinkSliver.LinkConstraints,
    NO_LIMIT (import and dump; a row for every enum member is required, numbers must be non-negative ints);
  * which property names have a getter on NodeSliver / NetworkServiceSliver (`property_exists`, introspection);
  * which properties `node_sliver_from_graph_properties_dict` / `network_service_sliver_from_graph_properties_dict`
    populate (AST: keyword names of the `set_properties(...)` calls) - a property outside this list is
    always None on the sliver `validate_constraints` looks at;
  * the guardrail pairs of NetworkService.__service_guardrails (AST, one recognised idiom) and where it is
    called from (constructor loop / connect_interface);
  * the node types `Topology._list_nodes` leaves out (AST: `if n.type != NodeType.X:` around the insertion);
  * the topology class whose services get the interface-count check (AST of the isinstance test).
Any other source shape is an ExtractionError.
"""
import ast
import contextlib
import copy
import types
from .common import *

REL_NS = "fim/user/network_service.py"
REL_TOPO = "fim/user/topology.py"
REL_APG = "fim/graph/abc_property_graph.py"


def _nat(v, what):
    if isinstance(v, bool) or not isinstance(v, int) or v < 0:
        raise ExtractionError("%s is not a non-negative int: %r" % (what, v))
    return v


def _strs(v, what):
    if not isinstance(v, (list, tuple)) or not all(isinstance(x, str) for x in v):
        raise ExtractionError("%s is not a list of str: %r" % (what, v))
    return list(v)


def tables():
    """The three tables as plain data (also used by the harness to describe the live table)."""
    import fim.slivers.network_service as ns
    import fim.slivers.network_node as nn
    import fim.slivers.network_link as nl
    from fim.slivers.interface_info import InterfaceType
    S = ns.NetworkServiceSliver
    if S.NO_LIMIT != 0 or nl.NetworkLinkSliver.NO_LIMIT != 0:
        raise ExtractionError("NO_LIMIT is not 0")
    svc = []
    for t in ns.ServiceType:
        if t not in S.ServiceConstraints:
            raise ExtractionError("ServiceConstraints has no row for %s" % t)
        r = S.ServiceConstraints[t]
        its = list(r.required_interface_types)
        if not all(isinstance(x, InterfaceType) for x in its):
            raise ExtractionError("required_interface_types of %s is not a list of InterfaceType" % t)
        if not isinstance(r.layer, ns.NSLayer):
            raise ExtractionError("layer of %s" % t)
        svc.append((t.name, {"layer": r.layer.name,
                             "min_interfaces": _nat(r.min_interfaces, "min_interfaces of %s" % t),
                             "num_interfaces": _nat(r.num_interfaces, "num_interfaces of %s" % t),
                             "num_sites": _nat(r.num_sites, "num_sites of %s" % t),
                             "num_instances": _nat(r.num_instances, "num_instances of %s" % t),
                             "required_properties": _strs(r.required_properties, "required_properties of %s" % t),
                             "forbidden_properties": _strs(r.forbidden_properties, "forbidden_properties of %s" % t),
                             "required_interface_types": [x.name for x in its]}))
    if len(S.ServiceConstraints) != len(svc):
        raise ExtractionError("ServiceConstraints has keys that are not ServiceType members")
    node = []
    for t in nn.NodeType:
        if t not in nn.NodeSliver.NodeConstraints:
            raise ExtractionError("NodeConstraints has no row for %s" % t)
        r = nn.NodeSliver.NodeConstraints[t]
        node.append((t.name, {"required_properties": _strs(r.required_properties, "required of %s" % t),
                              "forbidden_properties": _strs(r.forbidden_properties, "forbidden of %s" % t)}))
    if len(nn.NodeSliver.NodeConstraints) != len(node):
        raise ExtractionError("NodeConstraints has keys that are not NodeType members")
    link = []
    for t in nl.LinkType:
        if t not in nl.NetworkLinkSliver.LinkConstraints:
            raise ExtractionError("LinkConstraints has no row for %s" % t)
        r = nl.NetworkLinkSliver.LinkConstraints[t]
        link.append((t.name, {"layer": r.layer.name, "num_interfaces": _nat(r.num_interfaces, "num_interfaces of %s" % t)}))
    enums = {"service": [t.name for t in ns.ServiceType], "node": [t.name for t in nn.NodeType],
             "interface": [t.name for t in InterfaceType], "link": [t.name for t in nl.LinkType]}
    return {"svc": svc, "node": node, "link": link, "enums": enums}


def getters():
    import fim.slivers.network_service as ns
    import fim.slivers.network_node as nn

    def of(cls):
        inst = cls()
        return sorted(k[4:] for k in dir(inst) if k.startswith("get_") and k != "get_property" and inst.property_exists(k[4:]))
    return of(nn.NodeSliver), of(ns.NetworkServiceSliver)


def _set_properties_keywords(fn):
    out = []
    for n in ast.walk(fn):
        if isinstance(n, ast.Call) and isinstance(n.func, ast.Attribute) and n.func.attr == "set_properties":
            for k in n.keywords:
                if k.arg is None:
                    raise ExtractionError("%s: set_properties(**x) is not recognised" % fn.name)
                out.append(k.arg)
    return out


def shallow():
    tree, src = parse(REL_APG)
    cls = find_class(tree, "ABCPropertyGraph")
    base = _set_properties_keywords(find_func(cls, "set_base_sliver_properties_from_graph_properties_dict"))
    res = {}
    for key, fname in (("node", "node_sliver_from_graph_properties_dict"),
                       ("svc", "network_service_sliver_from_graph_properties_dict")):
        fn = find_func(cls, fname)
        calls_base = any(isinstance(n, ast.Call) and isinstance(n.func, ast.Attribute)
                         and n.func.attr == "set_base_sliver_properties_from_graph_properties_dict" for n in ast.walk(fn))
        own = _set_properties_keywords(fn)
        if not own:
            raise ExtractionError("%s: no set_properties call" % fname)
        res[key] = sorted(set(own + (base if calls_base else [])))
    return res, span_hash(src, cls)


# --------------------------------------------------------------------------
# behavioural probes: the facts below are *observed* on small scratch topologies built through the public API, not read
# off the source text, so that a behaviour-preserving rewrite (hoisted lookups, extracted helpers, renamed locals,
# re-associated boolean tests) yields the same Generated file and a semantic change yields a different one.

class _Falsy:
    """a value that is set (not None) but falsy"""
    def __bool__(self):
        return False

    def __len__(self):
        return 0

    def __repr__(self):
        return "<set-but-falsy>"


@contextlib.contextmanager
def _swap(obj, name, value, item=False):
    """temporarily replace an attribute (or a dictionary entry)"""
    if item:
        old = obj[name]
        obj[name] = value
    else:
        old = obj.__dict__.get(name, _swap) if isinstance(obj, type) else getattr(obj, name)
        setattr(obj, name, value)
    try:
        yield
    finally:
        if item:
            obj[name] = old
        elif old is _swap:
            delattr(obj, name)
        else:
            setattr(obj, name, old)


def _fim():
    import fim.user.topology as ft
    import fim.user.node as un
    import fim.user.network_service as uns
    from fim.slivers.network_node import NodeType, NodeSliver
    from fim.slivers.network_service import ServiceType, NetworkServiceSliver
    from fim.slivers.interface_info import InterfaceType
    from fim.slivers.capacities_labels import Labels
    from fim.user.component import ComponentModelType
    from fim.user.model_element import TopologyException
    return locals()


def _drop(t):
    try:
        t.graph_model.delete_graph()
    except Exception:
        pass


def _verdict(F, call):
    try:
        call()
        return "pass"
    except F["TopologyException"]:
        return "raise"
    except Exception as e:
        raise ExtractionError("probe: validate_constraints fails with %s: %s" % (type(e).__name__, str(e)[:200]))


def _node_row(F, nt, req=(), forb=()):
    rec = copy.copy(F["NodeSliver"].NodeConstraints[nt])
    rec.required_properties, rec.forbidden_properties = list(req), list(forb)
    return _swap(F["NodeSliver"].NodeConstraints, nt, rec, item=True)


def _svc_row(F, st, req=(), forb=()):
    rec = copy.copy(F["NetworkServiceSliver"].ServiceConstraints[st])
    rec.min_interfaces = rec.num_interfaces = rec.num_sites = rec.num_instances = F["NetworkServiceSliver"].NO_LIMIT
    rec.required_properties, rec.forbidden_properties, rec.required_interface_types = list(req), list(forb), []
    return _swap(F["NetworkServiceSliver"].ServiceConstraints, st, rec, item=True)


def presence_tests():
    """How each check site of the two validate_constraints decides that a property is set: 'truthy' (an empty string and a
    set-but-falsy object both count as not set) or 'notNone' (both count as set). Observed: the row of a scratch element is
    replaced by one that requires / forbids a single string property and the sliver getter of that property is made to
    return None, a value, '' and a set-but-falsy object in turn. Any other pattern of outcomes is an ExtractionError."""
    F = _fim()
    t = F["ft"].ExperimentTopology()
    out = {}
    try:
        n = t.add_node(name="probe-node", site="PROBE", ntype=F["NodeType"].VM)
        s = t.add_network_service(name="probe-svc", nstype=F["ServiceType"].L2Bridge)
        sites = (("node", F["NodeSliver"], "image_ref", lambda: n.validate_constraints(),
                  lambda **kw: _node_row(F, F["NodeType"].VM, **kw)),
                 ("svc", F["NetworkServiceSliver"], "controller_url", lambda: s.validate_constraints([]),
                  lambda **kw: _svc_row(F, F["ServiceType"].L2Bridge, **kw)))
        for key, cls, p, call, row in sites:
            if not hasattr(cls, "get_" + p):
                raise ExtractionError("probe property %s has no getter on %s" % (p, cls.__name__))
            for kind in ("req", "forb"):
                got = {}
                for label, val in (("none", None), ("value", "x"), ("blank", ""), ("falsy", _Falsy())):
                    with row(**{kind: [p]}), _swap(cls, "get_" + p, lambda self, _v=val: _v):
                        got[label] = _verdict(F, call)
                seen = {k: (v == "pass") == (kind == "req") for k, v in got.items()}      # does the check see the property as set
                if seen["none"] or not seen["value"]:
                    raise ExtractionError("%s.validate_constraints: %s check does not tell an unset property from a set one: %s" % (key, kind, got))
                if not seen["blank"] and not seen["falsy"]:
                    out["%s_%s" % (key, kind)] = "truthy"
                elif seen["blank"] and seen["falsy"]:
                    out["%s_%s" % (key, kind)] = "notNone"
                else:
                    raise ExtractionError("%s.validate_constraints: %s presence test is neither truthiness nor `is not None`: %s" % (key, kind, got))
    finally:
        _drop(t)
    return out


def _sample_value(cls, p):
    """a value the setter of property p accepts (None: no way found)"""
    import enum
    import inspect
    setter = getattr(cls, "set_" + p, None)
    if setter is None:
        return None
    params = list(inspect.signature(setter).parameters.values())[1:]
    if len(params) != 1:
        return None
    ann = params[0].annotation
    if ann is str or ann is inspect.Parameter.empty:
        samples = ["x", "10.0.0.1"]
    elif inspect.isclass(ann) and issubclass(ann, enum.Enum):
        samples = [list(ann)[0]]
    elif inspect.isclass(ann):
        try:
            samples = [ann()]
        except Exception:
            samples = []
    else:
        samples = []
    for smp in samples:
        inst = cls()
        try:
            inst.set_property(p, smp)
            if inst.get_property(p) is not None:
                return smp
        except Exception:
            continue
    return None


def node_seen(t_rows):
    """Which of the properties the node rows name `Node.validate_constraints` can see when they are set through the API
    (observed on a scratch VM whose row forbids / requires that one property). -> (seen, unprobed)"""
    F = _fim()
    names = []
    for _, r in t_rows:
        for p in r["required_properties"] + r["forbidden_properties"]:
            if p not in names:
                names.append(p)
    seen, unprobed = [], []
    for p in names:
        t = F["ft"].ExperimentTopology()
        try:
            n = t.add_node(name="probe-node", site="PROBE", ntype=F["NodeType"].VM)
            if p != "site":
                n.set_property("site", None)
            bare = t.add_node(name="probe-bare", site="PROBE", ntype=F["NodeType"].VM)
            bare.set_property("site", None)         # really unset (the constructor insists on a string)
            if p == "site":
                pass
            elif p == "attached_components_info":
                n.add_component(name="probe-gpu", model_type=F["ComponentModelType"].GPU_RTX6000)
            else:
                smp = _sample_value(F["NodeSliver"], p)
                if smp is None:
                    unprobed.append(p)
                    continue
                try:
                    n.set_property(p, smp)
                    if n.get_property(p) is None:
                        # some properties are only stored together with others (image_ref with image_type)
                        both = {q: _sample_value(F["NodeSliver"], q) for q in names if q not in ("site", "attached_components_info")}
                        n.set_properties(**{q: v for q, v in both.items() if v is not None})
                    if n.get_property(p) is None:
                        raise ValueError(p)
                except Exception:
                    unprobed.append(p)
                    continue
            with _node_row(F, F["NodeType"].VM, forb=[p]):
                f_set, f_unset = _verdict(F, n.validate_constraints), _verdict(F, bare.validate_constraints)
            with _node_row(F, F["NodeType"].VM, req=[p]):
                r_set, r_unset = _verdict(F, n.validate_constraints), _verdict(F, bare.validate_constraints)
            if f_unset != "pass" or r_unset != "raise":
                raise ExtractionError("Node.validate_constraints sees %s on a node that does not have it" % p)
            if (f_set == "raise") != (r_set == "pass"):
                raise ExtractionError("Node.validate_constraints: required and forbidden checks disagree on whether %s is set" % p)
            if f_set == "raise":
                seen.append(p)
        finally:
            _drop(t)
    return seen, unprobed


def validated_node_types():
    """(node types `Topology.nodes` leaves out, node types `Topology.validate` never hands to validate_constraints) - observed
    on an experiment and a substrate topology holding one node of every type."""
    F = _fim()
    NT = F["NodeType"]
    hidden, skipped = set(), set()
    for exp in (True, False):
        t = F["ft"].ExperimentTopology() if exp else F["ft"].SubstrateTopology()
        try:
            for i, nt in enumerate(NT):
                t.add_node(name="probe-%d" % i, site="PROBE", ntype=nt, node_id=None if exp else "probe-id-%d" % i)
            shown = {n.type for n in t.nodes.values()}
            reached = []
            with _swap(F["un"].Node, "validate_constraints", lambda self: reached.append(self.type)):
                try:
                    t.validate()
                except F["TopologyException"]:
                    pass
            hidden |= set(NT) - shown
            skipped |= set(NT) - set(reached)
        finally:
            _drop(t)
    return [x.name for x in NT if x in hidden], [x.name for x in NT if x in skipped]


def guardrails():
    """(pairs refused by __service_guardrails, constructor runs it, connect_interface runs it, topology classes whose services
    get the interface-count check) - all observed."""
    F = _fim()
    NS, IT, ST = F["uns"].NetworkService, F["InterfaceType"], F["ServiceType"]
    G = NS.__dict__.get("_NetworkService__service_guardrails")
    if G is None:
        raise ExtractionError("NetworkService.__service_guardrails not found")
    fn = G.__func__ if isinstance(G, (staticmethod, classmethod)) else G
    t = F["ft"].ExperimentTopology()
    try:
        n = t.add_node(name="probe-node", site="PROBE")
        hs = n.add_network_service(name="probe-helper", nstype=ST.OVS)
        ifaces = {}
        for it in IT:
            try:
                if it == IT.SubInterface:
                    par = hs.add_interface(name="probe-par", itype=IT.DedicatedPort, labels=F["Labels"](local_name="p0"))
                    ifaces[it] = par.add_child_interface(name="probe-par.1", labels=F["Labels"](vlan="100"))
                else:
                    ifaces[it] = hs.add_interface(name="probe-%s" % it.name, itype=it)
            except Exception:
                ifaces[it] = types.SimpleNamespace(type=it, name="probe-%s" % it.name)
        pairs = []
        for st in ST:
            sliver = F["NetworkServiceSliver"]()
            sliver.set_name("probe-svc")
            sliver.set_type(st)
            for it in IT:
                try:
                    fn(sliver, ifaces[it])
                except F["TopologyException"]:
                    pairs.append((st.name, it.name))
                except Exception as e:
                    raise ExtractionError("__service_guardrails(%s, %s) fails with %s: %s" % (st.name, it.name, type(e).__name__, str(e)[:160]))
        # who runs it
        calls = []
        spy = staticmethod(lambda sliver, interface: calls.append(1))
        with _swap(NS, "_NetworkService__service_guardrails", spy):
            t.add_network_service(name="probe-ctor", nstype=ST.L2Bridge, interfaces=[ifaces[IT.DedicatedPort]])
            ctor = bool(calls)
            del calls[:]
            t.add_network_service(name="probe-conn", nstype=ST.L2Bridge).connect_interface(interface=ifaces[IT.TrunkPort])
            conn = bool(calls)
            # ... and on an object that has been used before: the one the constructor returned with an interface given to it,
            # one that connected an interface earlier, one whose earlier connect was refused (a handle is not a licence)
            used = []
            for how in ("ctor", "connect", "refused"):
                q = hs.add_interface(name="probe-q-%s" % how, itype=IT.DedicatedPort)
                r = hs.add_interface(name="probe-r-%s" % how, itype=IT.DedicatedPort)
                if how == "ctor":
                    s = t.add_network_service(name="probe-used-%s" % how, nstype=ST.L2Bridge, interfaces=[q])
                else:
                    s = t.add_network_service(name="probe-used-%s" % how, nstype=ST.L2Bridge)
                    if how == "connect":
                        s.connect_interface(interface=q)
                    else:
                        try:
                            s.connect_interface(interface=ifaces[IT.TrunkPort])      # taken by probe-conn
                        except F["TopologyException"]:
                            pass
                del calls[:]
                s.connect_interface(interface=r)
                used.append(bool(calls))
            conn = conn and all(used)
    finally:
        _drop(t)
    # interface-count limits: a PTP service (two interfaces, no more, no less) without any interface
    classes = []
    for cname in ("ExperimentTopology", "SubstrateTopology"):
        t = getattr(F["ft"], cname)()
        try:
            kw = {} if cname == "ExperimentTopology" else {"node_id": "probe-id"}
            s = t.add_network_service(name="probe-svc", nstype=ST.L2PTP, **kw)
            rec = copy.copy(F["NetworkServiceSliver"].ServiceConstraints[ST.L2PTP])
            rec.min_interfaces, rec.num_interfaces, rec.num_sites = 2, 2, F["NetworkServiceSliver"].NO_LIMIT
            rec.required_properties, rec.forbidden_properties, rec.required_interface_types = [], [], []
            with _swap(F["NetworkServiceSliver"].ServiceConstraints, ST.L2PTP, rec, item=True):
                if _verdict(F, lambda: s.validate_constraints([])) == "raise":
                    classes.append(cname)
        finally:
            _drop(t)
    return pairs, ctor, conn, "+".join(classes)


def value_classes(t):
    """For every property a row names: the class of the value the sliver holds once it is set through its setter, and
    whether that class can be falsy (defines __len__ or __bool__). A property whose setter takes no value this translator can
    make is listed with class 'unknown' and counted as possibly falsy (so that `gen_no_falsy_values` asks for a look)."""
    import fim.slivers.network_service as ns
    import fim.slivers.network_node as nn
    res = {}
    for key, cls, rows in (("svc", ns.NetworkServiceSliver, t["svc"]), ("node", nn.NodeSliver, t["node"])):
        names = []
        for _, r in rows:
            for p in r["required_properties"] + r["forbidden_properties"]:
                if p not in names:
                    names.append(p)
        out = []
        for p in names:
            if getattr(cls, "set_" + p, None) is None or not hasattr(cls, "get_" + p):
                out.append((p, "unreadable", False))
                continue
            smp = _sample_value(cls, p)
            if smp is None:
                out.append((p, "unknown", True))
                continue
            inst = cls()
            inst.set_property(p, smp)
            vc = type(inst.get_property(p))
            falsy = any("__len__" in k.__dict__ or "__bool__" in k.__dict__ for k in vc.__mro__)
            out.append((p, vc.__name__, bool(falsy)))
        res[key] = out
    return res


def values_lost():
    """Enum-valued properties the service rows can name: every member is given to a service of a scratch topology through the
    API and read back from a fresh handle (the way validate_constraints reads it). -> [(property, member)] that do not come back
    as that member (observed)."""
    import enum
    import inspect
    F = _fim()
    S = F["NetworkServiceSliver"]
    lost = []
    for name, fn in inspect.getmembers(S, inspect.isfunction):
        if not name.startswith("set_") or not hasattr(S, "get_" + name[4:]):
            continue
        params = list(inspect.signature(fn).parameters.values())[1:]
        if len(params) != 1 or not (inspect.isclass(params[0].annotation) and issubclass(params[0].annotation, enum.Enum)):
            continue
        p = name[4:]
        if p in ("type", "layer", "technology"):
            continue
        for m in params[0].annotation:
            t = F["ft"].ExperimentTopology()
            try:
                try:
                    t.add_network_service(name="probe-svc", nstype=F["ServiceType"].L2Bridge).set_property(p, m)
                    back = t.network_services["probe-svc"].get_property(p)
                except Exception:
                    back = None
                if back != m:
                    lost.append((p, m.name))
            finally:
                _drop(t)
    return lost


def _row(r):
    return ("{ layer := %s, minIfs := %d, numIfs := %d, numSites := %d, numInst := %d, req := %s, forb := %s, ifTypes := %s }" % (
        lean_str(r["layer"]), r["min_interfaces"], r["num_interfaces"], r["num_sites"], r["num_instances"],
        lean_list([lean_str(x) for x in r["required_properties"]]), lean_list([lean_str(x) for x in r["forbidden_properties"]]),
        lean_list([lean_str(x) for x in r["required_interface_types"]])))


STRUCTS = """structure SvcRow where
  layer : String
  minIfs : Nat
  numIfs : Nat
  numSites : Nat
  numInst : Nat
  req : List String
  forb : List String
  ifTypes : List String
  deriving DecidableEq, Repr, Inhabited

structure NodeRow where
  req : List String
  forb : List String
  deriving DecidableEq, Repr, Inhabited

"""


def generate():
    t = tables()
    ng, sg = getters()
    sh, h1 = shallow()
    pairs, ctor_g, conn_g, exp_cls = guardrails()
    hidden, skipped = validated_node_types()
    seen, unprobed = node_seen(t["node"])
    # the node check reads a property either from the shallow sliver (getter + populated from the property dictionary) or in
    # some other way (through the node handle); what is observed must be consistent with the first explanation where it applies
    via_sliver = [p for p in seen if p in ng and p in sh["node"]]
    via_handle = [p for p in seen if p not in via_sliver]
    all_named = []
    for _, r in t["node"]:
        for p in r["required_properties"] + r["forbidden_properties"]:
            if p not in all_named:
                all_named.append(p)
    lost = [p for p in all_named if p in ng and p in sh["node"] and p not in seen and p not in unprobed]
    if lost:
        raise ExtractionError("node properties with a getter that the shallow sliver carries are not seen by Node.validate_constraints: %s" % lost)
    sl = lambda xs: lean_list([lean_str(x) for x in xs])
    body = STRUCTS
    body += "def noLimit : Nat := 0\n\n"
    body += "def serviceTypes : List String := %s\n\n" % sl(t["enums"]["service"])
    body += "def nodeTypes : List String := %s\n\n" % sl(t["enums"]["node"])
    body += "def interfaceTypes : List String := %s\n\n" % sl(t["enums"]["interface"])
    body += "def linkTypes : List String := %s\n\n" % sl(t["enums"]["link"])
    body += "def svcRows : List (String × SvcRow) := [\n" + ",\n".join(
        "  (%s, %s)" % (lean_str(k), _row(r)) for k, r in t["svc"]) + "]\n\n"
    body += "def nodeRows : List (String × NodeRow) := [\n" + ",\n".join(
        "  (%s, { req := %s, forb := %s })" % (lean_str(k), sl(r["required_properties"]), sl(r["forbidden_properties"]))
        for k, r in t["node"]) + "]\n\n"
    body += "def linkRows : List (String × String × Nat) := [\n" + ",\n".join(
        "  (%s, %s, %d)" % (lean_str(k), lean_str(r["layer"]), r["num_interfaces"]) for k, r in t["link"]) + "]\n\n"
    body += "/-- property names with a `get_<name>` method (what `property_exists` answers) -/\n"
    body += "def nodeGetters : List String := %s\n\n" % sl(ng)
    body += "def svcGetters : List String := %s\n\n" % sl(sg)
    body += "/-- properties the shallow sliver built from the graph node's property dict can carry -/\n"
    body += "def nodeShallow : List String := %s\n\n" % sl(sh["node"])
    body += "def svcShallow : List String := %s\n\n" % sl(sh["svc"])
    body += ("/-- properties named by the node rows that `Node.validate_constraints` sees although the shallow sliver cannot show them\n"
             "(observed: it asks the node handle - components) -/\n")
    body += "def nodeViaHandle : List String := %s\n\n" % sl(via_handle)
    body += "/-- properties named by the node rows this translator could not set through the API (never seen by the check) -/\n"
    body += "def nodeUnprobed : List String := %s\n\n" % sl(unprobed)
    body += "/-- `__service_guardrails`: (service type, interface type) pairs refused (observed over all pairs) -/\n"
    body += "def guardPairs : List (String × String) := %s\n\n" % lean_list(["(%s, %s)" % (lean_str(a), lean_str(b)) for a, b in pairs])
    body += "def ctorRunsGuardrails : Bool := %s\n\n" % ("true" if ctor_g else "false")
    body += "def connectRunsGuardrails : Bool := %s\n\n" % ("true" if conn_g else "false")
    body += "/-- node types `Topology.nodes` leaves out -/\n"
    body += "def nodesViewExcludes : List String := %s\n\n" % sl(hidden)
    body += "/-- node types `Topology.validate` never hands to `validate_constraints` (observed) -/\n"
    body += "def nodeTypesNotValidated : List String := %s\n\n" % sl(skipped)
    body += "/-- topology classes whose services get the interface-count check (observed) -/\n"
    body += "def ifaceCountTopologyClass : String := %s\n\n" % lean_str(exp_cls)
    pt = presence_tests()
    vc = value_classes(t)
    body += ("/-- how `validate_constraints` decides that a property is set (observed): `true` = by truthiness of the value (an empty string\n"
             "and a set-but-falsy object count as not set), `false` = `is not None` (both count as set) -/\n")
    for k, nm in (("svc_req", "svcReqTruthy"), ("svc_forb", "svcForbTruthy"), ("node_req", "nodeReqTruthy"), ("node_forb", "nodeForbTruthy")):
        body += "def %s : Bool := %s\n" % (nm, "true" if pt[k] == "truthy" else "false")
    for key, nm in (("svc", "svcValueClasses"), ("node", "nodeValueClasses")):
        body += "\n/-- (property, class of the value the sliver holds, class defines `__len__`/`__bool__`) -/\n"
        body += "def %s : List (String × String × Bool) := %s\n" % (nm, lean_list(
            ["(%s, %s, %s)" % (lean_str(p), lean_str(c), "true" if f else "false") for p, c, f in vc[key]]))
    body += "\n/-- constrained properties whose value is an object that can be falsy although it is set (strings are not listed: an\nempty string counts as not set) -/\n"
    body += "def svcFalsyCapable : List String := %s\n" % sl([p for p, c, f in vc["svc"] if f and c != "str"])
    body += "def nodeFalsyCapable : List String := %s\n" % sl([p for p, c, f in vc["node"] if f and c != "str"])
    vl = values_lost()
    body += ("\n/-- (enum-valued service property, member) that, set through the API, does not read back as that member from a fresh\n"
             "handle (observed over every member of every enum-valued property of the service sliver) -/\n")
    body += "def svcValuesLost : List (String × String) := %s\n" % lean_list(["(%s, %s)" % (lean_str(a), lean_str(b)) for a, b in vl])
    changed = emit("Constraints", body)
    return {"svc_rows": len(t["svc"]), "node_rows": len(t["node"]), "link_rows": len(t["link"]),
            "guard_pairs": pairs, "ctor_guardrails": ctor_g, "connect_guardrails": conn_g,
            "nodes_view_excludes": hidden, "node_types_not_validated": skipped, "node_seen": seen, "node_via_handle": via_handle,
            "node_unprobed": unprobed, "values_lost": vl, "presence_tests": pt, "value_classes": vc, "changed": changed,
            "spans": {"abc_property_graph": h1}}
