"""Translate fim/view_only_dict.py (the class behind every read-only view) into a Lean table.

Reads, from /repo's current working tree:
  * the class statement by ast: its bases, the methods it defines, whether it forwards unknown attributes (`__getattr__` /
    `__getattribute__`), whether it subclasses a mutable mapping, under which attribute `__init__` keeps the wrapped dictionary;
  * the behaviour of an instance, method by method: for every way a dict can be changed in place (`d[k] = v`, `del d[k]`, `pop`,
    `popitem`, `clear`, `update`, `setdefault`, `|=`; the dunder methods called by name as well, since attribute forwarding treats
    them differently from the statements) the table says whether the view exposes it and what calling it does: the exception kind,
    or "ok" when it is accepted - and then whether the view's own content changed and whether the dictionary handed to the
    constructor changed;
  * which element views hand out tuples / copies (behaviour probe on a small topology).

Recognised shape: `class ViewOnlyDict(<one base>)` whose `__init__(self, d)` is a single assignment of `d` to an attribute of
self.  Anything else is an ExtractionError (the check then searches for a concrete failing input with the oracle).
"""
import ast

from .common import *

SRC = "fim/view_only_dict.py"
# (name on the wire, how it is invoked)
MUTATORS = [
    ("__setitem__", lambda v: v.__setitem__("zz", 1)), ("item-assignment", lambda v: exec("v['zz'] = 1", {}, {"v": v})),
    ("__delitem__", lambda v: v.__delitem__("a")), ("del-item", lambda v: exec("del v['a']", {}, {"v": v})),
    ("pop", lambda v: v.pop("a")), ("popitem", lambda v: v.popitem()), ("clear", lambda v: v.clear()),
    ("update", lambda v: v.update({"zz": 1})), ("setdefault", lambda v: v.setdefault("zz", 1)),
    ("__ior__", lambda v: v.__ior__({"zz": 1})), ("|=", lambda v: exec("v |= {'zz': 1}", {}, {"v": v})),
]
READERS = ["__getitem__", "__iter__", "__len__", "__contains__", "keys", "values", "items", "get", "__eq__"]


def read_class():
    tree, src = parse(SRC)
    cls = find_class(tree, "ViewOnlyDict")
    bases = []
    for b in cls.bases:
        if isinstance(b, ast.Name):
            bases.append(b.id)
        elif isinstance(b, ast.Attribute):
            bases.append(b.attr)
        else:
            raise ExtractionError("ViewOnlyDict: base class is not a plain name")
    if len(bases) != 1:
        raise ExtractionError("ViewOnlyDict: expected exactly one base class, found %r" % (bases,))
    defined = []
    for n in cls.body:
        if isinstance(n, (ast.FunctionDef, ast.AsyncFunctionDef)):
            defined.append(n.name)
        elif isinstance(n, ast.Assign):
            for t in n.targets:
                if isinstance(t, ast.Name):
                    defined.append(t.id)      # `pop = dict.pop`-style aliases count as definitions
        elif isinstance(n, ast.Expr) and isinstance(n.value, ast.Constant):
            continue
        elif isinstance(n, ast.Pass):
            continue
        else:
            raise ExtractionError("ViewOnlyDict: unrecognised statement in the class body (line %d)" % n.lineno)
    init = find_func(cls, "__init__")
    body = strip_doc(init.body)
    args = [a.arg for a in init.args.args]
    ok = len(args) == 2 and len(body) == 1 and isinstance(body[0], ast.Assign) and len(body[0].targets) == 1 and \
        isinstance(body[0].targets[0], ast.Attribute) and isinstance(body[0].targets[0].value, ast.Name) and \
        body[0].targets[0].value.id == args[0] and isinstance(body[0].value, ast.Name) and body[0].value.id == args[1]
    if not ok:
        raise ExtractionError("ViewOnlyDict.__init__ is not `self.<attr> = d`")
    attr = body[0].targets[0].attr
    return bases, defined, attr


def probe():
    import collections.abc as cabc
    import importlib
    import fim.view_only_dict as mod
    importlib.reload(mod)
    V = mod.ViewOnlyDict
    rows = []
    for name, f in MUTATORS:
        d = {"a": 1, "b": 2}
        v = V(d)
        exposed = hasattr(v, name) if name.isidentifier() else False
        try:
            f(v)
            out = "ok"
        except Exception as e:
            out = err_kind(e)
        try:
            view_changed = sorted(v.keys()) != ["a", "b"]
        except Exception:
            view_changed = True
        rows.append((name, exposed, out, view_changed, d != {"a": 1, "b": 2}))
    v = V({"a": 1})
    readers = [(r, hasattr(v, r)) for r in READERS]
    return rows, readers, issubclass(V, cabc.MutableMapping), isinstance(v, dict)


def probe_lists():
    """which sequence type each `interface_list` hands out (a tuple cannot be changed; a list must be a copy)"""
    import fim.user as fu
    from fim.user.topology import ExperimentTopology
    t = ExperimentTopology()
    try:
        n = t.add_node(name="n1", site="RENC")
        c = n.add_component(name="nic1", model_type=fu.ComponentModelType.SmartNIC_ConnectX_6)
        n2 = t.add_node(name="n2", site="RENC")
        c2 = n2.add_component(name="nic2", model_type=fu.ComponentModelType.SmartNIC_ConnectX_6)
        s = t.add_network_service(name="s1", nstype=fu.ServiceType.L2Bridge, interfaces=[c.interface_list[0], c2.interface_list[0]])
        link = list(t.links.values())[0]
        out = []
        for k, o in (("topology", t), ("node", n), ("component", c), ("service", s), ("interface", c.interface_list[0]), ("link", link)):
            l = o.interface_list
            fresh = True
            if isinstance(l, list):
                l.append(None)
                fresh = None not in o.interface_list
            out.append((k, type(l).__name__, fresh))
        return out
    finally:
        try:
            t.graph_model.importer.delete_graph(graph_id=t.graph_model.graph_id)
        except Exception:
            pass


def err_kind(e):
    from core import err_kind as ek
    return ek(e)


def generate():
    bases, defined, attr = read_class()
    rows, readers, mutable, is_dict = probe()
    lists = probe_lists()
    L = lambda xs: lean_list([lean_str(x) for x in xs])
    B = lambda b: "true" if b else "false"
    body = []
    body.append("/-- base class of `ViewOnlyDict` -/\ndef bases : List String := %s\n" % L(bases))
    body.append("/-- what the class body defines -/\ndef defined : List String := %s\n" % L(defined))
    body.append("/-- the attribute under which `__init__` keeps the wrapped dictionary -/\ndef wrappedAttr : String := %s\n" % lean_str(attr))
    body.append("def forwardsAttributes : Bool := %s\n" % B("__getattr__" in defined or "__getattribute__" in defined))
    body.append("def isMutableMapping : Bool := %s\ndef isDict : Bool := %s\n" % (B(mutable), B(is_dict)))
    body.append("/-- every in-place operation of `dict`: (name, the view has such an attribute, what calling it does: exception kind or\n"
                "\"ok\", the view's content changed, the wrapped dictionary changed) -/")
    body.append("def mutators : List (String × Bool × String × Bool × Bool) := [\n  " + ",\n  ".join(
        "(%s, %s, %s, %s, %s)" % (lean_str(n), B(e), lean_str(o), B(vc), B(dc)) for n, e, o, vc, dc in rows) + "]\n")
    body.append("def readers : List (String × Bool) := %s\n" % lean_list("(%s, %s)" % (lean_str(r), B(h)) for r, h in readers))
    body.append("/-- per owner of an `interface_list`: the sequence type handed out, and whether changing it leaves the next read alone -/")
    body.append("def listViews : List (String × String × Bool) := %s\n" % lean_list(
        "(%s, %s, %s)" % (lean_str(k), lean_str(t), B(f)) for k, t, f in lists))
    changed = emit("ViewDict", "\n".join(body))
    return {"file": "Generated/ViewDict.lean", "changed": changed, "bases": bases, "defined": defined,
            "accepted": [n for n, _, o, _, _ in rows if o == "ok"], "lists": lists}
