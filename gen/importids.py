"""Which graph an importer ENTRY POINT files a document under (C04, C20) - observed, not read off the source text.

The Lean store models know imports only as store operations that carry their graph id (`Op.addGraph g ig`, `Op.addGraphDirect g
ig`; C20: the graph index inside the micro-instructions).  The harnesses lower a call of an importer entry point to such an
operation (Model/ImportEntry.lean says how): the graph id is the caller's when the call names one, the one the DOCUMENT names for
the direct entry points, and a NEW one - different from every id handed out or in use so far - when the call names none.  Each of
those three facts is probed here on both in-memory importers by running the real entry points of /repo's working tree:

* idless-fresh      - the entry point is called twice without a graph id (two documents; for files: once through two paths,
                      once through one path rewritten in between): two non-empty ids, different from each other and from the id
                      of a graph already in the store, each graph holding the nodes of its own document, the older graph intact;
                      likewise for documents that NAME a graph on every node (the saved form of a graph that is in the store
                      and has been edited since, loaded twice; a document naming a graph that is not in the store, twice);
* named-target      - called with graph_id: the handle is for that id and the graph of that id holds the document's nodes;
* document-target   - direct entry points: a document naming graph A is loaded, the SAME path (string entry point: the same
                      call site) is then handed a document naming graph B: the second call comes back as B, B holds B's nodes and
                      A still holds A's (nothing remembered about a path or an earlier call decides where a document goes).

A probe that cannot be run (entry point gone, unexpected exception) is an ExtractionError; a probe that runs and sees something
else writes `false`, and `C04.import_targets_are_modelled` / `C20.idless_imports_get_fresh_ids` no longer hold.
"""
import json
import os
import shutil
import tempfile
import warnings

import networkx as nx

from .common import *

FLAVOURS = ("shared", "disjoint")
IDLESS = ("import_graph_from_string", "import_graph_from_file")
NAMED = ("import_graph_from_string", "import_graph_from_file")
DIRECT = ("import_graph_from_string_direct", "import_graph_from_file_direct")


def _importer(flavour):
    try:
        import fim.graph.networkx_property_graph as m1
        import fim.graph.networkx_property_graph_disjoint as m2
    except Exception as e:  # noqa
        raise ExtractionError("cannot import the in-memory importers: %r" % (e,))
    m1.NetworkXGraphStorage.storage_instance = None
    m2.NetworkXGraphStorageDisjoint.storage_instance = None
    return m1.NetworkXGraphImporter() if flavour == "shared" else m2.NetworkXGraphImporterDisjoint()


def _reset():
    import fim.graph.networkx_property_graph as m1
    import fim.graph.networkx_property_graph_disjoint as m2
    m1.NetworkXGraphStorage.storage_instance = None
    m2.NetworkXGraphStorageDisjoint.storage_instance = None


def _doc(prefix, n, fmt, gid=None):
    """(text, NodeIDs) of a chain of n nodes"""
    G = nx.Graph()
    ids = ["%s-%d" % (prefix, i) for i in range(n)]
    for i, x in enumerate(ids):
        a = {"NodeID": x, "Class": "NetworkNode", "Name": x}
        if gid is not None:
            a["GraphID"] = gid
        G.add_node("k%d" % i, **a)
    for i in range(n - 1):
        G.add_edge("k%d" % i, "k%d" % (i + 1), Class="connects")
    if fmt == "graphml":
        return "\n".join(nx.generate_graphml(G)), ids
    with warnings.catch_warnings():
        warnings.simplefilter("ignore")
        return json.dumps(nx.readwrite.node_link_data(G)), ids


def _holds(h, ids):
    return h is not None and h.graph_exists() and sorted(h.list_all_node_ids()) == sorted(ids)


def _call(imp, ep, text, path=None, **kw):
    if "_from_file" in ep:
        with open(path, "w") as f:
            f.write(text)
        return getattr(imp, ep)(graph_file=path, **kw)
    return getattr(imp, ep)(graph_string=text, **kw)


def probe_idless(flavour, ep, d):
    ok = True
    # (two paths, then one path rewritten between the calls; GraphML and JSON)
    for round_, paths in enumerate((("a.graphml", "b.json"), ("w.graph", "w.graph"))):
        imp = _importer(flavour)
        t0, n0 = _doc("old", 2, "graphml")
        h0 = imp.import_graph_from_string(graph_string=t0, graph_id="named")
        t1, n1 = _doc("first%d" % round_, 3, "graphml")
        t2, n2 = _doc("second%d" % round_, 4, "json")
        h1 = _call(imp, ep, t1, os.path.join(d, paths[0]))
        h2 = _call(imp, ep, t2, os.path.join(d, paths[1]))
        i1, i2 = getattr(h1, "graph_id", None), getattr(h2, "graph_id", None)
        ok = ok and isinstance(i1, str) and isinstance(i2, str) and bool(i1) and bool(i2) and len({i1, i2, "named"}) == 3
        ok = ok and _holds(h1, n1) and _holds(h2, n2) and _holds(h0, n0)
    # documents as they are SAVED name a graph on every node: the saved form of a graph that is in the store, loaded twice
    # (two paths / one path), and a document naming a graph that is not - a call without a graph id still gets an id of its own
    for fmt, paths in (("graphml", ("s1.graphml", "s2.graphml")), ("json", ("s.graph", "s.graph"))):
        imp = _importer(flavour)
        t0, n0 = _doc("model", 2, fmt, gid="named")
        h0 = imp.import_graph_from_string_direct(graph_string=t0)
        h0.add_node(node_id="later", label="NetworkNode", props={"Name": "later"})
        t3, n3 = _doc("elsewhere", 3, fmt, gid="not-in-store")
        h1 = _call(imp, ep, t0, os.path.join(d, paths[0]))
        h2 = _call(imp, ep, t0, os.path.join(d, paths[1]))
        h3 = _call(imp, ep, t3, os.path.join(d, paths[1]))
        h4 = _call(imp, ep, t3, os.path.join(d, paths[0]))
        ids = [getattr(h, "graph_id", None) for h in (h1, h2, h3, h4)]
        ok = ok and all(isinstance(i, str) and bool(i) for i in ids) and len(set(ids) | {"named"}) == 5
        ok = ok and getattr(h0, "graph_id", None) == "named" and _holds(h0, n0 + ["later"])
        ok = ok and _holds(h1, n0) and _holds(h2, n0) and _holds(h3, n3) and _holds(h4, n3)
    return ok


def probe_named(flavour, ep, d):
    imp = _importer(flavour)
    t1, n1 = _doc("one", 2, "graphml")
    t2, n2 = _doc("two", 3, "json")
    p = os.path.join(d, "n.graph")
    h1 = _call(imp, ep, t1, p, graph_id="ga")
    h2 = _call(imp, ep, t2, p, graph_id="gb")
    return getattr(h1, "graph_id", None) == "ga" and getattr(h2, "graph_id", None) == "gb" and _holds(h1, n1) and _holds(h2, n2)


def probe_direct(flavour, ep, d):
    ok = True
    for fmt in ("graphml", "json"):
        imp = _importer(flavour)
        t1, n1 = _doc("a", 3, fmt, gid="graph-A")
        t2, n2 = _doc("b", 4, fmt, gid="graph-B")
        t3, n3 = _doc("a2", 2, fmt, gid="graph-A")
        p = os.path.join(d, "work." + fmt)
        h1 = _call(imp, ep, t1, p)
        h2 = _call(imp, ep, t2, p)          # the same path, overwritten with a document of another graph
        ok = ok and getattr(h1, "graph_id", None) == "graph-A" and getattr(h2, "graph_id", None) == "graph-B"
        ok = ok and _holds(h1, n1) and _holds(h2, n2)
        h3 = _call(imp, ep, t3, p)          # ... and with a later version of the first
        ok = ok and getattr(h3, "graph_id", None) == "graph-A" and _holds(h3, n3) and _holds(h2, n2)
    return ok


def extract():
    d = tempfile.mkdtemp(prefix="verif-importids-")
    out = {"idless": [], "named": [], "document": []}
    try:
        for fl in FLAVOURS:
            for kind, eps, fn in (("idless", IDLESS, probe_idless), ("named", NAMED, probe_named), ("document", DIRECT, probe_direct)):
                for ep in eps:
                    try:
                        v = fn(fl, ep, d)
                    except ExtractionError:
                        raise
                    except Exception as e:  # noqa
                        raise ExtractionError("probe %s of %s.%s could not be run: %r" % (kind, fl, ep, e))
                    if not isinstance(v, bool):
                        raise ExtractionError("probe result is not boolean")
                    out[kind].append(("%s.%s" % (fl, ep), v))
    finally:
        shutil.rmtree(d, ignore_errors=True)
        try:
            _reset()
        except Exception:  # noqa
            pass
    return out


def _table(rows):
    return lean_list(["(%s, %s)" % (lean_str(k), "true" if v else "false") for k, v in rows])


def generate():
    t = extract()
    body = ("/-- importer entry points called twice WITHOUT a graph id (two documents, two paths / one path rewritten in between): did\n"
            "    every call get a graph id of its own (non-empty, different from the other's and from an id in use) with exactly its own\n"
            "    document's nodes under it (see gen/importids.py) -/\n")
    body += "def idlessFresh : List (String × Bool) := %s\n\n" % _table(t["idless"])
    body += "/-- ... called WITH a graph id: is the document filed under that id -/\n"
    body += "def namedTarget : List (String × Bool) := %s\n\n" % _table(t["named"])
    body += ("/-- direct entry points, a path loaded, overwritten with a document of another graph and loaded again: is every document\n"
             "    filed under the graph id IT names, the graphs loaded before left alone -/\n")
    body += "def documentTarget : List (String × Bool) := %s\n" % _table(t["document"])
    changed = emit("ImportIds", body)
    return {"tables": {k: dict(v) for k, v in t.items()}, "changed": changed}


if __name__ == "__main__":
    print(generate())
