"""Translate the tables and literals of fim.authz.attribute_collector.ResourceAuthZAttributes into Lean.

Read by AST (anything else is an ExtractionError):
  * class constants  NAME = "urn:..."                               -> inductive Key, Key.id
  * ATTRIBUTE_TYPES_AND_CATEGORIES = {NAME: ("datatype", "category")} -> Key.dataType / Key.category (Option: a
    constant without a row makes transform_to_pdp_request raise KeyError, which a theorem then reports)
  * NSTYPE_LUT = {ServiceType.X: "urn:..."}                          -> nstypeLut : List (String × Key)
  * __init__:  self._attributes[self.RESOURCE_TYPE] = ["sliver"]      -> initType
  * _collect_attributes_from_node_sliver: `if sliver.get_type() == NodeType.T: self._attributes[self.RESOURCE_TYPE] = ["v"]`
  * _collect_attributes_from_ns_sliver: the set literal of `sliver.resource_type in {...}`, the "UNKNOWN-SITE"
    literal, the service type of the in-slice exemption (`sliver.resource_type == ServiceType.PortMirror`)
  * transform_to_pdp_request: the CategoryId literals, in order
The control flow of the collecting functions is mirrored by hand in Model/Authz.lean (checked differentially);
the source-span hashes of those functions are reported so that it is visible what the mirrored text was.
"""
import ast
from .common import *

REL = "fim/authz/attribute_collector.py"
LOGREL = "fim/logging/log_collector.py"
CLS = "ResourceAuthZAttributes"


def _const_str(node):
    return isinstance(node, ast.Constant) and isinstance(node.value, str)


def _self_attr_key(node):
    """self._attributes[self.NAME] -> NAME"""
    if (isinstance(node, ast.Subscript) and isinstance(node.value, ast.Attribute) and node.value.attr == "_attributes"
            and isinstance(node.slice, ast.Attribute) and isinstance(node.slice.value, ast.Name) and node.slice.value.id == "self"):
        return node.slice.attr
    return None


def _enum_member(node, enum):
    if isinstance(node, ast.Attribute) and isinstance(node.value, ast.Name) and node.value.id == enum:
        return node.attr
    return None


def extract():
    tree, src = parse(REL)
    cls = find_class(tree, CLS)
    consts, order = {}, []
    table, lut = None, None
    for st in cls.body:
        if isinstance(st, ast.Assign) and len(st.targets) == 1 and isinstance(st.targets[0], ast.Name):
            name = st.targets[0].id
            if _const_str(st.value):
                if name in consts:
                    raise ExtractionError("constant %s assigned twice" % name)
                consts[name] = st.value.value
                order.append(name)
            elif name == "ATTRIBUTE_TYPES_AND_CATEGORIES":
                table = st.value
            elif name == "NSTYPE_LUT":
                lut = st.value
    # private numeric class constants (__SECONDS_IN_*) are not strings and are skipped above
    if not order or table is None or lut is None:
        raise ExtractionError("constants / ATTRIBUTE_TYPES_AND_CATEGORIES / NSTYPE_LUT not found in %s" % CLS)
    byval = {}
    for n in order:
        byval.setdefault(consts[n], []).append(n)

    if not isinstance(table, ast.Dict):
        raise ExtractionError("ATTRIBUTE_TYPES_AND_CATEGORIES is not a dict literal")
    rows = {}
    for k, v in zip(table.keys, table.values):
        if not (isinstance(k, ast.Name) and k.id in consts):
            raise ExtractionError("table key is not a class constant: %s" % ast.dump(k)[:100])
        if not (isinstance(v, ast.Tuple) and len(v.elts) == 2 and all(_const_str(e) for e in v.elts)):
            raise ExtractionError("table value for %s is not a (datatype, category) pair of literals" % k.id)
        rows[k.id] = (v.elts[0].value, v.elts[1].value)

    if not isinstance(lut, ast.Dict):
        raise ExtractionError("NSTYPE_LUT is not a dict literal")
    lutrows = []
    for k, v in zip(lut.keys, lut.values):
        t = _enum_member(k, "ServiceType")
        if t is None or not _const_str(v):
            raise ExtractionError("NSTYPE_LUT entry not of the form ServiceType.X: 'urn'")
        names = byval.get(v.value)
        if not names:
            # the attribute id used for this service type has no constant, hence no category row
            raise ExtractionError("NSTYPE_LUT value %r is not one of the attribute constants" % v.value)
        lutrows.append((t, names[0]))

    # __init__
    init = find_func(cls, "__init__")
    init_type = None
    for st in ast.walk(init):
        if isinstance(st, ast.Assign) and len(st.targets) == 1 and _self_attr_key(st.targets[0]) == "RESOURCE_TYPE":
            if isinstance(st.value, ast.List) and len(st.value.elts) == 1 and _const_str(st.value.elts[0]):
                init_type = st.value.elts[0].value
    if init_type is None:
        raise ExtractionError("__init__ does not set RESOURCE_TYPE to a one-element literal list")

    # node sliver: switch override
    fn = find_func(cls, "_collect_attributes_from_node_sliver")
    sw = None
    for st in strip_doc(fn.body):
        if (isinstance(st, ast.If) and isinstance(st.test, ast.Compare) and len(st.test.ops) == 1
                and isinstance(st.test.ops[0], ast.Eq) and _enum_member(st.test.comparators[0], "NodeType")
                and len(st.body) == 1 and isinstance(st.body[0], ast.Assign)
                and _self_attr_key(st.body[0].targets[0]) == "RESOURCE_TYPE" and not st.orelse):
            v = st.body[0].value
            if isinstance(v, ast.List) and len(v.elts) == 1 and _const_str(v.elts[0]):
                sw = (_enum_member(st.test.comparators[0], "NodeType"), v.elts[0].value)
    if sw is None:
        raise ExtractionError("node-type override of RESOURCE_TYPE not recognised")
    node_hash = span_hash(src, fn)

    # ns sliver
    fn = find_func(cls, "_collect_attributes_from_ns_sliver")
    listed, unknown, exempt = None, None, None
    for st in ast.walk(fn):
        if isinstance(st, ast.Compare) and len(st.ops) == 1:
            if isinstance(st.ops[0], ast.In) and isinstance(st.comparators[0], ast.Set):
                ms = [_enum_member(e, "ServiceType") for e in st.comparators[0].elts]
                if all(ms):
                    if listed is not None:
                        raise ExtractionError("more than one service-type set in _collect_attributes_from_ns_sliver")
                    listed = ms
            if isinstance(st.ops[0], ast.Eq) and _enum_member(st.comparators[0], "ServiceType"):
                if exempt is not None:
                    raise ExtractionError("more than one service-type equality in _collect_attributes_from_ns_sliver")
                exempt = _enum_member(st.comparators[0], "ServiceType")
        if (isinstance(st, ast.Assign) and len(st.targets) == 1 and isinstance(st.targets[0], ast.Attribute)
                and st.targets[0].attr == "site" and _const_str(st.value)):
            unknown = st.value.value
    if listed is None or unknown is None or exempt is None:
        raise ExtractionError("service-type set / unknown-site literal / exemption type not recognised")
    if sorted(listed) != sorted(t for t, _ in lutrows):
        # a listed type without a LUT row raises KeyError in the collector
        raise ExtractionError("service types listed by site %s differ from NSTYPE_LUT keys %s" % (listed, [t for t, _ in lutrows]))
    ns_hash = span_hash(src, fn)
    topo_hash = span_hash(src, find_func(cls, "_collect_attributes_from_topo"))

    # transform_to_pdp_request: CategoryId literals in order
    fn = find_func(cls, "transform_to_pdp_request")
    cats = []
    for st in ast.walk(fn):
        if isinstance(st, ast.Dict):
            for k, v in zip(st.keys, st.values):
                if _const_str(k) and k.value == "CategoryId" and _const_str(v):
                    cats.append((v.lineno, v.col_offset, v.value))
    cats = [c for _, _, c in sorted(cats)]
    if len(cats) < 1:
        raise ExtractionError("no CategoryId literals in transform_to_pdp_request")
    pdp_hash = span_hash(src, fn)

    ltree, lsrc = parse(LOGREL)
    lcls = find_class(ltree, "LogCollector")
    log_hash = {n: span_hash(lsrc, find_func(lcls, n)) for n in (
        "_collect_attributes_from_node_sliver", "_collect_attributes_from_ns_sliver",
        "_collect_attributes_from_component_sliver", "_collect_attributes_from_topo")}

    return dict(order=order, consts=consts, rows=rows, lut=lutrows, init_type=init_type, switch=sw, listed=listed,
                unknown=unknown, exempt=exempt, cats=cats,
                hashes=dict(node_sliver=node_hash, ns_sliver=ns_hash, topo=topo_hash, pdp=pdp_hash, log=log_hash))


def generate():
    x = extract()
    order = x["order"]
    b = []
    b.append("/-- attribute-id constants of %s, in source order -/" % CLS)
    b.append("inductive Key where\n" + "".join("  | %s\n" % n for n in order) + "  deriving DecidableEq, Repr\n")
    b.append("def Key.all : List Key := " + lean_list(["." + n for n in order]) + "\n")
    b.append("def Key.id : Key → String\n" + "".join("  | .%s => %s\n" % (n, lean_str(x["consts"][n])) for n in order))
    for fld, idx in (("dataType", 0), ("category", 1)):
        b.append("/-- ATTRIBUTE_TYPES_AND_CATEGORIES[k][%d]; `none` = no row (KeyError in transform_to_pdp_request) -/" % idx)
        b.append("def Key.%s : Key → Option String\n" % fld + "".join(
            "  | .%s => %s\n" % (n, ("some " + lean_str(x["rows"][n][idx])) if n in x["rows"] else "none") for n in order))
    b.append("/-- NSTYPE_LUT: str(ServiceType) -> attribute listing the sites using that service type -/")
    b.append("def nstypeLut : List (String × Key) := " + lean_list("(%s, .%s)" % (lean_str(t), k) for t, k in x["lut"]) + "\n")
    b.append("/-- service type of the in-slice exemption -/\ndef mirrorType : String := %s\n" % lean_str(x["exempt"]))
    b.append("def unknownSite : String := %s\n" % lean_str(x["unknown"]))
    b.append("def initType : String := %s\n" % lean_str(x["init_type"]))
    b.append("def switchNodeType : String := %s\n" % lean_str(x["switch"][0]))
    b.append("def switchType : String := %s\n" % lean_str(x["switch"][1]))
    b.append("/-- CategoryId literals of transform_to_pdp_request, in order -/")
    b.append("def categories : List String := " + lean_list(lean_str(c) for c in x["cats"]) + "\n")
    changed = emit("Authz", "\n".join(b))
    return {"keys": len(order), "rows": len(x["rows"]), "lut": x["lut"], "categories": len(x["cats"]),
            "span_hashes": x["hashes"], "changed": changed}
