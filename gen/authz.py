"""Translate the tables and literals of fim.authz.attribute_collector.ResourceAuthZAttributes into Lean.

The extractor does not match source text.  It imports the class from the tree under check and reads

  * the attribute-id constants: the string-valued public class attributes, in definition order, that name a row of
    ATTRIBUTE_TYPES_AND_CATEGORIES or an attribute some probe below sees in `_attributes`   -> inductive Key, Key.id
    (other string constants - a hoisted "UNKNOWN-SITE", say - are no attribute ids and are only reported);
  * ATTRIBUTE_TYPES_AND_CATEGORIES as the dictionary it evaluates to                          -> Key.dataType / Key.category
    (Option: an emitted attribute without a row makes transform_to_pdp_request raise KeyError, which a theorem reports);

and *probes the behaviour* of the collecting fold on stand-in containers of real slivers (one fresh collector per probe):

  * a fresh collector holds exactly {RESOURCE_TYPE: [v]}                                      -> initType
  * one node of every NodeType: which types override RESOURCE_TYPE, with what, and that the override survives nodes
    collected after it                                                                       -> switchNodeType, switchType
  * one service of every ServiceType with a site: under which attribute (besides RESOURCE_SITE) the site is listed
                                                                                              -> nstypeLut
  * the same without a site                                                                   -> unknownSite
  * the same with its mirrored port among the slice's ports: which type is exempt             -> mirrorType
  * mirrored port x against in-slice port y over a family of related names (equal, prefix, extension, case, empty,
    None): the exemption must be exact equality, which is what `s.mport ∈ inPorts` in Model/Authz.lean says
  * transform_to_pdp_request on a fresh collector: the CategoryId values, in order            -> categories

A probe that raises, or an answer outside the shape the model has a parameter for (two overriding node types, an
exemption by prefix, ...) is an ExtractionError.  The control flow of the fold itself is mirrored by hand in
Model/Authz.lean (checked differentially); the source-span hashes of the mirrored functions are reported so that it is
visible what the mirrored text was.  Behaviour-preserving rewrites (helper extraction, `in self.NSTYPE_LUT`, categories
hoisted into a module constant, cached get_peers(), getattr dispatch) leave the output unchanged.
"""
import ast
import importlib
import os

from .common import *

REL = "fim/authz/attribute_collector.py"
LOGREL = "fim/logging/log_collector.py"
CLS = "ResourceAuthZAttributes"
MODULE = "fim.authz.attribute_collector"

PROBE_SITE = "PROBE-SITE"
PROBE_PORT = "PROBE-PORT"
# mirrored port / in-slice port pairs: related as strings, so that an in-slice test by prefix, suffix, substring,
# case-folding or truthiness answers differently from exact membership on at least one pair
PORT_PROBES = [None, "", "p1", "p10", "p", "P1", "p1.100", "1p", "HundredGigE0/0/0/1", "HundredGigE0/0/0/10"]


def _load():
    try:
        m = importlib.import_module(MODULE)
    except Exception as e:
        raise ExtractionError("%s cannot be imported: %s: %s" % (MODULE, type(e).__name__, e))
    here = os.path.realpath(getattr(m, "__file__", "") or "")
    want = os.path.realpath(os.path.join(REPO, REL))
    if here != want:
        raise ExtractionError("%s was imported from %s, not from the tree under check (%s)" % (MODULE, here, want))
    cls = getattr(m, CLS, None)
    if cls is None:
        raise ExtractionError("class %s not found" % CLS)
    return m, cls


# ---- stand-in containers: the views _collect_attributes_from_topo reads, over real slivers

class _El:
    def __init__(self, sliver, name):
        self._s, self.name = sliver, name

    def get_sliver(self):
        return self._s


class _Peer:
    def __init__(self, labels):
        self.labels = labels


class _If:
    def __init__(self, local_name):
        self._ln = local_name

    def get_peers(self):
        from fim.slivers.capacities_labels import Labels
        return [_Peer(Labels(local_name=self._ln) if self._ln is not None else Labels())]


class _Topo:
    def __init__(self, nodes=(), svcs=(), inports=None):
        self.nodes = {"n%d" % i: _El(s, "n%d" % i) for i, s in enumerate(nodes)}
        self.network_services = {"s%d" % i: _El(s, "s%d" % i) for i, s in enumerate(svcs)}
        self.facilities = {}
        self.interface_list = tuple(_If(p) for p in (inports if inports is not None else ()))


_NONE = object()


def _node(ntype):
    from fim.slivers.network_node import NodeSliver
    s = NodeSliver()
    s.set_name("probe-node")
    s.set_type(ntype)
    return s


def _svc(stype, site=PROBE_SITE, mport=PROBE_PORT):
    from fim.slivers.network_service import NetworkServiceSliver
    s = NetworkServiceSliver()
    s.set_name("probe-svc")
    s.set_type(stype)
    if site is not None:
        s.set_site(site)
    if mport is not _NONE:
        s.set_mirror_port(mport)
    return s


def _run(cls, what, **kw):
    """attributes (a plain dict of lists) of a fresh collector after the fold over a stand-in slice"""
    try:
        az = cls()
        az._collect_attributes_from_topo(_Topo(**kw))
        return {k: list(v) for k, v in az._attributes.items()}
    except ExtractionError:
        raise
    except Exception as e:
        raise ExtractionError("probe '%s' raised %s: %s" % (what, type(e).__name__, e))


def _one_str(v, what):
    if not (isinstance(v, list) and len(v) == 1 and isinstance(v[0], str)):
        raise ExtractionError("%s is not a one-element list of a string: %r" % (what, v))
    return v[0]


def _hashes():
    """source-span hashes of the hand-mirrored functions (reported only; a function that is gone reads 'absent')"""
    def h(rel, cname, names):
        out = {}
        try:
            tree, src = parse(rel)
            c = find_class(tree, cname)
        except ExtractionError:
            return {n: "absent" for n in names}
        for n in names:
            try:
                out[n] = span_hash(src, find_func(c, n))
            except ExtractionError:
                out[n] = "absent"
        return out
    a = h(REL, CLS, ["_collect_attributes_from_node_sliver", "_collect_attributes_from_ns_sliver", "_collect_attributes_from_topo",
                     "transform_to_pdp_request"])
    log = h(LOGREL, "LogCollector", ["_collect_attributes_from_node_sliver", "_collect_attributes_from_ns_sliver",
                                     "_collect_attributes_from_component_sliver", "_collect_attributes_from_topo"])
    return dict(node_sliver=a["_collect_attributes_from_node_sliver"], ns_sliver=a["_collect_attributes_from_ns_sliver"],
                topo=a["_collect_attributes_from_topo"], pdp=a["transform_to_pdp_request"], log=log)


def extract():
    parse(REL)      # a file that does not parse is an extraction error with a readable message
    m, cls = _load()
    from fim.slivers.network_node import NodeType
    from fim.slivers.network_service import ServiceType

    # string-valued public class attributes, in definition order
    strconsts = [(k, v) for k, v in vars(cls).items() if not k.startswith("_") and isinstance(v, str)]
    if not strconsts:
        raise ExtractionError("no string constants in %s" % CLS)
    byval = {}
    for k, v in strconsts:
        byval.setdefault(v, []).append(k)

    table = getattr(cls, "ATTRIBUTE_TYPES_AND_CATEGORIES", None)
    if not isinstance(table, dict) or not table:
        raise ExtractionError("ATTRIBUTE_TYPES_AND_CATEGORIES is not a non-empty dictionary")
    rows_by_id = {}
    for k, v in table.items():
        if not isinstance(k, str):
            raise ExtractionError("table key is not a string: %r" % (k,))
        if not (isinstance(v, (tuple, list)) and len(v) == 2 and all(isinstance(e, str) for e in v)):
            raise ExtractionError("table value for %s is not a (datatype, category) pair of strings" % k)
        if k not in byval:
            raise ExtractionError("table key %r is not the value of a class constant" % k)
        rows_by_id[k] = (v[0], v[1])

    observed = set()

    # fresh collector
    fresh = _run(cls, "fresh collector")
    observed |= set(fresh)
    if len(fresh) != 1:
        raise ExtractionError("a fresh collector does not hold exactly one attribute: %r" % (fresh,))
    type_id, v = next(iter(fresh.items()))
    init_type = _one_str(v, "the initial resource type")

    # node types: who overrides the resource type, and the override is kept whatever is collected afterwards
    over = {}
    for t in NodeType:
        a = _run(cls, "one %s node" % t.name, nodes=[_node(t)])
        observed |= set(a)
        if set(a) != {type_id}:
            raise ExtractionError("a bare %s node adds attributes %s" % (t.name, sorted(set(a) - {type_id})))
        val = _one_str(a[type_id], "resource type after a %s node" % t.name)
        if val != init_type:
            over[t.name] = val
    if len(over) != 1:
        raise ExtractionError("node types overriding the resource type: %r (the model has exactly one)" % (over,))
    sw = next(iter(over.items()))
    for t in NodeType:
        for order in ([NodeType[sw[0]], t], [t, NodeType[sw[0]]]):
            a = _run(cls, "nodes %s" % [x.name for x in order], nodes=[_node(x) for x in order])
            if a.get(type_id) != [sw[1]]:
                raise ExtractionError("resource type of a slice with a %s node depends on the other nodes / their order: "
                                      "%s gives %r" % (sw[0], [x.name for x in order], a.get(type_id)))

    # service types: the attribute (besides the common site attribute) that lists the site
    lut = []
    per_type = {}
    for t in ServiceType:
        a = _run(cls, "one %s service at a site" % t.name, svcs=[_svc(t)])
        observed |= set(a)
        extra = {k: v for k, v in a.items() if k != type_id}
        with_site = sorted(k for k, v in extra.items() if v == [PROBE_SITE])
        if sorted(extra) != with_site:
            raise ExtractionError("a bare %s service with a site adds %r" % (t.name, extra))
        per_type[t.name] = with_site
    common = set.intersection(*[set(v) for v in per_type.values()])
    if len(common) != 1:
        raise ExtractionError("attributes listing the site of every service: %r (expected exactly one)" % sorted(common))
    site_id = next(iter(common))
    for t in ServiceType:
        own = [k for k in per_type[t.name] if k != site_id]
        if len(own) > 1:
            raise ExtractionError("a %s service lists its site under several attributes: %r" % (t.name, own))
        if own:
            names = byval.get(own[0])
            if not names:
                # the attribute id used for this service type has no constant, hence no category row
                raise ExtractionError("site attribute %r of %s services is not one of the attribute constants" % (own[0], t.name))
            lut.append((t.name, names[0], own[0]))
    if not lut:
        raise ExtractionError("no service type lists its site under an attribute of its own")

    # unknown-site literal
    unknown = set()
    for tname, _, kid in lut:
        a = _run(cls, "one %s service without site" % tname, svcs=[_svc(ServiceType[tname], site=None)])
        extra = {k: v for k, v in a.items() if k != type_id}
        if set(extra) != {kid}:
            raise ExtractionError("a %s service without site gives %r" % (tname, extra))
        unknown.add(_one_str(extra[kid], "placeholder site of a %s service" % tname))
    if len(unknown) != 1:
        raise ExtractionError("placeholder sites differ between service types: %r" % sorted(unknown))
    unknown = unknown.pop()

    # exemption: which listed type does not list its site when its mirrored port is a port of the slice
    exempt = []
    for tname, _, kid in lut:
        a = _run(cls, "one %s service mirroring an in-slice port" % tname, svcs=[_svc(ServiceType[tname])], inports=[PROBE_PORT])
        if kid not in a:
            if a.get(site_id) != [PROBE_SITE]:
                raise ExtractionError("an exempt %s service does not list its site under the common attribute" % tname)
            exempt.append(tname)
        elif a[kid] != [PROBE_SITE]:
            raise ExtractionError("a %s service mirroring an in-slice port gives %r" % (tname, a[kid]))
    if len(exempt) != 1:
        raise ExtractionError("service types with the in-slice exemption: %r (the model has exactly one)" % (exempt,))
    ex_t = ServiceType[exempt[0]]
    ex_id = [kid for tname, _, kid in lut if tname == exempt[0]][0]
    # ... and "is a port of the slice" is exact equality of the names
    for y in PORT_PROBES:
        for x in PORT_PROBES:
            a = _run(cls, "mirror of %r with in-slice port %r" % (x, y), svcs=[_svc(ex_t, mport=x)], inports=[y])
            is_exempt = ex_id not in a
            if is_exempt != (x == y):
                raise ExtractionError("the in-slice test of the %s exemption is not exact membership: a mirror of port %r "
                                      "with in-slice port %r is %s" % (exempt[0], x, y, "exempt" if is_exempt else "listed"))
    # several in-slice ports, the mirrored one not the first
    a = _run(cls, "mirror with several in-slice ports", svcs=[_svc(ex_t, mport="p1")], inports=["p10", "p", "p1"])
    if ex_id in a:
        raise ExtractionError("a mirrored port that is the last of several in-slice ports is not exempt")

    # categories of the request, in order
    try:
        req = cls().transform_to_pdp_request(as_json=False)
        cats = [c["CategoryId"] for c in req["Request"]["Category"]]
    except Exception as e:
        raise ExtractionError("transform_to_pdp_request on a fresh collector: %s: %s" % (type(e).__name__, e))
    if len(cats) < 1 or not all(isinstance(c, str) for c in cats):
        raise ExtractionError("no CategoryId values in the PDP request")

    # other emitted attributes: the setters (outside the slice, but every one of them goes through the same table)
    try:
        from datetime import datetime, timedelta, timezone
        az = cls()
        az.set_lifetime(datetime.now(timezone.utc) + timedelta(days=2))
        az.set_subject_attributes(subject_id="u", project=["p"], project_tag=["t"])
        az.set_action("create")
        az.set_resource_subject_and_project(subject_id="u", project="p")
        observed |= set(az._attributes)
    except Exception:
        pass        # setter signatures are not this extractor's subject; the oracle's full request exercises them
    # capacities, components, bandwidth, facilities
    try:
        from fim.slivers.capacities_labels import Capacities
        from fim.slivers.attached_components import AttachedComponentsInfo, ComponentSliver, ComponentType
        n = _node(NodeType.VM)
        n.set_capacities(Capacities(core=1, ram=2, disk=3))
        n.set_site(PROBE_SITE)
        aci = AttachedComponentsInfo()
        c = ComponentSliver()
        c.set_name("probe-c")
        c.set_type(next(iter(ComponentType)))
        aci.add_device(c)
        n.attached_components_info = aci
        s = _svc(next(iter(ServiceType)))
        s.set_capacities(Capacities(bw=1))
        tp = _Topo(nodes=[n], svcs=[s])
        tp.facilities = {"F": _El(None, "F")}
        az = cls()
        az._collect_attributes_from_topo(tp)
        observed |= set(az._attributes)
    except Exception as e:
        raise ExtractionError("probe 'full node, service and facility' raised %s: %s" % (type(e).__name__, e))

    for k in observed:
        if k not in byval:
            raise ExtractionError("emitted attribute id %r is not the value of a class constant" % (k,))
    order = [k for k, v in strconsts if v in rows_by_id or v in observed]
    ignored = [k for k, v in strconsts if k not in order]
    consts = {k: v for k, v in strconsts if k in order}
    rows = {}
    for k in order:
        if consts[k] in rows_by_id:
            rows[k] = rows_by_id[consts[k]]
    type_names = byval[type_id]

    return dict(order=order, consts=consts, rows=rows, lut=[(t, k) for t, k, _ in lut], init_type=init_type, switch=sw,
                listed=[t for t, _, _ in lut], unknown=unknown, exempt=exempt[0], cats=cats, type_key=type_names[0],
                site_key=byval[site_id][0], ignored_constants=ignored, hashes=_hashes())


def _value_objects():
    """Are the value objects a slice hands out private to the read?  Two VMs with textually identical capacities on a real
    topology; the object read from one of them (attribute, get_property, get_sliver) is changed in place and NOT written
    back: every later read of either node - and the collector - must still give the stored size."""
    try:
        from fim.user.topology import ExperimentTopology
        from fim.slivers.capacities_labels import Capacities
        m, cls = _load()
        t = ExperimentTopology()
        try:
            size = (32, 128, 500)
            els = [t.add_node(name="probe-%s" % k, site=PROBE_SITE, capacities=Capacities(core=size[0], ram=size[1], disk=size[2]))
                   for k in ("a", "b")]
            reads = (lambda n: n.capacities, lambda n: n.get_property("capacities"), lambda n: n.get_sliver().capacities)
            fresh = True
            for i, rd in enumerate(reads):
                c = rd(els[0])
                c.core, c.ram, c.disk = 1 + i, 2 + i, 3 + i
                for n in els:
                    for rd2 in reads:
                        c2 = rd2(n)
                        if (c2.core, c2.ram, c2.disk) != size:
                            fresh = False
                az = cls()
                az.collect_resource_attributes(source=t)
                if sorted(sum((list(v) for k, v in az._attributes.items() if v and all(isinstance(x, int) for x in v)), [])) \
                        != sorted(size * 2):
                    fresh = False
            return fresh
        finally:
            try:
                t.graph_model.delete_graph()
            except Exception:
                pass
    except ExtractionError:
        raise
    except Exception as e:
        raise ExtractionError("probe 'value objects of two equally sized nodes' raised %s: %s" % (type(e).__name__, e))


def _views_live(mirror_id):
    """Do the views of a topology show the slice as it is NOW?  A real topology is read through every view the collectors
    use (interface_list, nodes, network_services, facilities) and collected; then it GROWS on the nodes it has - a NIC on an
    existing node, a bridge on its port whose service port is labelled, a mirror of that port - and shrinks again; after every
    step each view and the collector must show the ports / services the slice has at that moment (`mirror_id` absent while the
    mirrored port is in the slice, present once its bridge is gone)."""
    try:
        from fim.user.topology import ExperimentTopology
        from fim.slivers.capacities_labels import Capacities, Labels
        from fim.slivers.component_catalog import ComponentModelType
        from fim.slivers.network_service import ServiceType
        m, cls = _load()
        t = ExperimentTopology()
        try:
            live = True
            n1 = t.add_node(name="probe-a", site=PROBE_SITE, capacities=Capacities(core=1, ram=2, disk=3))
            n2 = t.add_node(name="probe-b", site=PROBE_SITE, capacities=Capacities(core=1, ram=2, disk=3))
            c2 = n2.add_component(name="probe-c2", model_type=ComponentModelType.SmartNIC_ConnectX_6)

            def views():
                az = cls()
                az.collect_resource_attributes(source=t)
                inports = set()
                for i in t.interface_list:
                    for p in i.get_peers() or []:
                        if p.labels is not None and p.labels.local_name is not None:
                            inports.add(p.labels.local_name)
                return (sorted(i.name for i in t.interface_list), sorted(t.nodes.keys()), sorted(t.network_services.keys()),
                        sorted(t.facilities.keys()), sorted(inports), bool(az._attributes.get(mirror_id)))
            v0 = views()
            c1 = n1.add_component(name="probe-c1", model_type=ComponentModelType.SmartNIC_ConnectX_6)
            new_ports = sorted(i.name for i in c1.interface_list)
            v1 = views()
            if v1[0] != sorted(v0[0] + new_ports) or v1[1] != v0[1] or not new_ports:
                live = False
            t.add_network_service(name="probe-br", nstype=ServiceType.L2Bridge, interfaces=[c1.interface_list[0]])
            c1.interface_list[0].get_peers()[0].set_properties(labels=Labels(local_name=PROBE_PORT))
            v2 = views()
            if "probe-br" not in v2[2] or v2[4] != [PROBE_PORT] or v2[5]:
                live = False
            t.add_port_mirror_service(name="probe-pm", from_interface_name=PROBE_PORT, to_interface=c2.interface_list[1])
            v3 = views()
            if "probe-pm" not in v3[2] or v3[4] != [PROBE_PORT] or v3[5]:
                live = False            # the mirrored port is a port of the slice: no mirror site
            t.remove_network_service(name="probe-br")
            v4 = views()
            if "probe-br" in v4[2] or v4[4] != [] or not v4[5]:
                live = False            # ... and is outside it once its bridge is gone
            t.add_facility(name="probe-f", site=PROBE_SITE, capacities=Capacities(bw=10))
            v5 = views()
            if v5[3] != ["probe-f"] or "probe-f-ns" not in v5[2] or v5[0] != v4[0]:
                live = False
            return live
        finally:
            try:
                t.graph_model.delete_graph()
            except Exception:
                pass
    except ExtractionError:
        raise
    except Exception as e:
        raise ExtractionError("probe 'a slice growing on the nodes it has' raised %s: %s" % (type(e).__name__, e))


def generate():
    x = extract()
    x["reads_fresh"] = _value_objects()
    x["views_live"] = _views_live(x["consts"][dict(x["lut"])[x["exempt"]]])
    order = x["order"]
    b = []
    b.append("/-- attribute-id constants of %s, in source order -/" % CLS)
    b.append("inductive Key where\n" + "".join("  | %s\n" % n for n in order) + "  deriving DecidableEq, Repr\n")
    b.append("def Key.all : List Key := " + lean_list(["." + n for n in order]) + "\n")
    b.append("def Key.id : Key → String\n" + "".join("  | .%s => %s\n" % (n, lean_str(x["consts"][n])) for n in order))
    for fld, idx in (("dataType", 0), ("category", 1)):
        b.append("/-- ATTRIBUTE_TYPES_AND_CATEGORIES[k][%d]; `none` = no row (KeyError in transform_to_pdp_request) -/" % idx)
        b.append("def Key.%s : Key → Option String\n" % fld + "".join(
            "  | .%s => %s\n" % (n, ("some " + lean_str(x["rows"][n][idx])) if n in x["rows"] else "none") for n in order))
    b.append("/-- NSTYPE_LUT: str(ServiceType) -> attribute listing the sites using that service type -/")
    b.append("def nstypeLut : List (String × Key) := " + lean_list("(%s, .%s)" % (lean_str(t), k) for t, k in x["lut"]) + "\n")
    b.append("/-- service type of the in-slice exemption -/\ndef mirrorType : String := %s\n" % lean_str(x["exempt"]))
    b.append("def unknownSite : String := %s\n" % lean_str(x["unknown"]))
    b.append("def initType : String := %s\n" % lean_str(x["init_type"]))
    b.append("def switchNodeType : String := %s\n" % lean_str(x["switch"][0]))
    b.append("def switchType : String := %s\n" % lean_str(x["switch"][1]))
    b.append("/-- CategoryId literals of transform_to_pdp_request, in order -/")
    b.append("def categories : List String := " + lean_list(lean_str(c) for c in x["cats"]) + "\n")
    b.append("/-- behavioural probe on a real topology: an object read from an element (attribute, get_property, get_sliver) is "
             "private to that read - changing it in place changes no later read of any element -/")
    b.append("def readsFresh : Bool := %s\n" % ("true" if x["reads_fresh"] else "false"))
    b.append("/-- behavioural probe on a real topology: the views the collectors read (interface_list, nodes, network_services, "
             "facilities) show the slice as it is at the time of the read, also after it grew / shrank on the nodes it has -/")
    b.append("def viewsLive : Bool := %s\n" % ("true" if x["views_live"] else "false"))
    if x["type_key"] != "RESOURCE_TYPE" or x["site_key"] != "RESOURCE_SITE":
        # Model/Authz.lean names these two constructors
        raise ExtractionError("the resource-type / common site attributes are %s / %s, the model names RESOURCE_TYPE / RESOURCE_SITE"
                              % (x["type_key"], x["site_key"]))
    changed = emit("Authz", "\n".join(b))
    return {"keys": len(order), "rows": len(x["rows"]), "lut": x["lut"], "categories": len(x["cats"]),
            "ignored_constants": x["ignored_constants"], "span_hashes": x["hashes"], "changed": changed,
            "probes": {"port_pairs": len(PORT_PROBES) ** 2, "reads_fresh": x["reads_fresh"], "views_live": x["views_live"]}}
