"""Write order of the topology-building calls, read off the AST (C09).

For every building function of fim/user/{topology,node,component,interface,link,network_service,model_element}.py and the
sliver-level add_*/remove_* functions of fim/graph/abc_property_graph.py, the statements are abstracted to a small tree:

  v            a step that can raise and does not change the model (assert, raise, validation, look-up, sliver building)
  w <callee>   a call that changes the model (graph mutators, user-layer building calls, `etype=NEW` constructors,
               `self.<property with a writing setter> = ...`)
  c            update of a handle's interface cache (`self._interfaces = ...` / `.append`): cannot fail
  r            append to a local bookkeeping list (what a rollback handler iterates)
  ret          return
  ite a b      if / else
  loop b       for / while
  guarded b h  try: b  except Exception: h  where h calls a remover and ends with a bare `raise`
  tryelse b h  any other try

`Generated/TopoOrder.lean` holds one entry per function.  Every function is either *single-write* (on no path does a step
that can fail follow a write: `OrderTok.singleWrite`, Model/TopoC09.lean, proved sound in Proofs/Lemmas/TopoAtomicOrder.lean)
or has exactly the shape pinned in Proofs/C09.lean (`pinnedOrder`) next to the theorem its atomicity rests on (rollback
handlers, multi-pass removals); the Lean driver evaluates that on the table of every run (`orderOk`).
A validation moved behind the creation step, a second write added after the first, an `except` narrowed or a handler that
no longer re-raises changes the entry of a function that is not single-write: the extractor then refuses (ExtractionError
naming the function and its new shape), the table of the unchanged tree stays in place (core's fallback to gen/baseline) and
correspondence, oracle and the larger search decide - a concrete failing input, or a NOTE.

An unknown statement kind is an ExtractionError.  Harmless rewrites (renaming, more validations *before* the write, comments,
pure bookkeeping) leave the abstraction of a single-write function unchanged or still single-write.
"""
import ast

from .common import *

FUNCS = [
    ("fim/user/topology.py", "Topology", ["add_node", "_disconnect_interfaces", "remove_node", "add_facility", "remove_facility",
                                           "add_switch", "remove_switch", "add_link", "remove_link", "add_network_service",
                                           "remove_network_service"]),
    ("fim/user/topology.py", "ExperimentTopology", ["add_port_mirror_service", "_prune_node", "_prune_ns", "_prune_components",
                                                     "_prune_interface"]),
    ("fim/user/node.py", "Node", ["__init__", "set_property", "set_properties", "add_component", "add_storage", "add_network_service",
                                   "remove_component", "remove_network_service", "remove_storage"]),
    ("fim/user/component.py", "Component", ["__init__", "set_property", "set_properties"]),
    ("fim/user/interface.py", "Interface", ["__init__", "add_child_interface", "remove_child_interface", "set_property", "set_properties"]),
    ("fim/user/link.py", "Link", ["__init__", "set_property", "set_properties"]),
    ("fim/user/network_service.py", "NetworkService", ["__init__", "connect_interface", "disconnect_interface", "add_interface",
                                                        "remove_interface", "peer", "unpeer", "set_property", "set_properties"]),
    ("fim/user/network_service.py", "PortMirrorService", ["__init__"]),
    ("fim/user/model_element.py", "ModelElement", ["rename", "unset_property", "update_labels", "update_capacities"]),
    ("fim/graph/abc_property_graph.py", "ABCPropertyGraph", ["add_network_node_sliver", "add_network_link_sliver", "add_component_sliver",
                                                             "add_network_service_sliver", "add_interface_sliver",
                                                             "remove_network_node_with_components_nss_cps_and_links",
                                                             "remove_component_with_nss_cps_and_links", "remove_network_link",
                                                             "remove_ns_with_cps_and_links", "remove_cp_and_links"]),
]

# graph-layer calls that change the stored graph
GRAPH_WRITES = {
    "add_network_node_sliver", "add_component_sliver", "add_network_service_sliver", "add_interface_sliver", "add_network_link_sliver",
    "remove_network_node_with_components_nss_cps_and_links", "remove_component_with_nss_cps_and_links", "remove_network_link",
    "remove_ns_with_cps_and_links", "remove_cp_and_links", "delete_node", "update_node_property", "update_node_properties",
    "unset_node_property", "add_node", "add_link",
}
# user-layer building calls
USER_WRITES = {
    "add_component", "add_storage", "add_network_service", "add_interface", "add_child_interface", "connect_interface",
    "disconnect_interface", "remove_node", "remove_component", "remove_network_service", "remove_interface", "remove_child_interface",
    "remove_link", "remove_facility", "remove_switch", "_disconnect_interfaces", "peer", "unpeer", "rename", "update_labels",
    "update_capacities", "add_facility", "add_switch", "add_port_mirror_service", "_prune_node", "_prune_ns", "_prune_components",
    "_prune_interface", "prune",
}
# written through the element itself; the same names exist on sliver objects, where they only build a value
ELEMENT_WRITES = {"set_property", "set_properties", "unset_property"}
NEW_CTORS = {"Node", "Component", "NetworkService", "Interface", "Link", "PortMirrorService"}
REMOVERS = {"remove_network_node_with_components_nss_cps_and_links", "remove_component_with_nss_cps_and_links",
            "remove_ns_with_cps_and_links", "remove_cp_and_links", "disconnect_interface"}
WRITING_ATTRS = {"name", "site", "capacities", "labels", "details", "image_ref", "image_type", "boot_script", "peer_labels"}
# calls that neither raise nor touch the model
PURE = {"list", "tuple", "set", "dict", "str", "len", "filter", "isinstance", "range", "append", "add", "copy", "uuid4", "join", "keys",
        "values", "items", "union", "extend", "super"}


def _callee(c):
    f = c.func
    if isinstance(f, ast.Attribute):
        return f.attr
    if isinstance(f, ast.Name):
        return f.id
    return "?"


def _receiver_is_sliver(c):
    v = c.func.value if isinstance(c.func, ast.Attribute) else None
    return isinstance(v, ast.Name) and "sliver" in v.id.lower()


def _is_new_ctor(c):
    n = _callee(c)
    kw = {k.arg for k in c.keywords}
    if n in NEW_CTORS and isinstance(c.func, ast.Name):
        return "etype" in kw
    if n == "__init__" and isinstance(c.func, ast.Attribute) and isinstance(c.func.value, ast.Call) and _callee(c.func.value) == "super":
        return "etype" in kw
    return False


def _expr(e):
    """tokens of evaluating an expression: its calls in evaluation order (inner before outer)"""
    if e is None:
        return []
    calls = sorted([n for n in ast.walk(e) if isinstance(n, ast.Call)], key=lambda n: (n.end_lineno, n.end_col_offset))
    out = []
    for c in calls:
        n = _callee(c)
        if _is_new_ctor(c):
            out.append(("w", "new " + ("super" if n == "__init__" else n)))
        elif isinstance(c.func, ast.Attribute) and (n in GRAPH_WRITES or n in USER_WRITES):
            out.append(("w", n))
        elif isinstance(c.func, ast.Attribute) and n in ELEMENT_WRITES and not _receiver_is_sliver(c):
            out.append(("w", n))
        elif n in PURE or isinstance(c.func, ast.Lambda):
            continue
        else:
            out.append(("v",))
    if not out and any(isinstance(n, ast.Subscript) for n in ast.walk(e)):
        out.append(("v",))          # indexing / key look-up can raise
    return out


def _is_cache(target):
    return isinstance(target, ast.Attribute) and target.attr == "_interfaces"


def _stmts(body, where):
    out = []
    for st in strip_doc(list(body)):
        if isinstance(st, ast.Assert):
            out.append(("v",))
        elif isinstance(st, ast.Raise):
            out.extend(_expr(st.exc))
            out.append(("v",))
        elif isinstance(st, ast.Try):
            b = _stmts(st.body, where)
            if st.orelse or st.finalbody:
                raise ExtractionError("%s: try with else/finally" % where)
            if len(st.handlers) == 1:
                h = st.handlers[0]
                hb = _stmts(h.body, where)
                catch_all = h.type is None or (isinstance(h.type, ast.Name) and h.type.id in ("Exception", "BaseException"))
                removes = any(t[0] == "w" and t[1] in REMOVERS for t in _flat(hb))
                reraises = bool(h.body) and isinstance(h.body[-1], ast.Raise)
                out.append(("guarded" if (catch_all and removes and reraises) else "tryelse", b, hb))
            else:
                hb = []
                for h in st.handlers:
                    hb += _stmts(h.body, where)
                out.append(("tryelse", b, hb))
        elif isinstance(st, (ast.For, ast.While)):
            out.extend(_expr(st.iter if isinstance(st, ast.For) else st.test))
            if st.orelse:
                raise ExtractionError("%s: loop with else" % where)
            out.append(("loop", _stmts(st.body, where)))
        elif isinstance(st, ast.If):
            out.extend(_expr(st.test))
            out.append(("ite", _stmts(st.body, where), _stmts(st.orelse, where)))
        elif isinstance(st, ast.Return):
            out.extend(_expr(st.value))
            out.append(("ret",))
        elif isinstance(st, (ast.Continue, ast.Break, ast.Pass)):
            continue
        elif isinstance(st, ast.FunctionDef):
            continue                    # a local helper: its calls count where they are made (as `v`)
        elif isinstance(st, (ast.Assign, ast.AugAssign, ast.AnnAssign)):
            tg = st.targets[0] if isinstance(st, ast.Assign) else st.target
            if isinstance(st, ast.Assign) and len(st.targets) != 1:
                raise ExtractionError("%s: chained assignment" % where)
            if _is_cache(tg):
                # `self._interfaces = list(filter(...))` / `= list()` / `= interfaces`: bookkeeping; the calls inside still count
                inner = [t for t in _expr(st.value) if t[0] == "w"]
                out.extend(inner)
                out.append(("c",))
                continue
            out.extend(_expr(st.value))
            if isinstance(tg, ast.Attribute) and isinstance(tg.value, ast.Name) and tg.value.id == "self" and tg.attr in WRITING_ATTRS:
                out.append(("w", "self." + tg.attr + " ="))
        elif isinstance(st, ast.Expr):
            v = st.value
            if isinstance(v, ast.Call) and _callee(v) == "append" and isinstance(v.func.value, ast.Attribute) and v.func.value.attr == "_interfaces":
                out.append(("c",))
            elif isinstance(v, ast.Call) and _callee(v) == "append" and isinstance(v.func.value, ast.Name):
                out.extend(_expr(ast.Tuple(elts=list(v.args), ctx=ast.Load())))
                out.append(("r",))          # bookkeeping list (what a rollback handler iterates): its position matters
            else:
                out.extend(_expr(v))
        else:
            raise ExtractionError("%s: statement kind %s not recognised" % (where, type(st).__name__))
    return _squeeze(out)


def _flat(toks):
    for t in toks:
        yield t
        for sub in t[1:]:
            if isinstance(sub, list):
                yield from _flat(sub)


def _squeeze(toks):
    """runs of `v` collapse to one; an if/else or loop without content disappears"""
    out = []
    for t in toks:
        if t[0] == "ite" and not t[1] and not t[2]:
            continue
        if t[0] == "loop" and not t[1]:
            continue
        if t == ("v",) and out and out[-1] == ("v",):
            continue
        out.append(t)
    return out


def _lean(toks):
    items = []
    for t in toks:
        k = t[0]
        if k == "v":
            items.append(".v")
        elif k == "w":
            items.append(".w %s" % lean_str(t[1]))
        elif k == "c":
            items.append(".c")
        elif k == "r":
            items.append(".r")
        elif k == "ret":
            items.append(".ret")
        elif k == "ite":
            items.append(".ite %s %s" % (_lean(t[1]), _lean(t[2])))
        elif k == "loop":
            items.append(".loop %s" % _lean(t[1]))
        elif k in ("guarded", "tryelse"):
            items.append(".%s %s %s" % (k, _lean(t[1]), _lean(t[2])))
        else:
            raise ExtractionError("internal: token %r" % (t,))
    return "[" + ", ".join(items) + "]"


def render(toks):
    """the same rendering as `OrderTok.render` in Model/TopoC09.lean (used for the report only)"""
    out = []
    for t in toks:
        k = t[0]
        if k == "w":
            out.append("w(" + t[1] + ")")
        elif k in ("v", "c", "r", "ret"):
            out.append(k)
        elif k == "ite":
            out.append("if{" + render(t[1]) + "|" + render(t[2]) + "}")
        elif k == "loop":
            out.append("loop{" + render(t[1]) + "}")
        else:
            out.append(k + "{" + render(t[1]) + "|" + render(t[2]) + "}")
    return " ".join(out)


def extract():
    res = []
    for f, cls, names in FUNCS:
        tree, src = parse(f)
        c = find_class(tree, cls)
        for n in names:
            fn = find_func(c, n)
            res.append(("%s.%s" % (cls, n), _stmts(fn.body, "%s.%s" % (cls, n))))
    # ExperimentTopology.prune: only the removing part (after the marked elements were collected, which only reads)
    tree, src = parse("fim/user/topology.py")
    pr = find_func(find_class(tree, "ExperimentTopology"), "prune")
    res.append(("ExperimentTopology.prune", _stmts(pr.body, "ExperimentTopology.prune")))
    return res


def scan(toks, d=False):
    """the scan of Model/TopoC09.lean (`OrderTok.scan`): None = on some path a step that can fail follows a write;
    ("ret",) = every path returned; ("thru", d) = paths fall through, d = a write may have happened"""
    for i, t in enumerate(toks):
        k = t[0]
        if k == "v":
            if d:
                return None
        elif k == "w":
            if d:
                return None
            d = True
        elif k in ("c", "r"):
            pass
        elif k == "ret":
            return ("ret",)
        elif k == "ite":
            a, b = scan(t[1], d), scan(t[2], d)
            if a is None or b is None:
                return None
            if a == ("ret",) and b == ("ret",):
                return ("ret",)
            d = (a[1] if a != ("ret",) else False) or (b[1] if b != ("ret",) else False)
        elif k == "loop":
            a = scan(t[1], d)
            if a is None:
                return None
            if a != ("ret",):
                if scan(t[1], a[1]) is None:
                    return None
                d = a[1]
        else:                       # guarded / tryelse: never by shape alone
            return None
    return ("thru", d)


def single_write(toks):
    return scan(toks) is not None


def _baseline():
    """function name -> Lean text of its tokens in the Generated file of the unchanged tree (gen/baseline), if there is one"""
    import core
    path = os.path.join(getattr(core, "BASELINE_DIR", os.path.join(VERIF, "gen", "baseline")), "TopoOrder.lean")
    out = {}
    try:
        with open(path) as f:
            for line in f:
                line = line.strip().rstrip(",")
                if line.startswith("def funcs : List Fn := ["):
                    continue
                if line.startswith("⟨\"") and "\", [" in line:
                    name, rest = line[2:].split("\", ", 1)
                    out[name] = rest.rstrip("]").rstrip("⟩") if rest.endswith("⟩]") else rest.rstrip("⟩")
    except FileNotFoundError:
        return None
    return out


def generate():
    res = extract()
    base = _baseline()
    changed_fns = []
    if base is not None:
        for n, t in res:
            if not single_write(t) and base.get(n) != _lean(t):
                changed_fns.append("%s: %s" % (n, render(t)))
    if changed_fns:
        # not a violation by itself: the table of the unchanged tree stays in place (core falls back to gen/baseline) and
        # correspondence, oracle and the larger search decide
        raise ExtractionError("write order changed in a function that is not single-write (a step that can raise now follows a "
                              "write, or a rollback / multi-pass construct was edited): " + "; ".join(changed_fns))
    body = []
    body.append("/-- abstraction of one statement of a building function (gen/topoorder.py) -/")
    body.append("inductive Tok where\n  | v\n  | w (callee : String)\n  | c\n  | r\n  | ret\n  | ite (a b : List Tok)\n  | loop (b : List Tok)\n"
                "  | guarded (b h : List Tok)\n  | tryelse (b h : List Tok)\n")
    body.append("structure Fn where\n  name : String\n  toks : List Tok\n")
    body.append("def funcs : List Fn := [\n  " + ",\n  ".join("⟨%s, %s⟩" % (lean_str(n), _lean(t)) for n, t in res) + "]\n")
    changed = emit("TopoOrder", "\n".join(body))
    return {"changed": changed, "functions": len(res), "single_write": [n for n, t in res if single_write(t)],
            "pinned": {n: render(t) for n, t in res if not single_write(t)}}


def generate_order():
    """(name differs from rules.generate: core keys the evidence by function name)"""
    return generate()
