"""C14: the *plans* of merge_adm / unmerge_adm / snapshot / rollback and the small decision tables they rely on.

Everything here is obtained by BEHAVIOURAL PROBING of the classes of /repo's current working tree (no source text is
matched), on a fresh shared in-memory store, every run:

  * plans - the mutating calls of the abstract graph interface that `Neo4jCBMGraph.merge_adm` / `unmerge_adm` and
    `ABCCBMPropertyGraph.snapshot` / `rollback` make *directly* (calls nested inside those calls are their business), on
    which graph object (combined model / temporary graph / delegation model, recognised by graph id), with which symbolic
    arguments, in which order; the common-node loop of merge_adm is recognised as the stretch of per-node calls, whose body
    must be the same for every common node.  Probes: merge into an empty combined model, into a non-empty one with two
    common and one new element, with no common element, of an empty delegation model; unmerge of a model from a combined
    model with an element only it contributed (listed first), a shared one carrying both kinds of delegation, and a foreign one.
    A re-ordered, dropped, added or re-addressed call changes the generated `plans`; `Model/CbmStore.lean` interprets the
    generated plans (that is what the driver runs) and `Proofs/C14.lean` proves `plans = modelPlans`.
    Steps whose order cannot be observed (rewrite_delegations / provenance stamp on the invisible temporary graph; the three
    per-element writes of unmerge_adm) are put in a fixed order, so that swapping them is not reported.
    A mutating call the vocabulary does not know, per-node calls that differ between nodes or are not contiguous, an
    unexpected argument (merge_properties, a provenance value that is not `[adm id]` / `old + [adm id]`) is an ExtractionError.
  * tables - what `rewrite_delegations`, `_update_node_delegations`, the delegation part and the provenance part of
    `unmerge_adm` do on every *shape* of input (absent / '' / one entry / two entries / no entry; id present or not ...),
    and what `merge_nodes` keeps; `Proofs/C14.lean` proves that the model's `Deleg.rekey`, `conflict` + `Deleg.take`,
    `Deleg.unmerge`, `provUnmerge` agree with every row (`decide` over the complete generated tables).
  * names - the delegation / provenance / graph-id property names the methods use (observed from the probes' writes).

Harmless rewrites (helpers extracted, locals renamed, loops turned into comprehensions, look-ups hoisted) do not change
what is observed at the interface.
"""
import json

from .common import *

CBM = "cbm-probe"
GX, GY, GZ = "adm-x", "adm-y", "adm-z"

READS = {"graph_exists", "find_matching_nodes", "get_node_properties", "list_all_node_ids", "node_exists",
         "get_all_nodes_by_class", "get_all_nodes_by_class_and_type", "get_first_neighbor", "get_first_and_second_neighbor",
         "get_node_json_property_as_object", "get_all_network_nodes", "get_stitch_nodes", "get_link_properties",
         "get_all_node_links", "serialize_graph", "validate_graph", "get_nodes_on_shortest_path", "get_delegations"}
MUTATORS = {"clone_graph", "rewrite_delegations", "update_nodes_property", "update_node_property", "update_node_properties",
            "_update_node_delegations", "merge_nodes", "delete_node", "delete_graph", "add_node", "add_link",
            "update_link_property", "update_link_properties", "unset_node_property", "unset_link_property",
            "import_graph_from_string", "import_graph_from_string_direct", "unmerge_adm", "merge_adm", "snapshot", "rollback",
            "remove_network_node_with_components_nss_cps_and_links", "remove_cp_and_links", "remove_network_link",
            "remove_ns_with_cps_and_links", "remove_component_with_nss_cps_and_links", "delete_all_graphs",
            "add_graph", "add_graph_direct", "del_graph", "cast_graph"}


class Tracer:
    """Records the tracked calls made directly by the probed method (depth 1); nested calls are not recorded."""

    def __init__(self, L):
        self.L = L
        self.c = L.classes()
        self.depth = 0
        self.trace = []
        self.active = False
        self.saved = []

    def _wrap(self, owner, name):
        orig = owner.__dict__[name]
        fn = orig.__func__ if isinstance(orig, (staticmethod, classmethod)) else orig
        tr = self

        def wrapper(obj, *a, **k):
            if not tr.active:
                return fn(obj, *a, **k)
            tr.depth += 1
            try:
                if tr.depth == 1:
                    tr.trace.append((name, getattr(obj, "graph_id", None), a, dict(k)))
                return fn(obj, *a, **k)
            finally:
                tr.depth -= 1
        wrapper.__name__ = name
        self.saved.append((owner, name, orig))
        setattr(owner, name, wrapper)

    def install(self, probed):
        seen = set()
        owners = []
        for cls in (self.c["NXCBM"], self.c["ADM"], self.c["PG"], self.c["Importer"]):
            for k in cls.__mro__:
                if k is object or k in seen:
                    continue
                seen.add(k)
                owners.append(k)
        for owner in owners:
            for name, v in list(owner.__dict__.items()):
                if name in probed or not callable(v) or isinstance(v, (staticmethod, classmethod, type)):
                    continue
                if name in MUTATORS:
                    self._wrap(owner, name)

    def uninstall(self):
        for owner, name, orig in reversed(self.saved):
            setattr(owner, name, orig)
        self.saved = []

    def run(self, fn):
        self.trace = []
        self.active = True
        try:
            try:
                fn()
                return None
            except Exception as e:  # the probes look at what was raised
                return e
        finally:
            self.active = False
            self.depth = 0


def _node(nid, ld=None, cd=None, **props):
    p = {"Class": "NetworkNode", "Name": nid, "Type": "Server", "StitchNode": "false"}
    p.update(props)
    return [nid, p, ld, cd]


def _lab(did, v="100-200"):
    return {did: json.dumps({"pool_id": "_", "labels": {"vlan_range": v}}, sort_keys=True)}


def _cap(did, v=1):
    return {did: json.dumps({"pool_id": "_", "capacities": {"unit": v}}, sort_keys=True)}


class Prober:
    def __init__(self):
        import lib_cbm as L
        self.L = L
        self.c = L.classes()
        self.names = {}

    # ---- symbolic values

    def role(self, gid, env):
        if gid in env:
            return env[gid]
        if isinstance(gid, str) and gid not in (CBM, GX, GY, GZ):
            return "tmp"
        raise ExtractionError("a call refers to graph id %r, which is none of combined / temporary / delegation model" % (gid,))

    def g_role(self, obj, env):
        gid = getattr(obj, "graph_id", None)
        if gid is None:
            raise ExtractionError("a graph argument without graph_id: %r" % (obj,))
        return self.role(gid, env)

    def prov_ids(self, text):
        try:
            d = json.loads(text)
        except Exception:
            raise ExtractionError("provenance value is not JSON: %r" % (text,))
        if not isinstance(d, dict):
            raise ExtractionError("provenance value is not an object: %r" % (text,))
        lists = [(k, v) for k, v in d.items() if isinstance(v, list)]
        if len(lists) != 1:
            raise ExtractionError("provenance value does not hold exactly one list: %r" % (text,))
        self.names.setdefault("provField", set()).add(lists[0][0])
        return lists[0][1]

    def classify_prop(self, name, val, env):
        """which of GraphID / provenance / delegation property a written property is, by its *value*"""
        if isinstance(val, str) and val in env and env[val] in ("cbm", "adm", "tmp"):
            return "graphid"
        if isinstance(val, str) and val.startswith("{") and "[" in val:
            try:
                self.prov_ids(val)
                return "prov"
            except ExtractionError:
                pass
        return "other"

    # ---- probes

    def session(self, specs):
        imp = self.L.fresh_store()
        src = {s["id"]: self.L.load_spec(imp, s) for s in specs}
        cbm = self.L.new_cbm(imp, CBM)
        return imp, src, cbm

    def steps_of(self, trace, env, imp):
        """[(kind, node_id | None, step-text)] for the mutating calls of one traced call"""
        out = []
        for name, gid, a, k in trace:
            if a:
                raise ExtractionError("%s called with positional arguments %r" % (name, a)) if name != "merge_nodes" else None
            on = self.role(gid, env) if gid is not None else None
            if name == "clone_graph":
                new = k.get("new_graph_id")
                env.setdefault(new, "tmp")
                out.append(("g", None, ".clone .%s .%s" % (on, env[new])))
            elif name == "rewrite_delegations":
                real = k.get("real_adm_id")
                out.append(("g", None, ".rewriteDelegations .%s .%s" % (on, on if real is None else self.role(real, env))))
            elif name == "update_nodes_property":
                pn, pv = k.get("prop_name"), k.get("prop_val")
                kind = self.classify_prop(pn, pv, env)
                if kind == "graphid":
                    self.names.setdefault("graphIdProp", set()).add(pn)
                    out.append(("g", None, ".rehome .%s .%s" % (on, env[pv])))
                elif kind == "prov":
                    ids = self.prov_ids(pv)
                    if len(ids) != 1:
                        raise ExtractionError("provenance stamped on a whole graph is not a single id: %r" % (ids,))
                    self.names.setdefault("provProp", set()).add(pn)
                    out.append(("g", None, ".setProvenance .%s .%s" % (on, self.role(ids[0], env))))
                else:
                    raise ExtractionError("update_nodes_property of %r = %r: not a GraphID rewrite or a provenance stamp" % (pn, pv))
            elif name == "_update_node_delegations":
                out.append(("n", k.get("node_id"), ".updateDelegations .%s .%s" % (on, self.g_role(k.get("adm"), env))))
            elif name == "merge_nodes":
                nid = k.get("node_id", a[0] if a else None)
                other = k.get("other_graph", a[1] if len(a) > 1 else None)
                if k.get("merge_properties") is not None or len(a) > 2:
                    raise ExtractionError("merge_nodes is given a merge_properties policy: %r" % (k.get("merge_properties"),))
                out.append(("n", nid, ".mergeNodes .%s .%s" % (on, self.g_role(other, env))))
            elif name == "update_node_property":
                pn, pv, nid = k.get("prop_name"), k.get("prop_val"), k.get("node_id")
                if pv == "":
                    out.append(("n", nid, "erase:" + pn))
                elif self.classify_prop(pn, pv, env) == "prov":
                    self.names.setdefault("provProp", set()).add(pn)
                    out.append(("n", nid, "prov:" + json.dumps(self.prov_ids(pv))))
                else:
                    raise ExtractionError("update_node_property of %r = %r on %r: not a provenance or delegation write" % (pn, pv, nid))
            elif name == "delete_node":
                out.append(("d", k.get("node_id"), "delete"))
            elif name == "delete_graph":
                out.append(("g", None, ".deleteGraph .%s" % on))
            elif name == "cast_graph":
                out.append(("g", None, ".assertExists .%s" % self.role(k.get("graph_id"), env)))
            else:
                raise ExtractionError("unexpected mutating call %s(%s) made directly by the probed method" % (name, sorted(k)))
        return out

    def merge_plan(self, tr):
        X = {"id": GX, "nodes": [_node("x1", cd=_cap("primary")), _node("s1", ld=_lab("primary")), _node("s2")],
             "edges": [["x1", "s1", {"Class": "connects"}], ["s1", "s2", {"Class": "connects"}]]}
        # the second model describes the common elements differently (properties the combined model's copy does not have)
        Y = {"id": GY, "nodes": [_node("s1", Labels=json.dumps({"vlan_range": "5-6"}), Capacities=json.dumps({"unit": 3}), Model="y",
                                       StitchNode="true"),
                                 _node("s2", cd=_cap("d2"), Site="Y"), _node("y1", ld=_lab("d2"))],
             "edges": [["s1", "s2", {"Class": "connects", "Name": "y"}], ["s2", "y1", {"Class": "connects"}]]}
        Z = {"id": GZ, "nodes": [_node("z1"), _node("z2")], "edges": [["z1", "z2", {"Class": "has"}]]}
        imp, src, cbm = self.session([X, Y, Z])
        # A: empty combined model
        env = {CBM: "cbm", GX: "adm"}
        e = tr.run(lambda: cbm.merge_adm(adm=src[GX]))
        if e is not None:
            raise ExtractionError("probe merge into an empty combined model raised %s: %s" % (type(e).__name__, e))
        a = self.steps_of(tr.trace, env, imp)
        if any(kind != "g" for kind, _, _ in a):
            raise ExtractionError("merge into an empty combined model makes per-element calls: %r" % (a,))
        plan_empty = [t for _, _, t in a]
        # B: two common elements, one new
        env = {CBM: "cbm", GY: "adm"}
        e = tr.run(lambda: cbm.merge_adm(adm=src[GY]))
        if e is not None:
            raise ExtractionError("probe merge with common elements raised %s: %s" % (type(e).__name__, e))
        b = self.steps_of(tr.trace, env, imp)
        kinds = [k for k, _, _ in b]
        if "n" not in kinds:
            raise ExtractionError("merge with common elements makes no per-element call")
        i0, i1 = kinds.index("n"), len(kinds) - kinds[::-1].index("n")
        if any(k != "n" for k in kinds[i0:i1]) or "d" in kinds:
            raise ExtractionError("per-element calls of merge_adm are not one contiguous loop: %r" % (kinds,))
        per, order = {}, []
        for _, nid, t in b[i0:i1]:
            if nid not in per:
                order.append(nid)
                per[nid] = []
            elif order[-1] != nid:
                raise ExtractionError("per-element calls of merge_adm are interleaved between elements")
            per[nid].append(t)
        if sorted(order) != ["s1", "s2"]:
            raise ExtractionError("the loop of merge_adm visits %r, not the two common elements" % (order,))
        bodies = []
        for nid in order:
            body = []
            for t in per[nid]:
                if t.startswith("prov:"):
                    ids = json.loads(t[5:])
                    if ids != [GX, GY]:
                        raise ExtractionError("provenance written on a common element is %r, not old + [model id]" % (ids,))
                    body.append(".appendProvenance .cbm .adm")
                elif t.startswith("erase:"):
                    raise ExtractionError("merge_adm erases a property of a common element")
                else:
                    body.append(t)
            bodies.append(body)
        if bodies[0] != bodies[1]:
            raise ExtractionError("the loop body of merge_adm differs between elements: %r" % (bodies,))
        body = bodies[0]
        ons = {t.split()[1] for t in body}
        others = {t.split()[2] for t in body if t.startswith(".mergeNodes") or t.startswith(".updateDelegations")}
        la = ons.pop() if len(ons) == 1 else ".cbm"
        lb = ".tmp" if ".tmp" in others or not others else sorted(others)[0]
        plan_non = [t for _, _, t in b[:i0]] + [".forCommon %s %s [%s]" % (la, lb, ", ".join(body))] + [t for _, _, t in b[i1:]]
        # C: no common element - the same calls without the loop
        env = {CBM: "cbm", GZ: "adm"}
        e = tr.run(lambda: cbm.merge_adm(adm=src[GZ]))
        if e is not None:
            raise ExtractionError("probe merge without common elements raised %s: %s" % (type(e).__name__, e))
        c = [t for _, _, t in self.steps_of(tr.trace, env, imp)]
        if c != [t for _, _, t in b[:i0]] + [t for _, _, t in b[i1:]]:
            raise ExtractionError("merge without common elements does not make the calls around the loop: %r" % (c,))
        # D: empty delegation model
        imp2, src2, cbm2 = self.session([X])
        ghost = self.c["PG"](graph_id="adm-empty", importer=imp2)
        env = {CBM: "cbm", "adm-empty": "adm"}
        e = tr.run(lambda: cbm2.merge_adm(adm=ghost))
        require = isinstance(e, AssertionError) and not tr.trace
        return plan_empty, plan_non, require

    def unmerge_plan(self, tr):
        X = {"id": GX, "nodes": [_node("x1", cd=_cap("primary")), _node("s1", ld=_lab("primary"), cd=_cap("primary"))],
             "edges": [["x1", "s1", {"Class": "connects"}]]}
        Y = {"id": GY, "nodes": [_node("s1"), _node("y1", ld=_lab("d2"))], "edges": [["s1", "y1", {"Class": "connects"}]]}
        imp, src, cbm = self.session([X, Y])
        for g in (GX, GY):
            cbm.merge_adm(adm=src[g])
        env = {CBM: "cbm", GX: "adm"}
        e = tr.run(lambda: cbm.unmerge_adm(graph_id=GX))
        if e is not None:
            raise ExtractionError("probe unmerge raised %s: %s" % (type(e).__name__, e))
        st = self.steps_of(tr.trace, env, imp)
        # looking a graph up (cast_graph: an existence assertion, no write) is not part of the plan of unmerge_adm; whether the
        # result DEPENDS on what is stored under the unmerged id is probed behaviourally (unmerge_source_probe)
        self.unmerge_lookups = [t for k, _, t in st if k == "g" and t.startswith(".assertExists")]
        st = [x for x in st if not (x[0] == "g" and x[2].startswith(".assertExists"))]
        if any(k == "g" for k, _, _ in st):
            raise ExtractionError("unmerge_adm makes whole-graph calls: %r" % (st,))
        s1 = [t for k, nid, t in st if nid == "s1" and k == "n"]
        x1 = [t for k, nid, t in st if nid == "x1" and k == "n"]
        y1 = [t for k, nid, t in st if nid == "y1"]
        if y1:
            raise ExtractionError("unmerge_adm writes on an element the unmerged model did not contribute: %r" % (y1,))
        plan = []
        for t in s1:
            if t.startswith("prov:"):
                if json.loads(t[5:]) != [GY]:
                    raise ExtractionError("provenance after unmerge is %s, not the list without the unmerged id" % t[5:])
                plan.append(".provenance")
            elif t.startswith("erase:"):
                pn = t[6:]
                if "apacity" in pn:
                    self.names.setdefault("capProp", set()).add(pn)
                    plan.append(".deleg true")
                else:
                    self.names.setdefault("labProp", set()).add(pn)
                    plan.append(".deleg false")
            else:
                raise ExtractionError("unexpected per-element call of unmerge_adm: %s" % t)
        if sorted(plan) != [".deleg false", ".deleg true", ".provenance"]:
            raise ExtractionError("unmerge_adm on a shared element with both delegations makes the calls %r" % (s1,))
        # The three per-element steps write different properties and only the delegation steps can raise - on a delegation with
        # more than one entry, which no combined model built by merges holds: their order is not observable, so it is not part
        # of the plan (the observed order goes into the report only).
        self.observed_unmerge_order = list(plan)
        plan = [".provenance", ".deleg true", ".deleg false"]
        if any(t.startswith("prov:") for t in x1):
            raise ExtractionError("unmerge_adm rewrites the provenance of an element it deletes")
        dels = [i for i, (k, nid, _) in enumerate(st) if k == "d"]
        if [st[i][1] for i in dels] != ["x1"]:
            raise ExtractionError("unmerge_adm deletes %r, not the one element only the unmerged model contributed" % ([st[i][1] for i in dels],))
        last_s1 = max(i for i, (k, nid, _) in enumerate(st) if nid == "s1")
        return plan, dels[0] > last_s1

    def unmerge_source_probe(self):
        """unmerge_adm is given a graph ID: does its result depend on what the store holds under that id NOW?  The model merged
        as X is, before the unmerge: left alone / an element retired in place / reloaded under its id with other elements /
        an element added / deleted from the store.  Returns the variants whose combined model differs from 'left alone'."""
        L = self.L
        X = {"id": GX, "nodes": [_node("x1", cd=_cap("primary")), _node("x2"), _node("s1", ld=_lab("primary"))],
             "edges": [["x1", "s1", {"Class": "connects"}], ["x1", "x2", {"Class": "has"}]]}
        Y = {"id": GY, "nodes": [_node("s1"), _node("y1", ld=_lab("d2"))], "edges": [["s1", "y1", {"Class": "connects"}]]}
        X2 = {"id": GX, "nodes": [_node("s1"), _node("x9", cd=_cap("primary"))], "edges": [["x9", "s1", {"Class": "connects"}]]}
        variants = [("unchanged", None), ("element-retired", ("delnode", "x2")), ("reloaded-with-other-elements", ("replace", X2)),
                    ("element-added", ("addnode", _node("y1") + ["x1"])), ("shared-element-retired", ("delnode", "s1")),
                    ("deleted", ("gone", None))]
        out, ref = [], None
        for order in ((GX, GY), (GY, GX)):
            for name, ed in variants:
                imp, src, cbm = self.session([X, Y])
                for g in order:
                    cbm.merge_adm(adm=src[g])
                if ed is not None:
                    L.apply_edit(imp, GX, ed[0], ed[1])
                try:
                    cbm.unmerge_adm(graph_id=GX)
                    got = ("ok", L.snapshot(imp, CBM))
                except Exception as e:
                    got = (type(e).__name__, L.snapshot(imp, CBM))
                if ed is None:
                    ref = got
                elif got != ref and name not in out:
                    out.append(name)
        L.fresh_store()
        return out

    def snap_plans(self, tr):
        X = {"id": GX, "nodes": [_node("x1"), _node("x2")], "edges": [["x1", "x2", {"Class": "has"}]]}
        imp, src, cbm = self.session([X])
        cbm.merge_adm(adm=src[GX])
        env = {CBM: "cbm"}
        box = {}
        e = tr.run(lambda: box.setdefault("id", cbm.snapshot()))
        if e is not None:
            raise ExtractionError("probe snapshot raised %s: %s" % (type(e).__name__, e))
        snap = [t for _, _, t in self.steps_of(tr.trace, env, imp)]
        env = {CBM: "cbm", box["id"]: "tmp"}
        e = tr.run(lambda: cbm.rollback(graph_id=box["id"]))
        if e is not None:
            raise ExtractionError("probe rollback raised %s: %s" % (type(e).__name__, e))
        roll = [t for _, _, t in self.steps_of(tr.trace, env, imp)]
        return snap, roll

    # ---- tables

    def deleg_of(self, imp, gid, nid):
        G = imp.storage.get_graph(gid)
        for _, d in G.nodes(data=True):
            if d.get(self.L.GRAPH_ID) == gid and d.get(self.L.NODE_ID) == nid:
                return (self.L.canon_deleg(d.get(self.L.LDEL)), self.L.canon_deleg(d.get(self.L.CDEL)), self.L.canon_prov(d.get(self.L.SI)))
        return None

    def tables(self):
        from core import err_kind
        L = self.L
        det = json.dumps({"pool_id": "_", "labels": {"vlan_range": "1-2"}}, sort_keys=True)
        detc = json.dumps({"pool_id": "_", "capacities": {"unit": 1}}, sort_keys=True)
        # incl. an entry already keyed by the id it is re-keyed to (a model that was rewritten before; ids are opaque strings)
        shapes = [None, "", {"d1": "@"}, {"d1": "@", "d2": "@"}, {}, {"G": "@"}, {"G": "@", "d1": "@"}]
        rekey, take, unm, prov = [], [], [], []

        def fill(v, cap):
            if isinstance(v, dict):
                return {k: (detc if cap else det) for k in v}
            return v

        def norm(v):          # canonical value -> the table's opaque details token
            if isinstance(v, dict):
                return {k: "@" for k in v}
            return v
        # rewrite_delegations
        for cap in (False, True):
            for sh in shapes:
                imp = L.fresh_store()
                spec = {"id": GX, "nodes": [_node("n", ld=None if cap else fill(sh, cap), cd=fill(sh, cap) if cap else None)], "edges": []}
                L.load_spec(imp, spec)
                g = self.c["ADM"](graph_id=GX, importer=imp)
                try:
                    g.rewrite_delegations(real_adm_id="G")
                    r = self.deleg_of(imp, GX, "n")
                    rekey.append((sh, norm(r[1] if cap else r[0]), None))
                except Exception as e:
                    rekey.append((sh, "raise", err_kind(e)))
        # _update_node_delegations
        small = [None, "", {"G1": "@"}]
        for cap in (False, True):
            for c in small:
                for a in [None, "", {"G2": "@"}, {"G1": "@"}]:
                    imp = L.fresh_store()
                    cs = {"id": CBM, "nodes": [_node("n", ld=None if cap else fill(c, cap), cd=fill(c, cap) if cap else None)], "edges": []}
                    as_ = {"id": GX, "nodes": [_node("n", ld=None if cap else fill(a, cap), cd=fill(a, cap) if cap else None)], "edges": []}
                    L.load_spec(imp, cs)
                    ag = L.load_spec(imp, as_)
                    cbm = L.new_cbm(imp, CBM)
                    try:
                        cbm._update_node_delegations(node_id="n", adm=ag)
                        r = self.deleg_of(imp, CBM, "n")
                        take.append((c, a, norm(r[1] if cap else r[0])))
                    except Exception as e:
                        take.append((c, a, "raise"))
        # unmerge_adm: delegation part and provenance part
        for cap in (False, True):
            for sh in [None, "", {"g": "@"}, {"h": "@"}, {"g": "@", "h": "@"}, {}]:
                imp = L.fresh_store()
                cs = {"id": CBM, "nodes": [_node("n", ld=None if cap else fill(sh, cap), cd=fill(sh, cap) if cap else None)], "edges": []}
                L.load_spec(imp, cs)
                cbm = L.new_cbm(imp, CBM)
                cbm.update_nodes_property(prop_name=L.SI, prop_val=json.dumps({"adm_graph_ids": ["g", "h"]}))
                try:
                    cbm.unmerge_adm(graph_id="g")
                    r = self.deleg_of(imp, CBM, "n")
                    unm.append((sh, norm(r[1] if cap else r[0])))
                except Exception as e:
                    unm.append((sh, "raise"))
        for p in [["g"], ["g", "h"], ["h", "g"], ["h"], ["g", "g"], ["h", "g", "k"], []]:
            imp = L.fresh_store()
            cs = {"id": CBM, "nodes": [_node("n"), _node("keep")], "edges": []}
            L.load_spec(imp, cs)
            cbm = L.new_cbm(imp, CBM)
            cbm.update_nodes_property(prop_name=L.SI, prop_val=json.dumps({"adm_graph_ids": ["other"]}))
            cbm.update_node_property(node_id="n", prop_name=L.SI, prop_val=json.dumps({"adm_graph_ids": p}))
            try:
                cbm.unmerge_adm(graph_id="g")
            except Exception as e:
                raise ExtractionError("probe unmerge on provenance %r raised %s" % (p, e))
            r = self.deleg_of(imp, CBM, "n")
            prov.append((p, (p, True) if r is None else (r[2], False)))
        # merge_nodes policy
        imp = L.fresh_store()
        cs = {"id": CBM, "nodes": [_node("n", Both="caller", Mine="m"), _node("k"), _node("c2")],
              "edges": [["n", "k", {"Class": "connects", "Who": "caller"}]]}
        os_ = {"id": GX, "nodes": [_node("n", Both="other", Theirs="t"), _node("k"), _node("o2")],
               "edges": [["n", "k", {"Class": "connects", "Who": "other"}], ["n", "o2", {"Class": "has", "Who": "other"}]]}
        L.load_spec(imp, cs)
        og = L.load_spec(imp, os_)
        cbm = L.new_cbm(imp, CBM)
        cbm.merge_nodes(node_id="k", other_graph=og)
        cbm.merge_nodes(node_id="n", other_graph=og)
        snap = L.snapshot(imp, CBM)
        rest = L.snapshot(imp, GX)
        nn = [n for n in snap["nodes"] if n[0] == "n"][0][1]
        e_nk = [e for e in snap["edges"] if sorted(e[:2]) == ["k", "n"]]
        policy = [("shared-property", nn.get("Both", "absent")), ("caller-only-property", "kept" if nn.get("Mine") == "m" else "dropped"),
                  ("other-only-property", "kept" if "Theirs" in nn else "dropped"),
                  ("shared-edge-data", e_nk[0][2].get("Who", "?") if len(e_nk) == 1 else "edges:%d" % len(e_nk)),
                  ("shared-edge-extra-keys", ",".join(sorted(set(e_nk[0][2]) - {"Class", "Who"})) if e_nk else "?"),
                  ("other-node", "gone" if [n[0] for n in rest["nodes"]] == ["o2"] else "stays:" + ",".join(n[0] for n in rest["nodes"])),
                  ("caller-node-count", str(len(snap["nodes"])))]
        L.fresh_store()
        return rekey, take, unm, prov, policy


def canon_commuting(plan):
    """rewrite_delegations and the provenance stamp on the (invisible) temporary graph commute: a fixed order for them"""
    out, run = [], []
    for t in plan + [None]:
        if t is not None and (t.startswith(".rewriteDelegations .tmp") or t.startswith(".setProvenance .tmp")):
            run.append(t)
        else:
            out.extend(sorted(run))
            run = []
            if t is not None:
                out.append(t)
    return out


def lean_deleg(v):
    if v is None:
        return ".absent"
    if v == "":
        return ".emptied"
    if isinstance(v, dict):
        return "(.dict %s)" % lean_list(["(%s, %s)" % (lean_str(k), lean_str(x)) for k, x in v.items()])
    raise ExtractionError("a delegation property came back as %r" % (v,))


def dedup(rows):
    out = []
    for r in rows:
        if r not in out:
            out.append(r)
    return out


def generate():
    p = Prober()
    tr = Tracer(p.L)
    tr.install(probed={"merge_adm", "unmerge_adm", "snapshot", "rollback"})
    try:
        plan_empty, plan_non, require = p.merge_plan(tr)
        un_plan, del_after = p.unmerge_plan(tr)
        snap, roll = p.snap_plans(tr)
    finally:
        tr.uninstall()
        p.L.fresh_store()
    observed = {"mergeEmpty": list(plan_empty), "mergeNonEmpty": list(plan_non), "unmergeNode": getattr(p, "observed_unmerge_order", None)}
    plan_empty, plan_non = canon_commuting(plan_empty), canon_commuting(plan_non)
    rekey, take, unm, prov, policy = p.tables()
    src_dep = p.unmerge_source_probe()
    names = {}
    for k in ("labProp", "capProp", "provProp", "provField", "graphIdProp"):
        v = sorted(p.names.get(k, []))
        if len(v) != 1:
            raise ExtractionError("property name %s observed as %r" % (k, v))
        names[k] = v[0]
    b = []
    b.append("open FimVerif.Cbm\n")
    b.append("/-- property names the broker calls write (observed) -/")
    b.append("def labelDelegationsProp : String := %s" % lean_str(names["labProp"]))
    b.append("def capacityDelegationsProp : String := %s" % lean_str(names["capProp"]))
    b.append("def provenanceProp : String := %s" % lean_str(names["provProp"]))
    b.append("def provenanceField : String := %s" % lean_str(names["provField"]))
    b.append("def graphIdProp : String := %s\n" % lean_str(names["graphIdProp"]))
    b.append("/-- the calls `merge_adm` / `unmerge_adm` / `snapshot` / `rollback` make, in order (observed on probes) -/")
    b.append("def plans : Plans :=")
    b.append("  { requireAdm := %s," % ("true" if require else "false"))
    b.append("    mergeEmpty := %s," % lean_list(plan_empty))
    b.append("    mergeNonEmpty := %s," % lean_list(plan_non))
    b.append("    unmergeNode := %s," % lean_list(un_plan))
    b.append("    unmergeDeleteAfter := %s," % ("true" if del_after else "false"))
    b.append("    snapshot := %s," % lean_list(snap))
    b.append("    rollback := %s }\n" % lean_list(roll))
    b.append("/-- `unmerge_adm(graph_id)` gives the same combined model whatever the store holds under that id at the time (the merged model "
             "left alone / an element retired / reloaded with other elements / an element added / deleted): observed -/")
    b.append("def unmergeIgnoresSourceModel : Bool := %s\n" % ("true" if not src_dep else "false"))
    b.append("/-- `rewrite_delegations(real_adm_id = \"G\")` on every shape of delegation property (details are the token `@`) -/")
    rows = []
    for sh, out, err in dedup(rekey):
        if out == "raise":
            rows.append("⟨%s, none, some .%s⟩" % (lean_deleg(sh), err if err in ("query", "attribute", "assertion") else "query"))
            if err not in ("query", "attribute", "assertion"):
                raise ExtractionError("rewrite_delegations raises %s on %r" % (err, sh))
        else:
            rows.append("⟨%s, some %s, none⟩" % (lean_deleg(sh), lean_deleg(out)))
    b.append("def rekeyTable : List RekeyRow := [\n  %s]\n" % ",\n  ".join(rows))
    b.append("/-- `_update_node_delegations`: combined model's property × temporary graph's property -> what the combined model holds (`none` = raises) -/")
    rows = ["⟨%s, %s, %s⟩" % (lean_deleg(c), lean_deleg(a), "none" if o == "raise" else "some " + lean_deleg(o)) for c, a, o in dedup(take)]
    b.append("def takeTable : List TakeRow := [\n  %s]\n" % ",\n  ".join(rows))
    b.append("/-- the delegation part of `unmerge_adm(\"g\")` -/")
    rows = ["⟨%s, %s⟩" % (lean_deleg(s), "none" if o == "raise" else "some " + lean_deleg(o)) for s, o in dedup(unm)]
    b.append("def unmergeDelegTable : List UnmergeDelegRow := [\n  %s]\n" % ",\n  ".join(rows))
    b.append("/-- the provenance part of `unmerge_adm(\"g\")`: list left on the element, element deleted -/")
    rows = ["⟨%s, (%s, %s)⟩" % (lean_list([lean_str(x) for x in i]), lean_list([lean_str(x) for x in (o[0] or [])]), "true" if o[1] else "false")
            for i, o in prov]
    b.append("def provTable : List ProvRow := [\n  %s]\n" % ",\n  ".join(rows))
    b.append("/-- `merge_nodes` with the default policy, observed -/")
    b.append("def mergeNodesPolicy : List (String × String) := %s\n" % lean_list(["(%s, %s)" % (lean_str(k), lean_str(v)) for k, v in policy]))
    changed = emit("CbmCfg", "\n".join(b), header="import FimVerif.Model.CbmPlan\n")
    return {"changed": changed, "names": names, "requireAdm": require, "mergeEmpty": plan_empty, "mergeNonEmpty": plan_non,
            "unmergeNode": un_plan, "unmergeDeleteAfter": del_after, "snapshot": snap, "rollback": roll,
            "rows": {"rekey": len(dedup(rekey)), "take": len(dedup(take)), "unmergeDeleg": len(dedup(unm)), "prov": len(prov)},
            "mergeNodesPolicy": dict(policy), "observed_order": observed, "unmergeDependsOnSourceWhen": src_dep,
            "unmergeLookups": getattr(p, "unmerge_lookups", [])}
