"""A small symbolic executor for integer-valued Python code (used by gen/capops.py and gen/catalog.py).

Instead of matching the *shape* of the source (loop vs comprehension vs helper function), the extractors run the real
method on symbolic integers and read off what it computes:

* `Sym` is an `int` subclass whose arithmetic builds an expression tree and whose comparisons give `SymBool`;
* every place the code under test turns a `SymBool` (or a `Sym`) into a truth value - `if`, `not`, `and`, `all()`, `any()`,
  `assert`, `filter`, `max`, `sorted`... - is a *decision*; `explore(fn)` re-runs `fn` once per feasible sequence of decisions
  (depth-first over the decision tree) and returns all paths as (trace, outcome);
* whatever the code does with a value that is not arithmetic or comparison (formatting, hashing, indexing, float
  conversion...) raises `Unsupported` (an ExtractionError): the extractor then reports an unrecognised source, it never guesses.

`Sym` subclasses `int` so that `isinstance(v, int)` answers what it answers for the real values; the underlying int of every
`Sym` is a distinct huge number, so a C function that bypasses the overloads produces a plain `int` that the extractors reject.
"""
from .common import ExtractionError


class Unsupported(ExtractionError):
    pass


_CURRENT = []      # stack of active Explorer objects


def _explorer():
    if not _CURRENT:
        raise Unsupported("symbolic value used outside an exploration")
    return _CURRENT[-1]


# expression trees: ("var", side, key) ("const", n) ("add"|"sub"|"mul", l, r) ("neg", x)
# conditions:       ("lt"|"le"|"gt"|"ge"|"eq"|"ne", l, r)

def _lift(x):
    if isinstance(x, Sym):
        return x.e
    if isinstance(x, bool):
        return None
    if type(x) is int:
        return ("const", x)
    return None


_MAGIC = [0]


class Sym(int):
    def __new__(cls, e):
        _MAGIC[0] += 1
        o = int.__new__(cls, 10 ** 40 + _MAGIC[0] * 10 ** 20 + 7)
        o.e = e
        return o

    # arithmetic
    def _bin(self, other, op, swap=False):
        o = _lift(other)
        if o is None:
            return NotImplemented
        return Sym((op, o, self.e) if swap else (op, self.e, o))

    def __add__(self, o): return self._bin(o, "add")
    def __radd__(self, o): return self._bin(o, "add", True)
    def __sub__(self, o): return self._bin(o, "sub")
    def __rsub__(self, o): return self._bin(o, "sub", True)
    def __mul__(self, o): return self._bin(o, "mul")
    def __rmul__(self, o): return self._bin(o, "mul", True)
    def __neg__(self): return Sym(("neg", self.e))
    def __pos__(self): return self

    # comparisons
    def _cmp(self, other, op):
        o = _lift(other)
        if o is None:
            return NotImplemented
        return SymBool((op, self.e, o))

    def __lt__(self, o): return self._cmp(o, "lt")
    def __le__(self, o): return self._cmp(o, "le")
    def __gt__(self, o): return self._cmp(o, "gt")
    def __ge__(self, o): return self._cmp(o, "ge")
    def __eq__(self, o): return self._cmp(o, "eq")
    def __ne__(self, o): return self._cmp(o, "ne")

    def __bool__(self):
        return _explorer().decide(("ne", self.e, ("const", 0)))

    def __repr__(self):
        return "Sym(%s)" % show(self.e)

    def _no(self, *a, **k):
        raise Unsupported("the code does something with a capacity value that is neither arithmetic nor comparison")

    __hash__ = __index__ = __int__ = __float__ = __str__ = __format__ = __abs__ = __round__ = __trunc__ = _no
    __floordiv__ = __rfloordiv__ = __truediv__ = __rtruediv__ = __mod__ = __rmod__ = __pow__ = __rpow__ = _no
    __divmod__ = __rdivmod__ = __lshift__ = __rshift__ = __and__ = __or__ = __xor__ = __invert__ = _no
    __rlshift__ = __rrshift__ = __rand__ = __ror__ = __rxor__ = __floor__ = __ceil__ = _no


class SymBool:
    def __init__(self, c):
        self.c = c

    def __bool__(self):
        return _explorer().decide(self.c)

    def __repr__(self):
        return "SymBool(%s)" % show(self.c)

    def _no(self, *a, **k):
        raise Unsupported("a comparison result is used as a number")

    __hash__ = None
    __eq__ = __ne__ = __add__ = __radd__ = __index__ = __int__ = __and__ = __or__ = _no


NEG = {"lt": "ge", "ge": "lt", "gt": "le", "le": "gt", "eq": "ne", "ne": "eq"}
MIRROR = {"lt": "gt", "gt": "lt", "le": "ge", "ge": "le", "eq": "eq", "ne": "ne"}


def negate(c):
    return (NEG[c[0]], c[1], c[2])


def _rank(e):
    # orientation: a-side variables before b-side variables before anything else before constants
    if e[0] == "var":
        return (0, str(e[1]), str(e[2]))
    if e[0] == "const":
        return (2, "", "")
    return (1, "", "")


def orient(c):
    """`5 > x` and `x < 5` (and `b > a` / `a < b`) are the same condition: put the lower-ranked operand on the left."""
    if c[1][0] in ("var", "const") and c[2][0] in ("var", "const") and _rank(c[2]) < _rank(c[1]):
        return (MIRROR[c[0]], c[2], c[1])
    return c


def true_form(cond, outcome):
    """the condition that is TRUE on this branch, oriented"""
    return orient(cond if outcome else negate(cond))


class Explorer:
    def __init__(self, max_paths=4096):
        self.max_paths = max_paths

    def decide(self, cond):
        key = orient(cond)
        nkey = orient(negate(cond))
        for c, o in self.trace:
            if c == key:
                return o
            if c == nkey:
                return not o
        i = len(self.trace)
        out = self.prefix[i] if i < len(self.prefix) else True
        self.trace.append((key, out))
        return out

    def explore(self, fn):
        """-> list of (trace, ("ok", value) | ("raise", exception)); trace = [(oriented condition, outcome)]"""
        paths = []
        todo = [[]]
        while todo:
            self.prefix = todo.pop()
            self.trace = []
            _CURRENT.append(self)
            try:
                try:
                    v = fn()
                    if isinstance(v, SymBool):
                        v = bool(v)
                    res = ("ok", v)
                except ExtractionError:
                    raise
                except RecursionError:
                    raise Unsupported("recursion while executing symbolically")
                except Exception as e:
                    res = ("raise", e)
            finally:
                _CURRENT.pop()
            trace = list(self.trace)
            paths.append((trace, res))
            if len(paths) > self.max_paths:
                raise Unsupported("more than %d execution paths" % self.max_paths)
            for i in range(len(self.prefix), len(trace)):
                todo.append([o for _, o in trace[:i]] + [not trace[i][1]])
        return paths


def explore(fn, max_paths=4096):
    return Explorer(max_paths).explore(fn)


def rename(e, f):
    """map variables through f((side, key)) -> new expression (or raise)"""
    if e[0] == "var":
        return f(e)
    if e[0] == "const":
        return e
    return (e[0],) + tuple(rename(x, f) for x in e[1:])


def variables(e, acc=None):
    acc = set() if acc is None else acc
    if e[0] == "var":
        acc.add((e[1], e[2]))
    elif e[0] != "const":
        for x in e[1:]:
            variables(x, acc)
    return acc


def evaluate(e, env):
    """evaluate an expression / condition on Python ints; env maps (side, key) -> int"""
    t = e[0]
    if t == "var":
        return env[(e[1], e[2])]
    if t == "const":
        return e[1]
    if t == "neg":
        return -evaluate(e[1], env)
    a, b = evaluate(e[1], env), evaluate(e[2], env)
    return {"add": lambda: a + b, "sub": lambda: a - b, "mul": lambda: a * b, "lt": lambda: a < b, "le": lambda: a <= b,
            "gt": lambda: a > b, "ge": lambda: a >= b, "eq": lambda: a == b, "ne": lambda: a != b}[t]()


def show(e):
    t = e[0]
    if t == "var":
        return "%s.%s" % (e[1], e[2]) if e[2] != "" else str(e[1])
    if t == "const":
        return str(e[1])
    if t == "neg":
        return "(-%s)" % show(e[1])
    op = {"add": "+", "sub": "-", "mul": "*", "lt": "<", "le": "<=", "gt": ">", "ge": ">=", "eq": "==", "ne": "!="}[t]
    return "(%s %s %s)" % (show(e[1]), op, show(e[2]))


def lean_int(e, var=lambda side, key: side):
    """Lean `Int` term for an expression; `var` renders a variable"""
    t = e[0]
    if t == "var":
        return var(e[1], e[2])
    if t == "const":
        return "(%d : Int)" % e[1]
    if t == "neg":
        return "(- %s)" % lean_int(e[1], var)
    op = {"add": "+", "sub": "-", "mul": "*"}[t]
    return "(%s %s %s)" % (lean_int(e[1], var), op, lean_int(e[2], var))


LEAN_REL = {"lt": "<", "gt": ">", "le": "≤", "ge": "≥", "eq": "=", "ne": "≠"}


def lean_cond(c, var=lambda side, key: side, term=lean_int):
    return "decide (%s %s %s)" % (term(c[1], var), LEAN_REL[c[0]], term(c[2], var))
