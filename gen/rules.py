"""Translate the published graph rules' vocabularies and the topology layer's tables into Lean.

Reads (from /repo's current working tree):
  fim/graph/data/graph_validation_rules.json   -> class vocabulary, per-class Type vocabularies, the structural
                                                   rules recognised by their shape (pinned list of rule kinds)
  enums NodeType, ComponentType, InterfaceType, ServiceType, LinkType      -> member names (str(member))
  NetworkServiceSliver.ServiceConstraints[*].layer, NetworkLinkSliver.LinkConstraints[*].layer
  fim/slivers/data/component_catalog.json      -> (Model, Type, AlsoModels, interface names, Details) per entry
  ABCPropertyGraph.NO_UNSET_PROPERTIES
  behaviour probe of NetworkXPropertyGraph.add_node: is an existing NodeID rejected whatever its class?

Any rule text that does not match one of the recognised shapes is an ExtractionError.
"""
import json
import os
import re

from .common import *

RULES = "fim/graph/data/graph_validation_rules.json"
CATALOG = "fim/slivers/data/component_catalog.json"

CLASS_RULE = re.compile(r'^MATCH \(n:GraphNode \{GraphID: \$graphId\}\) RETURN ALL\(r IN collect\(n\) WHERE r\.Class IN \[(.*)\]\)$')
TYPE_RULE = re.compile(r'^MATCH \(n:(\w+) \{GraphID: \$graphId\}\) RETURN ALL\(r IN collect\(n\) WHERE r\.Type IN \[(.*)\]\)$')
# the structural rules, recognised by a distinctive fragment (kind, regex)
SHAPES = [
    ("has_props", re.compile(r'r\.Class IS NOT NULL AND r\.NodeID IS NOT NULL AND r\.Type IS NOT NULL AND r\.Name IS NOT NULL')),
    ("ids_distinct", re.compile(r'WHERE n\.NodeID=m\.NodeID AND NOT id\(n\)=id\(m\) RETURN count\(n\) = 0')),
    ("component_owned", re.compile(r'MATCH\(n:Component \{GraphID: \$graphId\}\) -\[:has\]- \(m:GraphNode \{GraphID: \$graphId\}\) WHERE m\.Class="NetworkNode" or m\.Class="CompositeNode"')),
    ("link_only_cp", re.compile(r'-\[:connects\]- \(n:Link \{GraphID: \$graphId\}\) WHERE o\.Class <> "ConnectionPoint" return count\(o\)=0')),
    ("card_two", re.compile(r'WHERE n\.Type = "Patch" or n\.Type="L2Path" or n\.Type="L2PTP" WITH collect\(size\(\[\(n\) -\[:connects\]- \(\)')),
    ("card_mirror", re.compile(r'WHERE n\.Type = "PortMirror" WITH collect\(size\(\[\(n\) -\[:connects\]- \(\)')),
    ("serviceport_one_peer", re.compile(r'where n\.Type = "ServicePort" WITH collect\(size\(\[\(n\) -\[:connects\]- \(:Link\) -\[:connects\]- \(:ConnectionPoint\)')),
]
EXPECTED_KINDS = ["has_props", "ids_distinct", "class_vocab", "type_vocab:NetworkNode", "type_vocab:Component",
                  "type_vocab:ConnectionPoint", "type_vocab:NetworkService", "type_vocab:Link", "component_owned",
                  "link_only_cp", "card_two", "card_mirror", "serviceport_one_peer"]


def _strlist(txt):
    items = [x.strip() for x in txt.split(",") if x.strip()]
    out = []
    for it in items:
        m = re.fullmatch(r'"([A-Za-z0-9]+)"', it)
        if not m:
            raise ExtractionError("rule vocabulary item not a plain string literal: %r" % it)
        out.append(m.group(1))
    return out


def read_rules():
    try:
        rules = json.loads(read_src(RULES))
    except ValueError as e:
        raise ExtractionError("%s is not JSON: %s" % (RULES, e))
    if not isinstance(rules, list):
        raise ExtractionError("rules file is not a list")
    kinds, classes, types = [], None, {}
    for r in rules:
        if not isinstance(r, dict) or set(r.keys()) != {"rule", "msg"}:
            raise ExtractionError("rule entry shape changed: %r" % (r,))
        txt = r["rule"].strip()
        m = CLASS_RULE.match(txt)
        if m:
            classes = _strlist(m.group(1))
            kinds.append("class_vocab")
            continue
        m = TYPE_RULE.match(txt)
        if m:
            types[m.group(1)] = _strlist(m.group(2))
            kinds.append("type_vocab:" + m.group(1))
            continue
        for k, rx in SHAPES:
            if rx.search(txt):
                kinds.append(k)
                break
        else:
            raise ExtractionError("unrecognised rule text: %s" % txt[:160])
    if sorted(kinds) != sorted(EXPECTED_KINDS):
        raise ExtractionError("the set of published rules changed: %s" % sorted(kinds))
    return {"kinds": kinds, "classes": classes, "types": types}


def read_enums():
    from fim.slivers.network_node import NodeType
    from fim.slivers.attached_components import ComponentType
    from fim.slivers.interface_info import InterfaceType
    from fim.slivers.network_service import ServiceType, NetworkServiceSliver
    from fim.slivers.network_link import LinkType, NetworkLinkSliver
    en = {"NetworkNode": [str(x) for x in NodeType], "Component": [str(x) for x in ComponentType],
          "ConnectionPoint": [str(x) for x in InterfaceType], "NetworkService": [str(x) for x in ServiceType],
          "Link": [str(x) for x in LinkType]}
    for k, v in en.items():
        for s in v:
            if not re.fullmatch(r"[A-Za-z0-9]+", s):
                raise ExtractionError("enum member of %s does not print as a plain name: %r" % (k, s))
    svc_layer = [(str(t), str(NetworkServiceSliver.ServiceConstraints[t].layer)) for t in ServiceType]
    link_layer = [(str(t), str(NetworkLinkSliver.LinkConstraints[t].layer)) for t in LinkType]
    return en, svc_layer, link_layer


def read_catalog():
    """Catalogue entries, with what `generate_component` derives from each (run on the real code):
    network-service suffix/type and, per interface, type and the extra graph properties."""
    from fim.slivers.component_catalog import ComponentCatalog
    from fim.slivers.attached_components import ComponentSliver
    from fim.graph.abc_property_graph import ABCPropertyGraph
    cat = json.loads(read_src(CATALOG))
    out = []
    for c in cat:
        if "Model" not in c or "Type" not in c or "Details" not in c:
            raise ExtractionError("catalogue entry without Model/Type/Details: %r" % (c,))
        ifs, suffix, nstype = [], "", ""
        if "Interfaces" in c:
            cs = ComponentCatalog().generate_component(name="XX", model=c["Model"], ctype=ComponentSliver.type_from_str(c["Type"]))
            nss = list(cs.network_service_info.network_services.values())
            if len(nss) != 1 or not nss[0].get_name().startswith("XX"):
                raise ExtractionError("generate_component shape changed for %s" % c["Model"])
            suffix, nstype = nss[0].get_name()[2:], str(nss[0].get_type())
            if str(nss[0].get_layer()) != "L2":
                raise ExtractionError("component network service layer is no longer L2")
            names = list(c["Interfaces"].keys())
            slivers = list(nss[0].interface_info.interfaces.values())
            if [x.get_name() for x in slivers] != ["XX-" + n for n in names]:
                raise ExtractionError("interface naming of generate_component changed for %s" % c["Model"])
            for n, isl in zip(names, slivers):
                d = ABCPropertyGraph.interface_sliver_to_graph_properties_dict(isl)
                for k in ("Name", "Type"):
                    d.pop(k)
                ifs.append((n, str(isl.get_type()), sorted(d.items())))
        out.append((c["Model"], c["Type"], list(c.get("AlsoModels", []) or []), ifs, "Interfaces" in c, c["Details"], suffix, nstype))
    return out


def probe_add_node():
    """Does add_node reject a NodeID that already exists under another class?"""
    import uuid
    from fim.graph.networkx_property_graph import NetworkXGraphImporter
    from fim.graph.slices.networkx_asm import NetworkxASM
    imp = NetworkXGraphImporter()
    g = NetworkxASM(graph_id="verif-probe-" + str(uuid.uuid4()), importer=imp)
    try:
        g.add_node(node_id="x", label="NetworkNode", props={"Name": "a", "Type": "VM"})
        try:
            g.add_node(node_id="x", label="Component", props={"Name": "b", "Type": "GPU"})
            any_class = False
        except Exception:
            any_class = True
        try:
            g.add_node(node_id="x", label="NetworkNode", props={"Name": "c", "Type": "VM"})
            raise ExtractionError("add_node accepts a duplicate (NodeID, Class)")
        except ExtractionError:
            raise
        except Exception:
            pass
    finally:
        try:
            imp.delete_graph(graph_id=g.graph_id)
        except Exception:
            pass
    return any_class


def _probe_stores():
    """(tag, importer) of both in-memory stores"""
    from fim.graph.networkx_property_graph import NetworkXGraphImporter
    from fim.graph.networkx_property_graph_disjoint import NetworkXGraphImporterDisjoint
    return [("shared", NetworkXGraphImporter()), ("disjoint", NetworkXGraphImporterDisjoint())]


def probe_update_whole():
    """Is update_node_properties one write for the whole dictionary - whatever the types of the values (the sliver setters of
    details / site / controller_url / ... let any value through) and wherever the unusual one sits?  True: every call either
    wrote all keys or raised with none written, on both stores."""
    import uuid
    from fim.graph.slices.networkx_asm import NetworkxASM
    whole = True
    for tag, imp in _probe_stores():
        g = NetworkxASM(graph_id="verif-probe-" + str(uuid.uuid4()), importer=imp)
        try:
            g.add_node(node_id="x", label="NetworkNode", props={"Name": "a", "Type": "VM"})
            k = 0
            for odd in (1234, 2.5, True, [1, 2], {"a": 1}, (1, 2), 0, [], None, ""):
                for pos in range(3):
                    k += 1
                    items = [("Capacities", "c%d" % k), ("Tags", "t%d" % k)]
                    items.insert(pos, ("Details", odd))
                    _, before = g.get_node_properties(node_id="x")
                    before = dict(before)
                    try:
                        g.update_node_properties(node_id="x", props=dict(items))
                        raised = False
                    except Exception:
                        raised = True
                    _, after = g.get_node_properties(node_id="x")
                    want = before if raised else dict(before, **dict(items))
                    if dict(after) != want:
                        whole = False
        finally:
            try:
                imp.delete_graph(graph_id=g.graph_id)
            except Exception:
                pass
    return whole


def probe_lookup_own_graph():
    """Are the lookups the building functions pre-check with (node_exists, get_node_properties, the node listing) confined to the
    graph they are asked about when another graph of the same store holds a node with the same NodeID and Class (a copy of the
    topology kept in the process)?"""
    import uuid
    from fim.graph.slices.networkx_asm import NetworkxASM
    own = True
    for tag, imp in _probe_stores():
        g1 = NetworkxASM(graph_id="verif-probe-" + str(uuid.uuid4()), importer=imp)
        g2 = NetworkxASM(graph_id="verif-probe-" + str(uuid.uuid4()), importer=imp)
        try:
            for cls, typ in (("NetworkNode", "VM"), ("ConnectionPoint", "TrunkPort"), ("Link", "L2Path")):
                g1.add_node(node_id="both-" + cls, label=cls, props={"Name": "a", "Type": typ})
                g2.add_node(node_id="both-" + cls, label=cls, props={"Name": "a", "Type": typ})
                g2.add_node(node_id="only2-" + cls, label=cls, props={"Name": "b", "Type": typ})
                if not g1.node_exists(node_id="both-" + cls, label=cls) or not g2.node_exists(node_id="only2-" + cls, label=cls):
                    raise ExtractionError("node_exists does not find a node of its own graph (%s store)" % tag)
                if g1.node_exists(node_id="only2-" + cls, label=cls):
                    own = False
                try:
                    g1.get_node_properties(node_id="only2-" + cls)
                    own = False
                except Exception:
                    pass
                try:
                    g1.update_node_properties(node_id="only2-" + cls, props={"Details": "x"})
                    own = False
                except Exception:
                    pass
            if sorted(g1.get_all_network_nodes()) != ["both-NetworkNode"] or sorted(g1.get_all_network_links()) != ["both-Link"]:
                own = False
            if "Details" in g2.get_node_properties(node_id="only2-Link")[1]:
                own = False
        finally:
            for g in (g1, g2):
                try:
                    imp.delete_graph(graph_id=g.graph_id)
                except Exception:
                    pass
    return own


def read_idioms():
    """Two control-flow facts of the user layer the model is parameterised by."""
    import ast
    # (1) which exceptions the rollback handler of NetworkService.__init__ selects
    tree, src = parse("fim/user/network_service.py")
    init = find_func(find_class(tree, "NetworkService"), "__init__")
    tries = [n for n in ast.walk(init) if isinstance(n, ast.Try)]
    if len(tries) != 1 or len(tries[0].handlers) != 1:
        raise ExtractionError("NetworkService.__init__: expected exactly one try/except (the rollback)")
    h = tries[0].handlers[0]
    calls = [n.func.attr for n in ast.walk(h) if isinstance(n, ast.Call) and isinstance(n.func, ast.Attribute)]
    if "disconnect_interface" not in calls or "remove_ns_with_cps_and_links" not in calls or \
            not isinstance(h.body[-1], ast.Raise):
        raise ExtractionError("rollback handler shape changed: %s" % calls)
    body_calls = [n.func.attr for st in tries[0].body for n in ast.walk(st) if isinstance(n, ast.Call) and isinstance(n.func, ast.Attribute)]
    if body_calls[:2] != ["__service_guardrails", "connect_interface"]:
        raise ExtractionError("rollback try body changed: %s" % body_calls)
    if h.type is None or (isinstance(h.type, ast.Name) and h.type.id in ("Exception", "BaseException")):
        catch_all = True
    elif isinstance(h.type, ast.Name) and h.type.id == "TopologyException":
        catch_all = False
    else:
        raise ExtractionError("rollback handler selects an unrecognised exception type")
    # (2) where add_facility initialises its interface index
    tree2, src2 = parse("fim/user/topology.py")
    fac = find_func(find_class(tree2, "Topology"), "add_facility")
    loops = [n for n in ast.walk(fac) if isinstance(n, ast.For)]
    if len(loops) != 1:
        raise ExtractionError("add_facility: expected one loop over interfaces")

    def is_reset(st):
        return (isinstance(st, ast.Assign) and len(st.targets) == 1 and isinstance(st.targets[0], ast.Name)
                and st.targets[0].id == "iindex" and isinstance(st.value, ast.Constant) and st.value.value == 0)
    inside = any(is_reset(st) for st in loops[0].body)
    anywhere = any(is_reset(st) for st in ast.walk(fac))
    uses = any(isinstance(n, ast.Name) and n.id == "iindex" for n in ast.walk(loops[0]))
    if not uses or not anywhere:
        raise ExtractionError("add_facility no longer derives interface ids from iindex")
    # (2b) does connect_interface validate the two derived names before it creates the ServicePort?
    conn = find_func(find_class(tree, "NetworkService"), "connect_interface")
    ccalls = sorted([n for n in ast.walk(conn) if isinstance(n, ast.Call)], key=lambda n: (n.lineno, n.col_offset))
    first_ctor = [i for i, n in enumerate(ccalls) if isinstance(n.func, ast.Name) and n.func.id == "Interface"]
    if not first_ctor:
        raise ExtractionError("connect_interface no longer constructs an Interface")
    pre = [n.func.value.func.id for n in ccalls[:first_ctor[0]]
           if isinstance(n.func, ast.Attribute) and n.func.attr == "set_name" and isinstance(n.func.value, ast.Call)
           and isinstance(n.func.value.func, ast.Name)]
    if pre == ["InterfaceSliver", "NetworkLinkSliver"]:
        conn_pre = True
    elif pre == []:
        conn_pre = False
    else:
        raise ExtractionError("connect_interface: unrecognised name pre-validation %s" % pre)
    # (3) do the composites remove the partial construct?  try: ... except Exception: remove_network_node...; raise
    comp_rb = []
    for fname in ("add_facility", "add_switch"):
        fn = find_func(find_class(tree2, "Topology"), fname)
        tr = [n for n in fn.body if isinstance(n, ast.Try)]
        if not tr:
            comp_rb.append(False)
            continue
        hs = tr[0].handlers
        ok = (len(tr) == 1 and len(hs) == 1 and (hs[0].type is None or (isinstance(hs[0].type, ast.Name) and hs[0].type.id == "Exception"))
              and isinstance(hs[0].body[-1], ast.Raise) and hs[0].body[-1].exc is None
              and "remove_network_node_with_components_nss_cps_and_links" in
              [n.func.attr for n in ast.walk(hs[0]) if isinstance(n, ast.Call) and isinstance(n.func, ast.Attribute)]
              and isinstance(fn.body[fn.body.index(tr[0]) - 1], ast.Assign))
        if not ok:
            raise ExtractionError("%s: unrecognised try/except shape" % fname)
        comp_rb.append(True)
    if comp_rb[0] != comp_rb[1]:
        raise ExtractionError("add_facility and add_switch differ in their rollback")
    # (4) validate-before-create in the two attach functions of the graph layer
    tree3, src3 = parse("fim/graph/abc_property_graph.py")
    pg = find_class(tree3, "ABCPropertyGraph")

    def call_order(fn):
        cs = [n for n in ast.walk(fn) if isinstance(n, ast.Call) and isinstance(n.func, ast.Attribute)
              and isinstance(n.func.value, ast.Name) and n.func.value.id == "self"]
        return [n.func.attr for n in sorted(cs, key=lambda n: (n.lineno, n.col_offset))]
    lk = call_order(find_func(pg, "add_network_link_sliver"))
    if "add_node" not in lk or "add_link" not in lk:
        raise ExtractionError("add_network_link_sliver shape changed: %s" % lk)
    link_pre = "node_exists" in lk and lk.index("node_exists") < lk.index("add_node")
    ik = call_order(find_func(pg, "add_interface_sliver"))
    if "add_node" not in ik or "add_link" not in ik:
        raise ExtractionError("add_interface_sliver shape changed: %s" % ik)
    if_pre = "get_node_properties" in ik and ik.index("get_node_properties") < ik.index("add_node")
    # (5) does NetworkService.peer remove the ServicePorts it created when a later step raises?
    #     try: <three creations> except Exception: for ...: remove_cp_and_links(...); raise
    peer_fn = find_func(find_class(tree, "NetworkService"), "peer")
    ptries = [n for n in ast.walk(peer_fn) if isinstance(n, ast.Try)]
    pcalls = [n.func.attr if isinstance(n.func, ast.Attribute) else getattr(n.func, "id", "?") for n in
              sorted([n for n in ast.walk(peer_fn) if isinstance(n, ast.Call)], key=lambda n: (n.lineno, n.col_offset))]
    if [c for c in pcalls if c in ("add_interface", "Link")] != ["add_interface", "add_interface", "Link"]:
        raise ExtractionError("peer: expected add_interface, add_interface, Link in this order: %s" % pcalls)
    if not ptries:
        peer_rb = False
    else:
        hs = ptries[0].handlers
        inner = [n.func.attr for st in ptries[0].body for n in ast.walk(st) if isinstance(n, ast.Call) and isinstance(n.func, ast.Attribute)]
        ok = (len(ptries) == 1 and len(hs) == 1 and (hs[0].type is None or (isinstance(hs[0].type, ast.Name) and hs[0].type.id == "Exception"))
              and isinstance(hs[0].body[-1], ast.Raise) and hs[0].body[-1].exc is None
              and "remove_cp_and_links" in [n.func.attr for n in ast.walk(hs[0]) if isinstance(n, ast.Call) and isinstance(n.func, ast.Attribute)]
              and inner.count("add_interface") == 2)
        if not ok:
            raise ExtractionError("peer: unrecognised try/except shape")
        peer_rb = True
    # (6) does Topology._disconnect_interfaces skip an interface that is no longer in the graph?
    di = find_func(find_class(tree2, "Topology"), "_disconnect_interfaces")
    inner = [n for n in ast.walk(di) if isinstance(n, ast.For)]
    if len(inner) != 2:
        raise ExtractionError("_disconnect_interfaces: expected two nested loops")
    body = [n for n in ast.walk(di) if isinstance(n, ast.For) and not any(isinstance(m, ast.For) for st in n.body for m in ast.walk(st))][0].body
    first = body[0]
    skips = (isinstance(first, ast.If) and isinstance(first.test, ast.UnaryOp) and isinstance(first.test.op, ast.Not)
             and isinstance(first.test.operand, ast.Call) and isinstance(first.test.operand.func, ast.Attribute)
             and first.test.operand.func.attr == "node_exists" and len(first.body) == 1 and isinstance(first.body[0], ast.Continue))
    dcalls = [n.func.attr for n in ast.walk(di) if isinstance(n, ast.Call) and isinstance(n.func, ast.Attribute)]
    if "get_peers" not in dcalls or "disconnect_interface" not in dcalls or (not skips and "node_exists" in dcalls):
        raise ExtractionError("_disconnect_interfaces: unrecognised shape %s" % dcalls)
    # (7) does add_component_sliver remove the partial component when a later step raises?
    #     add_node(<component>); try: add_link(parent, component); <nested services> except Exception: remove_component_...; raise
    ac = find_func(pg, "add_component_sliver")
    ac_order = call_order(ac)
    if "add_node" not in ac_order or "add_link" not in ac_order or "add_network_service_sliver" not in ac_order:
        raise ExtractionError("add_component_sliver shape changed: %s" % ac_order)
    atries = [n for n in ast.walk(ac) if isinstance(n, ast.Try)]
    if not atries:
        component_rb = False
    else:
        def self_calls(stmts):
            return [n.func.attr for st in stmts for n in ast.walk(st) if isinstance(n, ast.Call) and isinstance(n.func, ast.Attribute)
                    and isinstance(n.func.value, ast.Name) and n.func.value.id == "self"]
        tr = atries[0]
        hs = tr.handlers
        before = self_calls(ac.body[:ac.body.index(tr)]) if tr in ac.body else []
        inner = self_calls(tr.body)
        ok = (len(atries) == 1 and len(hs) == 1 and (hs[0].type is None or (isinstance(hs[0].type, ast.Name) and hs[0].type.id == "Exception"))
              and isinstance(hs[0].body[-1], ast.Raise) and hs[0].body[-1].exc is None
              and "remove_component_with_nss_cps_and_links" in self_calls(hs[0].body)
              and "add_node" in before and "add_node" not in inner and "add_link" in inner and "add_network_service_sliver" in inner)
        if not ok:
            raise ExtractionError("add_component_sliver: unrecognised try/except shape")
        component_rb = True
    return {"svcRollbackAll": catch_all, "facIndexReset": inside, "compositeRollback": comp_rb[0], "detachSkipsGone": skips,
            "linkPrecheck": link_pre, "ifaceParentPrecheck": if_pre, "connectNamePrecheck": conn_pre, "peerRollback": peer_rb,
            "componentRollback": component_rb,
            "spans": {"NetworkService.__init__": span_hash(src, init), "Topology.add_facility": span_hash(src2, fac)}}


NAME_RX = re.compile(r'^\^\[\\w((?:\\.|[^\]\\])*)\]\{(\d+),(\d+)\}\$$')


def read_name_rules():
    """NAME_REGEX of every sliver class, of the shape ^[\\w<extra chars>]{m,n}$ (checked with re.fullmatch by set_name)."""
    import ast
    from fim.slivers.network_node import NodeSliver
    from fim.slivers.attached_components import ComponentSliver
    from fim.slivers.network_service import NetworkServiceSliver
    from fim.slivers.interface_info import InterfaceSliver
    from fim.slivers.network_link import NetworkLinkSliver
    out = []
    for cname, cls in (("NetworkNode", NodeSliver), ("Component", ComponentSliver), ("NetworkService", NetworkServiceSliver),
                       ("ConnectionPoint", InterfaceSliver), ("Link", NetworkLinkSliver)):
        rx = cls.NAME_REGEX
        m = NAME_RX.match(rx)
        if not m:
            raise ExtractionError("NAME_REGEX of %s has an unrecognised shape: %r" % (cls.__name__, rx))
        extra, i, body = [], 0, m.group(1)
        while i < len(body):
            if body[i] == "\\":
                if body[i + 1] in "wdsWDSbB":
                    raise ExtractionError("class escape inside NAME_REGEX of %s" % cls.__name__)
                extra.append(body[i + 1])
                i += 2
            else:
                extra.append(body[i])
                i += 1
        out.append((cname, "".join(sorted(set(extra))), int(m.group(2)), int(m.group(3))))
    tree, src = parse("fim/slivers/base_sliver.py")
    fn = find_func(find_class(tree, "BaseSliver"), "set_name")
    calls = [n.func.attr for n in ast.walk(fn) if isinstance(n, ast.Call) and isinstance(n.func, ast.Attribute)]
    if "fullmatch" not in calls:
        raise ExtractionError("BaseSliver.set_name no longer uses re.fullmatch (anchoring changed): %s" % calls)
    return out


def generate():
    rules = read_rules()
    name_rules = read_name_rules()
    idioms = read_idioms()
    en, svc_layer, link_layer = read_enums()
    cat = read_catalog()
    any_class = probe_add_node()
    update_whole = probe_update_whole()
    lookup_own = probe_lookup_own_graph()
    from fim.graph.abc_property_graph import ABCPropertyGraph
    no_unset = list(ABCPropertyGraph.NO_UNSET_PROPERTIES)
    order = ["NetworkNode", "Component", "ConnectionPoint", "NetworkService", "Link"]
    for k in order:
        if k not in rules["types"]:
            raise ExtractionError("no Type vocabulary rule for class %s" % k)
    L = lambda xs: lean_list([lean_str(x) for x in xs])
    body = []
    body.append("/-- `r.Class IN [...]` of the published rules -/")
    body.append("def classVocab : List String := %s\n" % L(rules["classes"]))
    body.append("/-- per class: `r.Type IN [...]` of the published rules -/")
    body.append("def typeVocab : List (String × List String) := [\n  " +
                ",\n  ".join("(%s, %s)" % (lean_str(k), L(rules["types"][k])) for k in order) + "]\n")
    body.append("/-- per class: `str(member)` of the API's enum (NodeType, ComponentType, InterfaceType, ServiceType, LinkType) -/")
    body.append("def enumMembers : List (String × List String) := [\n  " +
                ",\n  ".join("(%s, %s)" % (lean_str(k), L(en[k])) for k in order) + "]\n")
    body.append("/-- kinds of the published rules in file order (pinned; a new or reworded rule is an extraction failure) -/")
    body.append("def ruleKinds : List String := %s\n" % L(rules["kinds"]))
    body.append("def svcLayer : List (String × String) := %s\n" % lean_list("(%s, %s)" % (lean_str(a), lean_str(b)) for a, b in svc_layer))
    body.append("def linkLayer : List (String × String) := %s\n" % lean_list("(%s, %s)" % (lean_str(a), lean_str(b)) for a, b in link_layer))
    body.append("/-- interface of a catalogue component: port name, interface Type, extra graph properties -/")
    body.append("structure CatIface where\n  port : String\n  itype : String\n  props : List (String × String)\n")
    body.append("structure CatEntry where\n  model : String\n  ctype : String\n  also : List String\n  ifaces : List CatIface\n"
                "  hasIfaces : Bool\n  details : String\n  nsSuffix : String\n  nsType : String\n")
    P = lambda kv: lean_list("(%s, %s)" % (lean_str(k), lean_str(v)) for k, v in kv)
    body.append("def catalog : List CatEntry := [\n  " + ",\n  ".join(
        "⟨%s, %s, %s, %s, %s, %s, %s, %s⟩" % (lean_str(m), lean_str(t), L(a),
                                          lean_list("⟨%s, %s, %s⟩" % (lean_str(n), lean_str(it), P(pr)) for n, it, pr in i),
                                          "true" if h else "false", lean_str(d), lean_str(sf), lean_str(nt))
        for m, t, a, i, h, d, sf, nt in cat) + "]\n")
    body.append("def noUnset : List String := %s\n" % L(no_unset))
    body.append("/-- behaviour probe: `add_node` rejects an existing NodeID whatever its class -/")
    body.append("def idAnyClass : Bool := %s\n" % ("true" if any_class else "false"))
    body.append("/-- behaviour probe (both in-memory stores): `update_node_properties` writes the whole dictionary or nothing, whatever the "
                "types of the values and wherever the unusual one sits -/")
    body.append("def updateWhole : Bool := %s\n" % ("true" if update_whole else "false"))
    body.append("/-- behaviour probe (both in-memory stores): node_exists / get_node_properties / update_node_properties / the node listings "
                "see the nodes of their own graph only when another graph of the store holds the same NodeID and Class -/")
    body.append("def lookupOwnGraph : Bool := %s\n" % ("true" if lookup_own else "false"))
    body.append("/-- per class: NAME_REGEX = ^[\\w<extra>]{lo,hi}$ as (class, extra characters, lo, hi) -/")
    body.append("def nameRules : List (String × String × Nat × Nat) := %s\n" % lean_list(
        "(%s, %s, %d, %d)" % (lean_str(c), lean_str(x), lo, hi) for c, x, lo, hi in name_rules))
    body.append("/-- `except` clause of the rollback in `NetworkService.__init__` selects every exception (not only TopologyException) -/")
    body.append("def svcRollbackAll : Bool := %s\n" % ("true" if idioms["svcRollbackAll"] else "false"))
    body.append("/-- `add_facility` resets `iindex = 0` inside its interface loop -/")
    body.append("def facIndexReset : Bool := %s\n" % ("true" if idioms["facIndexReset"] else "false"))
    body.append("/-- `add_facility` / `add_switch` remove the partial construct and re-raise when a later step raises -/")
    body.append("def compositeRollback : Bool := %s\n" % ("true" if idioms["compositeRollback"] else "false"))
    body.append("/-- `add_network_link_sliver` checks every endpoint is an existing ConnectionPoint before creating the Link -/")
    body.append("def linkPrecheck : Bool := %s\n" % ("true" if idioms["linkPrecheck"] else "false"))
    body.append("/-- `add_interface_sliver` checks the parent exists before creating the ConnectionPoint -/")
    body.append("def ifaceParentPrecheck : Bool := %s\n" % ("true" if idioms["ifaceParentPrecheck"] else "false"))
    body.append("/-- `connect_interface` validates the ServicePort name and the link name before creating the port -/")
    body.append("def connectNamePrecheck : Bool := %s\n" % ("true" if idioms["connectNamePrecheck"] else "false"))
    body.append("/-- `Topology._disconnect_interfaces` skips an interface that is no longer in the graph -/")
    body.append("def detachSkipsGone : Bool := %s\n" % ("true" if idioms["detachSkipsGone"] else "false"))
    body.append("/-- `NetworkService.peer` removes the ServicePorts it created when a later step raises -/")
    body.append("def peerRollback : Bool := %s\n" % ("true" if idioms["peerRollback"] else "false"))
    body.append("/-- `add_component_sliver` removes the partial component (node, service, interfaces created so far) when a later step raises -/")
    body.append("def componentRollback : Bool := %s\n" % ("true" if idioms["componentRollback"] else "false"))
    changed = emit("Rules", "\n".join(body))
    missing = {k: [m for m in en[k] if m not in rules["types"][k]] for k in order}
    return {"changed": changed, "rules": len(rules["kinds"]), "classes": rules["classes"],
            "vocab_sizes": {k: len(rules["types"][k]) for k in order},
            "enum_members_outside_vocab": {k: v for k, v in missing.items() if v},
            "catalog_entries": len(cat), "add_node_rejects_any_class": any_class,
            "update_node_properties_whole": update_whole, "lookups_confined_to_own_graph": lookup_own, "idioms": idioms,
            "src_sha": {RULES: sha(read_src(RULES)), CATALOG: sha(read_src(CATALOG))}}


from core import sha  # noqa: E402
