"""Translate the fieldwise operators of fim.slivers.capacities_labels.Capacities into Lean.

Recognised idiom (anything else is an ExtractionError):
  arithmetic:  assert isinstance(other, Capacities); ret = Capacities();
               for f, v in self.__dict__.items(): ret.__dict__[f] = <E(self.__dict__[f], other.__dict__[f])>; return ret
  comparison:  [if not other: return False;] assert ...; for f, v in self.__dict__.items(): if <C(v, other.__dict__[f] | other.__dict__.get(f, 0))>: return False; return True
  negative_fields: ret = list(); for f, v in self.__dict__.items(): if <C(v)>: ret.append(f); return ret
  positive_fields: ...; for f in fields: if <C(self.__dict__[f])>: return False; return True
  FreeCapacity.__init__: self.free = <E(total, allocated)>
"""
import ast
from .common import *

REL = "fim/slivers/capacities_labels.py"


def _is_dict_of(node, who):
    # who.__dict__[f]
    return (isinstance(node, ast.Subscript) and isinstance(node.value, ast.Attribute) and node.value.attr == "__dict__"
            and isinstance(node.value.value, ast.Name) and node.value.value.id == who
            and isinstance(node.slice, ast.Name) and node.slice.id == "f")


def _is_dict_get(node, who):
    # who.__dict__.get(f, 0)
    return (isinstance(node, ast.Call) and isinstance(node.func, ast.Attribute) and node.func.attr == "get"
            and isinstance(node.func.value, ast.Attribute) and node.func.value.attr == "__dict__"
            and isinstance(node.func.value.value, ast.Name) and node.func.value.value.id == who
            and len(node.args) == 2 and isinstance(node.args[0], ast.Name) and node.args[0].id == "f"
            and isinstance(node.args[1], ast.Constant) and node.args[1].value == 0)


def expr(node, env):
    """Python int expression -> Lean Int expression over variables a (self side) and b (other side)."""
    for name, test in env:
        if test(node):
            return name
    if isinstance(node, ast.Constant) and isinstance(node.value, int) and not isinstance(node.value, bool):
        return "(%d : Int)" % node.value
    if isinstance(node, ast.BinOp) and type(node.op) in (ast.Add, ast.Sub, ast.Mult):
        op = {ast.Add: "+", ast.Sub: "-", ast.Mult: "*"}[type(node.op)]
        return "(%s %s %s)" % (expr(node.left, env), op, expr(node.right, env))
    if isinstance(node, ast.UnaryOp) and isinstance(node.op, ast.USub):
        return "(- %s)" % expr(node.operand, env)
    raise ExtractionError("unrecognised arithmetic expression: %s" % ast.dump(node)[:200])


def cond(node, env):
    if isinstance(node, ast.Compare) and len(node.ops) == 1:
        op = {ast.Lt: "<", ast.Gt: ">", ast.LtE: "≤", ast.GtE: "≥", ast.Eq: "=", ast.NotEq: "≠"}.get(type(node.ops[0]))
        if op is None:
            raise ExtractionError("unrecognised comparison operator")
        return "decide (%s %s %s)" % (expr(node.left, env), op, expr(node.comparators[0], env))
    if isinstance(node, ast.BoolOp):
        j = " && " if isinstance(node.op, ast.And) else " || "
        return "(" + j.join(cond(v, env) for v in node.values) + ")"
    if isinstance(node, ast.UnaryOp) and isinstance(node.op, ast.Not):
        return "(!%s)" % cond(node.operand, env)
    raise ExtractionError("unrecognised condition: %s" % ast.dump(node)[:200])


def _loop_over_self_dict(st):
    return (isinstance(st, ast.For) and isinstance(st.target, ast.Tuple) and [e.id for e in st.target.elts] == ["f", "v"]
            and isinstance(st.iter, ast.Call) and isinstance(st.iter.func, ast.Attribute) and st.iter.func.attr == "items"
            and isinstance(st.iter.func.value, ast.Attribute) and st.iter.func.value.attr == "__dict__"
            and isinstance(st.iter.func.value.value, ast.Name) and st.iter.func.value.value.id == "self" and not st.orelse)


def _is_assert_isinstance(st):
    return isinstance(st, ast.Assert) and isinstance(st.test, ast.Call) and getattr(st.test.func, "id", "") == "isinstance"


def _ret_const(st, val):
    return isinstance(st, ast.Return) and isinstance(st.value, ast.Constant) and st.value.value is val


ENV2 = [("a", lambda n: _is_dict_of(n, "self") or (isinstance(n, ast.Name) and n.id == "v")),
        ("b", lambda n: _is_dict_of(n, "other") or _is_dict_get(n, "other"))]


def arith(fn):
    body = strip_doc(fn.body)
    body = [s for s in body if not _is_assert_isinstance(s)]
    if len(body) != 3:
        raise ExtractionError("%s: expected ret=Capacities(); for; return ret" % fn.name)
    a, loop, r = body
    if not (isinstance(a, ast.Assign) and isinstance(a.value, ast.Call) and getattr(a.value.func, "id", "") == "Capacities"
            and not a.value.args and not a.value.keywords and a.targets[0].id == "ret"):
        raise ExtractionError("%s: first statement is not ret = Capacities()" % fn.name)
    if not _loop_over_self_dict(loop) or len(loop.body) != 1:
        raise ExtractionError("%s: loop shape" % fn.name)
    st = loop.body[0]
    if not (isinstance(st, ast.Assign) and len(st.targets) == 1 and _is_dict_of(st.targets[0], "ret")):
        raise ExtractionError("%s: loop body is not ret.__dict__[f] = ..." % fn.name)
    if not (isinstance(r, ast.Return) and isinstance(r.value, ast.Name) and r.value.id == "ret"):
        raise ExtractionError("%s: does not return ret" % fn.name)
    return expr(st.value, ENV2)


def compare(fn, allow_not_other=False):
    body = strip_doc(fn.body)
    pre = []
    if allow_not_other and body and isinstance(body[0], ast.If) and isinstance(body[0].test, ast.UnaryOp) \
            and isinstance(body[0].test.op, ast.Not) and getattr(body[0].test.operand, "id", "") == "other" \
            and len(body[0].body) == 1 and _ret_const(body[0].body[0], False) and not body[0].orelse:
        body = body[1:]
    body = [s for s in body if not _is_assert_isinstance(s)]
    if len(body) != 2 or not _loop_over_self_dict(body[0]) or not _ret_const(body[1], True):
        raise ExtractionError("%s: expected for-loop then return True" % fn.name)
    inner = [s for s in body[0].body if not (isinstance(s, ast.Expr) and isinstance(s.value, ast.Constant))]
    if len(inner) != 1 or not isinstance(inner[0], ast.If) or inner[0].orelse or len(inner[0].body) != 1 \
            or not _ret_const(inner[0].body[0], False):
        raise ExtractionError("%s: loop body is not `if C: return False`" % fn.name)
    return cond(inner[0].test, ENV2)


def negative_fields(fn):
    body = strip_doc(fn.body)
    if len(body) != 3 or not _loop_over_self_dict(body[1]):
        raise ExtractionError("negative_fields: shape")
    st = body[1].body
    if len(st) != 1 or not isinstance(st[0], ast.If) or st[0].orelse or len(st[0].body) != 1:
        raise ExtractionError("negative_fields: loop body")
    app = st[0].body[0]
    if not (isinstance(app, ast.Expr) and isinstance(app.value, ast.Call) and getattr(app.value.func, "attr", "") == "append"
            and getattr(app.value.func.value, "id", "") == "ret" and getattr(app.value.args[0], "id", "") == "f"):
        raise ExtractionError("negative_fields: does not append f to ret")
    if not (isinstance(body[2], ast.Return) and getattr(body[2].value, "id", "") == "ret"):
        raise ExtractionError("negative_fields: return")
    return cond(st[0].test, ENV2)


def positive_fields(fn):
    body = strip_doc(fn.body)
    loops = [s for s in body if isinstance(s, ast.For)]
    if len(loops) != 1 or not _ret_const(body[-1], True):
        raise ExtractionError("positive_fields: shape")
    lp = loops[0]
    if not (isinstance(lp.target, ast.Name) and lp.target.id == "f" and getattr(lp.iter, "id", "") == "fields"):
        raise ExtractionError("positive_fields: loop header")
    st = lp.body
    if len(st) != 1 or not isinstance(st[0], ast.If) or not _ret_const(st[0].body[0], False):
        raise ExtractionError("positive_fields: loop body")
    return cond(st[0].test, ENV2)


def free_capacity(cls):
    fn = find_func(cls, "__init__")
    free = None
    for st in ast.walk(fn):
        if isinstance(st, ast.Assign) and isinstance(st.targets[0], ast.Attribute) and st.targets[0].attr == "free":
            free = st.value
    if free is None:
        raise ExtractionError("FreeCapacity.__init__: no self.free assignment")
    # total - allocated uses Capacities.__sub__/__add__: express through the generated field operators
    def e(n):
        if isinstance(n, ast.Name) and n.id == "total":
            return "a"
        if isinstance(n, ast.Name) and n.id == "allocated":
            return "b"
        if isinstance(n, ast.BinOp) and isinstance(n.op, ast.Sub):
            return "(subOp %s %s)" % (e(n.left), e(n.right))
        if isinstance(n, ast.BinOp) and isinstance(n.op, ast.Add):
            return "(addOp %s %s)" % (e(n.left), e(n.right))
        raise ExtractionError("FreeCapacity: unrecognised free expression")
    return e(free)


def generate():
    tree, src = parse(REL)
    cap = find_class(tree, "Capacities")
    # field list and defaults from the running class
    import fim.slivers.capacities_labels as cl
    inst = cl.Capacities()
    fields = list(inst.__dict__.keys())
    if any(v != 0 for v in inst.__dict__.values()):
        raise ExtractionError("Capacities default is not all-zero: %r" % inst.__dict__)
    units = cl.Capacities.UNITS
    if set(units) != set(fields):
        raise ExtractionError("UNITS keys differ from fields")
    ops = {
        "addOp": ("Int", arith(find_func(cap, "__add__"))),
        "subOp": ("Int", arith(find_func(cap, "__sub__"))),
        "gtFail": ("Bool", compare(find_func(cap, "__gt__"))),
        "ltFail": ("Bool", compare(find_func(cap, "__lt__"))),
        "eqFail": ("Bool", compare(find_func(cap, "__eq__"), allow_not_other=True)),
        "negField": ("Bool", negative_fields(find_func(cap, "negative_fields"))),
        "posFail": ("Bool", positive_fields(find_func(cap, "positive_fields"))),
    }
    # every method the two classes define (own + inherited from JSONField): the model of augmented assignment
    # (`a += b` rebinds to a new object unless an in-place operator exists) depends on this list
    methods = sorted({n.name for n in cap.body if isinstance(n, ast.FunctionDef)} |
                     {n.name for n in find_class(tree, "JSONField").body if isinstance(n, ast.FunctionDef)})
    known = {"__init__", "_set_fields", "__add__", "__sub__", "__gt__", "__lt__", "__eq__", "negative_fields", "positive_fields",
             "__str__", "update", "to_json", "from_json", "to_dict", "__repr__", "list_fields"}
    extra = [m for m in methods if m not in known]
    body = "def fields : List String := %s\n\n" % lean_list([lean_str(f) for f in fields])
    body += "/-- methods defined on Capacities or inherited from JSONField -/\ndef methods : List String := %s\n\n" % lean_list([lean_str(m) for m in methods])
    body += "def units : List (String × String) := %s\n\n" % lean_list(["(%s, %s)" % (lean_str(f), lean_str(units[f])) for f in fields])
    for name, (ty, e) in ops.items():
        args = "(a : Int)" if name in ("negField", "posFail") else "(a b : Int)"
        body += "def %s %s : %s := %s\n\n" % (name, args, ty, e)
    body += "/-- FreeCapacity.__init__: free field as a function of total (a) and allocated (b). -/\n"
    body += "def freeOp (a b : Int) : Int := %s\n" % free_capacity(find_class(tree, "FreeCapacity"))
    changed = emit("CapOps", body)
    return {"fields": fields, "methods": methods, "methods_not_modelled": extra, "ops": {k: v[1] for k, v in ops.items()}, "changed": changed,
            "span": span_hash(src, cap)}
