"""Translate the fieldwise operators of fim.slivers.capacities_labels.Capacities into Lean (Generated/CapOps.lean).

The operators are *executed symbolically* (gen/symexec.py) instead of being matched against a loop shape, so a helper
function, a comprehension, `all()`/`any()`, renamed locals or `operator.add` give the same output as the explicit loops:

  arithmetic (`__add__`, `__sub__`, `FreeCapacity(total=, allocated=).free`):
      run on operands whose every field is a distinct symbol; there must be no data-dependent decision, no exception, the
      result must be a NEW Capacities with exactly the class's fields, both operands must hold the very same objects afterwards,
      and every result field f must be the same expression E(self.f, other.f)  ->  `def addOp (a b : Int) : Int := E`
  comparison (`__gt__`, `__lt__`, `__eq__`, `positive_fields`):
      the set of execution paths must be exactly "look at the fields in order, answer False at the first field whose
      condition C(self.f, other.f) holds, True after the last"                ->  `def gtFail (a b : Int) : Bool := decide C`
  `negative_fields`: the 2^n paths must be "the list of the fields, in order, whose C(self.f) holds" -> `negField`

Afterwards the extracted operators are replayed on concrete integers (unit vectors and dense vectors over a basis with
negative, zero and huge values) against the real methods; a difference (code that treats a real int differently from what the
symbolic run saw) is an ExtractionError, as is everything above that does not hold.  A light AST check rejects code in the class
that inspects `type()`/`id()` of values.

The list of special methods (`__x__`) is read from the running class (whole MRO below `object`), so operators added by a
decorator, an assignment in the class body or a mixin are seen as well.
"""
import ast
import itertools

from .common import *
from . import symexec as sx
from .symexec import Sym

REL = "fim/slivers/capacities_labels.py"

BASIS = [-(10 ** 30), -(2 ** 63) - 1, -7, -1, 0, 1, 2, 9, 2 ** 31, 2 ** 63, 2 ** 64 + 1, 10 ** 30]


def _module():
    import fim.slivers.capacities_labels as cl
    return cl


def _fresh(cl, side, fields):
    c = cl.Capacities()
    if list(c.__dict__.keys()) != fields:
        raise ExtractionError("Capacities() does not always have the same fields")
    for f in fields:
        c.__dict__[f] = Sym(("var", side, f))
    return c


def _snapshot(c):
    return [(k, id(v)) for k, v in c.__dict__.items()]


class _Run:
    """One symbolic call: fresh operands per path, operands checked for modification after the call."""

    def __init__(self, cl, fields, call, what, unary=False):
        self.cl, self.fields, self.call, self.what, self.unary = cl, fields, call, what, unary

    def __call__(self):
        A = _fresh(self.cl, "a", self.fields)
        B = None if self.unary else _fresh(self.cl, "b", self.fields)
        snap = (_snapshot(A), None if B is None else _snapshot(B))
        keep = (list(A.__dict__.values()), None if B is None else list(B.__dict__.values()))   # keep ids alive
        try:
            r = self.call(A, B)
            if isinstance(r, sx.SymBool):
                r = bool(r)
        finally:
            after = (_snapshot(A), None if B is None else _snapshot(B))
        if after != snap:
            raise ExtractionError("%s modifies an operand" % self.what)
        del keep
        return r, A, B


def _paths(cl, fields, call, what, unary=False, max_paths=4096):
    paths = sx.explore(_Run(cl, fields, call, what, unary), max_paths)
    for trace, res in paths:
        if res[0] == "raise":
            e = res[1]
            raise ExtractionError("%s raises %s on the path %s" % (
                what, type(e).__name__, " and ".join(sx.show(sx.true_form(c, o)) for c, o in trace) or "(unconditionally)"))
    return [(trace, res[1]) for trace, res in paths]


def _per_field(e, f, what):
    """rename self.f -> a, other.f -> b; any other field is a cross-field dependency"""
    def ren(v):
        if v[2] != f:
            raise ExtractionError("%s: field %s depends on field %s" % (what, f, v[2]))
        return ("var", v[1], "")
    return sx.rename(e, ren)


def _uniform(exprs, what):
    first = exprs[0][1]
    for f, e in exprs:
        if e != first:
            raise ExtractionError("%s is not the same operation in every field: %s gives %s, %s gives %s" % (
                what, exprs[0][0], sx.show(first), f, sx.show(e)))
    return first


def _result_fields(ret, A, B, cl, fields, what):
    if type(ret) is not cl.Capacities:
        raise ExtractionError("%s does not return a Capacities (%s)" % (what, type(ret).__name__))
    if ret is A or ret is B:
        raise ExtractionError("%s returns one of its operands instead of a new object" % what)
    if list(ret.__dict__.keys()) != fields:
        raise ExtractionError("%s: result has fields %s" % (what, list(ret.__dict__.keys())))
    out = []
    for f in fields:
        v = ret.__dict__[f]
        if isinstance(v, Sym):
            e = v.e
        elif type(v) is int and abs(v) < 2 ** 32:
            e = ("const", v)
        else:
            raise ExtractionError("%s: field %s of the result is %r - the code left integer arithmetic" % (what, f, type(v).__name__))
        out.append((f, _per_field(e, f, what)))
    return out


def arith(cl, fields, call, what):
    paths = _paths(cl, fields, call, what)
    if len(paths) != 1 or paths[0][0]:
        raise ExtractionError("%s depends on a comparison of its operands' values: %s" % (
            what, "; ".join(sx.show(c) for c, _ in paths[0][0][:3])))
    ret, A, B = paths[0][1]
    return _uniform(_result_fields(ret, A, B, cl, fields, what), what)


def first_fail(cl, fields, call, what, order=None, unary=False):
    """paths must be: fields in `order`; False at the first field whose fail condition holds; True at the end.
    Returns the fail condition as a condition over a (self side) and b (other side)."""
    order = fields if order is None else order
    paths = _paths(cl, fields, call, what, unary)
    good = [(t, r) for t, r in paths if r[0] is True]
    if len(good) != 1:
        raise ExtractionError("%s: %d execution paths answer True (expected exactly one: no field fails)" % (what, len(good)))
    spine = good[0][0]
    if len(spine) != len(order):
        raise ExtractionError("%s: the True answer looks at %d conditions for %d fields" % (what, len(spine), len(order)))
    fails = []
    for (c, o), f in zip(spine, order):
        fails.append((f, _per_field(sx.true_form(c, not o), f, what)))
    want = {}
    for k in range(len(order)):
        want[tuple(spine[:k]) + ((spine[k][0], not spine[k][1]),)] = False
    want[tuple(spine)] = True
    got = {}
    for t, r in paths:
        if type(r[0]) is not bool:
            raise ExtractionError("%s answers %r" % (what, type(r[0]).__name__))
        got[tuple(t)] = r[0]
    if got != want:
        raise ExtractionError("%s is not `False at the first failing field, True otherwise` (%d paths)" % (what, len(paths)))
    return fails


def neg_fields(cl, fields, what="negative_fields"):
    n = len(fields)
    if n > 11:
        raise ExtractionError("too many fields to enumerate negative_fields")
    paths = _paths(cl, fields, lambda A, B: A.negative_fields(), what, unary=True, max_paths=2 ** n + 1)
    empty = [(t, r) for t, r in paths if r[0] == []]
    if len(empty) != 1 or len(empty[0][0]) != n or len(paths) != 2 ** n:
        raise ExtractionError("%s: not one independent decision per field (%d paths)" % (what, len(paths)))
    spine = empty[0][0]
    conds = [(f, _per_field(sx.true_form(c, not o), f, what)) for (c, o), f in zip(spine, fields)]
    for t, r in paths:
        if [c for c, _ in t] != [c for c, _ in spine]:
            raise ExtractionError("%s: decisions differ between paths" % what)
        want = [f for (c, o), (_, so), f in zip(t, spine, fields) if o != so]
        if type(r[0]) is not list or r[0] != want:
            raise ExtractionError("%s does not return exactly the fields whose condition holds, in field order" % what)
    return _uniform(conds, what)


def probe_aug(cl, fields, expr, which):
    """`acc = A; acc += B` (or -=): does the name get a NEW object (A untouched), or is A changed in place?"""
    def run():
        A, B = _fresh(cl, "a", fields), _fresh(cl, "b", fields)
        before = (dict(A.__dict__), _snapshot(A), _snapshot(B))
        acc = A
        if which == "iadd":
            acc += B
        else:
            acc -= B
        return acc, A, B, before
    paths = sx.explore(run, 64)
    if len(paths) != 1 or paths[0][0] or paths[0][1][0] != "ok":
        raise ExtractionError("augmented %s on capacities branches on values or raises" % which)
    acc, A, B, (a_vals, a_snap, b_snap) = paths[0][1][1]
    if _snapshot(B) != b_snap:
        raise ExtractionError("augmented %s modifies its right operand" % which)
    got = _uniform(_result_fields(acc, None, B, cl, fields, "augmented " + which), "augmented " + which)
    if got != expr:
        raise ExtractionError("augmented %s computes %s, the binary operator %s" % (which, sx.show(got), sx.show(expr)))
    if acc is A:
        return True
    if _snapshot(A) != a_snap:
        raise ExtractionError("augmented %s rebinds the name AND modifies the old object" % which)
    return False


# ------------------------------------------------------------------------------------------------------------------
# concrete replay of what was extracted

def _mk(cl, fields, vals):
    c = cl.Capacities()
    for f, v in zip(fields, vals):
        c.__dict__[f] = v
    return c


def _concrete_vectors(n):
    out = []
    for i in range(n):
        for x in BASIS:
            for y in BASIS:
                a = [0] * n
                b = [0] * n
                a[i], b[i] = x, y
                out.append((a, b))
    m = len(BASIS)
    for s in range(m):
        for t in (0, 1, 5, 7):
            out.append(([BASIS[(s + i) % m] for i in range(n)], [BASIS[(s + t + 3 * i) % m] for i in range(n)]))
    return out


def _replay(cl, fields, ops, free_e):
    n = len(fields)

    def ev(e, x, y):
        return sx.evaluate(e, {("a", ""): x, ("b", ""): y})
    for a, b in _concrete_vectors(n):
        A, B = _mk(cl, fields, a), _mk(cl, fields, b)
        checks = [
            ("__add__", lambda: list((A + B).__dict__.values()), [ev(ops["addOp"], x, y) for x, y in zip(a, b)]),
            ("__sub__", lambda: list((A - B).__dict__.values()), [ev(ops["subOp"], x, y) for x, y in zip(a, b)]),
            ("FreeCapacity", lambda: list(cl.FreeCapacity(total=A, allocated=B).free.__dict__.values()), [ev(free_e, x, y) for x, y in zip(a, b)]),
            ("__gt__", lambda: A > B, not any(ev(ops["gtFail"], x, y) for x, y in zip(a, b))),
            ("__lt__", lambda: A < B, not any(ev(ops["ltFail"], x, y) for x, y in zip(a, b))),
            ("__eq__", lambda: A == B, not any(ev(ops["eqFail"], x, y) for x, y in zip(a, b))),
            ("negative_fields", lambda: A.negative_fields(), [f for f, x in zip(fields, a) if ev(ops["negField"], x, 0)]),
            ("positive_fields", lambda: A.positive_fields(fields), not any(ev(ops["posFail"], x, 0) for x in a)),
        ]
        for name, run, want in checks:
            try:
                got = run()
            except Exception as e:
                raise ExtractionError("%s raises %s on concrete operands %s %s" % (name, type(e).__name__, a, b))
            if got != want or type(got) is not type(want):
                raise ExtractionError("%s on concrete operands %s %s gives %r, the symbolic run predicts %r" % (name, a, b, got, want))
        if list(A.__dict__.values()) != a or list(B.__dict__.values()) != b:
            raise ExtractionError("an operator modified the concrete operands %s %s" % (a, b))


# ------------------------------------------------------------------------------------------------------------------
# objects that lack fields (what unpickling returns for an object stored by a release that predates a field)

def legacy(cl, fields, vals, present):
    """a Capacities whose __dict__ holds only the fields flagged in `present` (unpickling restores __dict__, no __init__)"""
    import pickle
    o = cl.Capacities.__new__(cl.Capacities)
    o.__dict__.update({f: v for f, v, p in zip(fields, vals, present) if p})
    return pickle.loads(pickle.dumps(o))


def probe_eq_missing(cl, fields):
    """How does `a == b` read a field of b that b does not carry?  Behavioural: a (complete) holds v in the field, b lacks it, every
    other field equal.  The set of v for which the answer is True must be {d} (-> `some d`: the field reads as d) or empty
    (-> `none`: it reads as something no int equals).  Also pinned: fields both carry are still compared, and the loop runs over
    the LEFT operand's own fields only (a field only the right operand carries is not looked at)."""
    n = len(fields)
    drops = [[i] for i in range(n)] + [[n - 2, n - 1], [0, 2], list(range(1, n))]
    probes = sorted(set(BASIS + [3, -2]))
    answers = []
    for drop in drops:
        present = [i not in drop for i in range(n)]
        eq_at = []
        for v in probes:
            a = [v if i in drop else 5 for i in range(n)]
            try:
                A, B = _mk(cl, fields, a), legacy(cl, fields, [5] * n, present)
                r = A == B
                # a field both carry still decides
                if any(present):
                    k = present.index(True)
                    a2 = list(a)
                    a2[k] = 6
                    if (_mk(cl, fields, a2) == legacy(cl, fields, [5] * n, present)) is not False:
                        raise ExtractionError("__eq__ ignores field %s when the other object lacks %s" % (fields[k], [fields[i] for i in drop]))
                # the left operand's own fields drive the loop
                l = legacy(cl, fields, [5] * n, present) == _mk(cl, fields, a)
                if l is not True:
                    raise ExtractionError("__eq__ with a left operand lacking %s looks at fields the left operand does not carry" % [fields[i] for i in drop])
            except ExtractionError:
                raise
            except Exception as e:
                raise ExtractionError("__eq__ raises %s when an operand lacks %s" % (type(e).__name__, [fields[i] for i in drop]))
            if type(r) is not bool:
                raise ExtractionError("__eq__ answers %r" % type(r).__name__)
            if r:
                eq_at.append(v)
        if len(eq_at) > 1:
            raise ExtractionError("__eq__: a field the other object lacks compares equal to several values %s" % eq_at[:3])
        answers.append((drop, eq_at[0] if eq_at else None))
    first = answers[0][1]
    for drop, d in answers:
        if d != first:
            raise ExtractionError("__eq__ reads a missing %s as %r, a missing %s as %r" % (fields[answers[0][0][0]], first, [fields[i] for i in drop], d))
    return first


# ------------------------------------------------------------------------------------------------------------------
# light AST check + method list

def _ast_check(tree):
    for cname in ("Capacities", "FreeCapacity"):
        cls = find_class(tree, cname)
        for n in ast.walk(cls):
            if isinstance(n, ast.Call) and isinstance(n.func, ast.Name) and n.func.id in ("type", "id", "eval", "exec", "globals", "vars"):
                raise ExtractionError("%s calls %s(): value-identity dependent code is not translated" % (cname, n.func.id))
            if isinstance(n, (ast.Global, ast.Nonlocal)):
                raise ExtractionError("%s uses global/nonlocal state" % cname)


def special_methods(klass):
    out = set()
    for k in klass.__mro__:
        if k is object:
            continue
        for name, v in vars(k).items():
            if name.startswith("__") and name.endswith("__") and (callable(v) or isinstance(v, (classmethod, staticmethod, property))):
                out.add(name)
    # what every class has through `type` machinery and is not an operator hook
    return sorted(out - {"__init_subclass__", "__subclasshook__", "__class_getitem__"})


def generate():
    tree, src = parse(REL)
    cap = find_class(tree, "Capacities")
    _ast_check(tree)
    cl = _module()
    inst = cl.Capacities()
    fields = list(inst.__dict__.keys())
    if any(v != 0 or type(v) is not int for v in inst.__dict__.values()):
        raise ExtractionError("Capacities default is not all-zero: %r" % inst.__dict__)
    units = cl.Capacities.UNITS
    if set(units) != set(fields):
        raise ExtractionError("UNITS keys differ from fields")

    C = cl.Capacities
    ops = {
        "addOp": arith(cl, fields, lambda A, B: A + B, "__add__"),
        "subOp": arith(cl, fields, lambda A, B: A - B, "__sub__"),
        "gtFail": _uniform(first_fail(cl, fields, lambda A, B: A > B, "__gt__"), "__gt__"),
        "ltFail": _uniform(first_fail(cl, fields, lambda A, B: A < B, "__lt__"), "__lt__"),
        "eqFail": _uniform(first_fail(cl, fields, lambda A, B: A == B, "__eq__"), "__eq__"),
        "negField": neg_fields(cl, fields),
    }
    # positive_fields(fs): first-fail over the list it is given (whole list, a permuted sub-list, a single name)
    pos = []
    for order, arg in ((fields, list(fields)), (fields[::-2], list(fields[::-2])), (fields[1:2], fields[1])):
        pos += first_fail(cl, fields, lambda A, B, arg=arg: A.positive_fields(arg), "positive_fields", order=order, unary=True)
    ops["posFail"] = _uniform(pos, "positive_fields")
    for k in ("negField", "posFail"):
        if any(s != "a" for s, _ in sx.variables(ops[k])):
            raise ExtractionError("%s: unexpected operand" % k)

    # FreeCapacity(total=A, allocated=B).free, and the allocated=None default (= an all-zero allocation)
    def free_call(A, B):
        fc = cl.FreeCapacity(total=A, allocated=B)
        if fc.total is not A:
            raise ExtractionError("FreeCapacity.total is not the object it was given")
        return fc.free
    free_e = arith(cl, fields, free_call, "FreeCapacity.free")
    free_none = arith(cl, fields, lambda A, B: cl.FreeCapacity(total=A, allocated=None).free, "FreeCapacity(allocated=None).free")
    if free_none != sx.rename(free_e, lambda v: ("const", 0) if v[1] == "b" else v):
        raise ExtractionError("FreeCapacity(allocated=None) is not FreeCapacity with an all-zero allocation")
    _replay(cl, fields, ops, free_e)
    inplace = {"iadd": probe_aug(cl, fields, ops["addOp"], "iadd"), "isub": probe_aug(cl, fields, ops["subOp"], "isub")}

    def swap(e):
        return sx.rename(e, lambda v: ("var", "b" if v[1] == "a" else "a", v[2]))
    if free_e == ops["subOp"]:
        free_txt = "(subOp a b)"
    elif free_e == swap(ops["subOp"]):
        free_txt = "(subOp b a)"
    elif free_e == ops["addOp"]:
        free_txt = "(addOp a b)"
    else:
        free_txt = sx.lean_int(free_e)

    methods = special_methods(C)
    kinds = {"addOp": "Int", "subOp": "Int"}
    body = "def fields : List String := %s\n\n" % lean_list([lean_str(f) for f in fields])
    body += ("/-- special methods (`__x__`) that Capacities defines or inherits below `object`, read from the running class -/\n"
             "def methods : List String := %s\n\n" % lean_list([lean_str(m) for m in methods]))
    body += "def units : List (String × String) := %s\n\n" % lean_list(["(%s, %s)" % (lean_str(f), lean_str(units[f])) for f in fields])
    text = {}
    for name, e in ops.items():
        args = "(a : Int)" if name in ("negField", "posFail") else "(a b : Int)"
        if name in kinds:
            ty, t = "Int", sx.lean_int(e)
        else:
            ty, t = "Bool", sx.lean_cond(e)
        text[name] = t
        body += "def %s %s : %s := %s\n\n" % (name, args, ty, t)
    body += "/-- FreeCapacity.__init__: free field as a function of total (a) and allocated (b). -/\n"
    body += "def freeOp (a b : Int) : Int := %s\n\n" % free_txt
    body += ("/-- `acc = a; acc += b` / `acc -= b` probed on the real objects: `true` = the object `a` itself is changed (an in-place "
             "operator exists), `false` = the name is rebound to a new object and `a` keeps its value -/\n")
    body += "def iaddInPlace : Bool := %s\ndef isubInPlace : Bool := %s\n" % tuple("true" if inplace[k] else "false" for k in ("iadd", "isub"))
    text["freeOp"] = free_txt
    eq_missing = probe_eq_missing(cl, fields)
    body += ("\n/-- `a == b` where b's `__dict__` lacks a field (an object restored from a pickle of an older release), probed on the real "
             "method: `some d` = the missing field reads as the int `d`, `none` = it reads as something no int equals -/\n")
    body += "def eqMissing : Option Int := %s\n" % ("none" if eq_missing is None else "some (%d : Int)" % eq_missing)
    text["eqMissing"] = eq_missing
    changed = emit("CapOps", body)
    return {"fields": fields, "methods": methods, "ops": text, "augmented_in_place": inplace, "changed": changed, "technique": "symbolic execution + concrete replay",
            "concrete_replay_vectors": len(_concrete_vectors(len(fields))), "span": span_hash(src, cap)}
