"""C16: who can store a validated value, and does every way in pass the validator?  (Generated/EntryPoints.lean)

Read from /repo's working tree on every run (AST only, nothing imported):

  STORES - every statement in fim/user/*.py, fim/slivers/*.py and fim/graph/abc_property_graph.py that writes a value of a
  validated domain into a store: an attribute assignment to a validated sliver field (`x.resource_name = ..`, `.labels`,
  `.label_allocations`, `.peer_labels`, `.tags`, `.boot_script`, `.mf_data`, `.user_data`, `.layout_data`), to a field of a
  Labels object (`x.vlan = ..`), to `_name` of a model element, to `_data` of a JSON blob; `__setattr__` / `setattr` /
  `__dict__[..] =` / `__dict__.update` inside the validated classes and in fim/user; `.tags.append/extend/insert`; a write of
  a validated graph property (`update_node_property(prop_name=PROP_NAME..)`, `update_node_properties(props=..)`) and
  `add_*_sliver(..)` in fim/user.  Each store gets the *guard* that validates the stored value in the same function before
  the store (recognised idioms, see `GUARD_KINDS`), or "unguarded".  This is a closed-world scan: a new direct write is an
  `unguarded` row (theorem every_store_guarded fails) whatever function it is in.

  CALL GRAPH - name-resolved (self./super()/constructor/property-setter assignment/method name), with one piece of context:
  the *selector* of the dynamic dispatch in BaseSliver.set_property / set_properties (`__getattribute__('set_' + k)`), i.e.
  the constant property name or the explicit keyword set, propagated through `pname` / `**kwargs` parameters.

  ENTRY POINTS - every public function of those files that takes a value of a validated domain by parameter (parameter names
  in PARAM_DOMAIN, property setters, `**kwargs` that flow into set_properties / _set_fields, decode dictionaries and JSON text)
  and from which a store is reachable.  For each (entry point, parameter): the guarded writer the value has to reach
  (REQUIRED), whether the call graph reaches it, the unguarded stores it can reach, and the sliver classes whose NAME_REGEX
  the name is checked against on the way.  The set of entry points must be exactly the set the harness has a probe for
  (harness/lib_c16ep.PROBES / EXEMPT): a new one is an extraction error until it gets a probe.
"""
import ast
import glob
import os

from .common import *

USER_FILES = ["model_element", "node", "component", "interface", "network_service", "link", "composite_node", "topology"]
GRAPH_FILE = "fim/graph/abc_property_graph.py"

# validated sliver fields -> domain
SLIVER_FIELDS = {"resource_name": "name", "labels": "labels", "label_allocations": "labels", "peer_labels": "labels",
                 "tags": "tags", "boot_script": "boot_script", "mf_data": "json", "user_data": "json", "layout_data": "json"}
SETTER_CLASS = {"labels": "Labels", "label_allocations": "Labels", "peer_labels": "Labels", "tags": "Tags",
                "mf_data": "MeasurementData", "user_data": "UserData", "layout_data": "LayoutData"}
GRAPH_PROPS = {"PROP_NAME": "name", "PROP_LABELS": "labels", "PROP_TAGS": "tags", "PROP_BOOT_SCRIPT": "boot_script",
               "PROP_USER_DATA": "json", "PROP_MEAS_DATA": "json", "PROP_LAYOUT_DATA": "json",
               "PROP_PEER_LABELS": "labels", "PROP_LABEL_ALLOCATIONS": "labels"}
GRAPH_WRITE_CALLS = {"update_node_property", "update_node_properties", "update_nodes_property", "update_link_property",
                     "update_link_properties"}
ADD_SLIVER_CALLS = {"add_network_node_sliver", "add_network_link_sliver", "add_component_sliver", "add_network_service_sliver",
                    "add_interface_sliver"}
GUARD_KINDS = [
    "regex:NAME_REGEX",            # m = re.fullmatch(self.NAME_REGEX, p); if not m: raise   - before self.resource_name = p
    "size:BOOST_SCRIPT_SIZE",      # assert p is None or (isinstance(p, str) and len(p) < self.BOOST_SCRIPT_SIZE)
    "isinstance:Labels", "isinstance:Tags", "isinstance:MeasurementData", "isinstance:UserData", "isinstance:LayoutData",
    "regex+range:VALIDATORS",      # the two `if self.VALIDATORS.get(k)..` / `if self.LAMBDA_VALIDATORS.get(k)..` blocks before __setattr__
    "copy:valid-instance",         # JSONField.update: fields of an existing instance of the same class, then _set_fields(**kwargs)
    "copy:same-field",             # x.f = y.f between two Labels objects (Gateway)
    "free-field",                  # a Labels field without any validator
    "check:Tags._check",           # Tags._check(t) immediately before self.tags.append(t)
    "empty", "constant",           # self.tags = list();  self._data = "{}"
    "size+loads", "dumps+size",    # the two branches of JSONData.__init__
    "after:set_property",          # name setter: if topo is not None: self.set_property('name', value); then self._name = value
    "then:set_property",           # the order before /repo ee3a7fa: the cache is written first (not an accepted guard in Proofs/C16.lean)
    "setter:name", "setter:labels", "setter:tags", "setter:boot_script", "setter:json",   # raw graph write preceded by self.<attr> = same value
    "sliverdict",                  # props = <x>_sliver_to_graph_properties_dict(S), S = <X>Sliver() filled through set_property/set_properties only
    "sliver:setters-only",         # add_*_sliver(S), S = <X>Sliver() / generate_component(..), only method calls and unvalidated attributes on S
]
# parameter name -> domain of the value it carries
PARAM_DOMAIN = {"name": "name", "new_name": "name", "resource_name": "name",
                "labels": "labels", "lab": "labels", "nslabels": "labels", "portlabels": "labels", "interface_labels": "labels",
                "tags": "tags", "boot_script": "boot_script",
                "mf_data": "json", "user_data": "json", "layout_data": "json"}
SETTER_DOMAIN = {"name": "name", "labels": "labels", "peer_labels": "labels", "tags": "tags", "boot_script": "boot_script",
                 "mf_data": "json", "user_data": "json", "layout_data": "json"}
# domain -> the guarded writer(s) the value must reach (any one of them)
REQUIRED = {"name": ["BaseSliver.set_name"],
            "labels": ["BaseSliver.set_labels", "BaseSliver.set_label_allocations", "InterfaceSliver.set_peer_labels", "Labels._set_fields"],
            "tags": ["BaseSliver.set_tags", "Tags.__init__"],
            "boot_script": ["BaseSliver.set_boot_script"],
            "json": ["BaseSliver.set_mf_data", "BaseSliver.set_user_data", "BaseSliver.set_layout_data", "JSONData.__init__"],
            "labelfield": ["Labels._set_fields"],
            "tag": ["Tags.__init__"],
            "blob": ["JSONData.__init__"],
            "any": ["BaseSliver.set_name", "BaseSliver.set_labels", "BaseSliver.set_tags", "BaseSliver.set_boot_script",
                    "BaseSliver.set_user_data"]}
SEL_PARAMS = ("pname", "prop_name")
DROPPED_KWARGS = set()
QUALIFIED_PARAM_DOMAIN = {("Topology.add_facility", "interfaces"): "any"}      # list of (name, labels, capacities)


class Fn:
    def __init__(self, qual, node, cls, rel):
        self.qual, self.node, self.cls, self.rel = qual, node, cls, rel
        a = node.args
        self.params = [x.arg for x in a.posonlyargs + a.args + a.kwonlyargs]
        self.kwarg = a.kwarg.arg if a.kwarg else None
        self.sel_param = next((p for p in self.params if p in SEL_PARAMS), None)
        self.is_setter = any(isinstance(d, ast.Attribute) and d.attr == "setter" for d in node.decorator_list)
        self.is_getter = any(isinstance(d, ast.Name) and d.id == "property" for d in node.decorator_list)


class World:
    def __init__(self):
        self.classes = {}       # name -> (ClassDef, rel, [base names])
        self.fns = {}           # qual -> Fn
        self.by_name = {}       # method name -> [qual]
        self.setters = {}       # attr -> [qual of property setters]
        self.label_fields = []
        self.validated_label_fields = set()

    def add_file(self, rel):
        tree, src = parse(rel)
        for n in tree.body:
            if isinstance(n, ast.ClassDef):
                bases = []
                for b in n.bases:
                    if isinstance(b, ast.Name):
                        bases.append(b.id)
                    elif isinstance(b, ast.Attribute):
                        bases.append(b.attr)
                if n.name in self.classes:
                    raise ExtractionError("class %s defined twice in the scanned files" % n.name)
                self.classes[n.name] = (n, rel, bases)
                for f in n.body:
                    if isinstance(f, ast.FunctionDef):
                        self._add(Fn(self._qual(n.name, f), f, n.name, rel))
            elif isinstance(n, ast.FunctionDef):
                self._add(Fn(n.name, n, None, rel))

    @staticmethod
    def _qual(cname, f):
        for d in f.decorator_list:
            if isinstance(d, ast.Attribute) and d.attr == "setter":
                return "%s.%s.setter" % (cname, f.name)
        return "%s.%s" % (cname, f.name)

    def _add(self, fn):
        if fn.qual in self.fns:
            # e.g. gateway defined as property then setter later: qual names differ; a real duplicate is unexpected
            raise ExtractionError("function %s defined twice" % fn.qual)
        self.fns[fn.qual] = fn
        if fn.is_setter:
            self.setters.setdefault(fn.node.name, []).append(fn.qual)
        elif not fn.is_getter:
            self.by_name.setdefault(fn.node.name, []).append(fn.qual)

    def mro(self, c):
        out, todo = [], [c]
        while todo:
            x = todo.pop(0)
            if x in out or x not in self.classes:
                continue
            out.append(x)
            todo.extend(self.classes[x][2])
        return out

    def subclasses(self, c):
        return [k for k in self.classes if c in self.mro(k)]

    def derives(self, c, base):
        return c is not None and base in self.mro(c)

    def lookup(self, c, m):
        """method m as seen from class c: its own / inherited definition plus the overrides in subclasses"""
        out = []
        for k in self.mro(c):
            if "%s.%s" % (k, m) in self.fns:
                out.append("%s.%s" % (k, m))
                break
        for k in self.subclasses(c):
            q = "%s.%s" % (k, m)
            if k != c and q in self.fns and q not in out:
                out.append(q)
        return out


def build_world():
    w = World()
    for f in USER_FILES:
        w.add_file("fim/user/%s.py" % f)
    for p in sorted(glob.glob(os.path.join(REPO, "fim/slivers/*.py"))):
        if os.path.basename(p) != "__init__.py":
            w.add_file("fim/slivers/" + os.path.basename(p))
    w.add_file(GRAPH_FILE)
    lab = w.classes.get("Labels")
    if lab is None:
        raise ExtractionError("class Labels not found")
    init = find_func(lab[0], "__init__")
    for st in init.body:
        if isinstance(st, ast.Assign) and isinstance(st.targets[0], ast.Attribute) and getattr(st.targets[0].value, "id", "") == "self":
            w.label_fields.append(st.targets[0].attr)
    for st in lab[0].body:
        if isinstance(st, ast.Assign) and getattr(st.targets[0], "id", "") in ("VALIDATORS", "LAMBDA_VALIDATORS") and isinstance(st.value, ast.Dict):
            for k in st.value.keys:
                if isinstance(k, ast.Constant):
                    w.validated_label_fields.add(k.value)
    if not w.label_fields or not w.validated_label_fields:
        raise ExtractionError("Labels fields / validators not found")
    return w


# ---------------------------------------------------------------- guards

def _is_none(n):
    return isinstance(n, ast.Constant) and n.value is None


def _name(n):
    return n.id if isinstance(n, ast.Name) else None


def _top_index(fn, node):
    """index of the top-level statement of fn.body that contains `node`, and whether node *is* that statement (or its value)"""
    for i, st in enumerate(fn.body):
        for x in ast.walk(st):
            if x is node:
                return i, st
    raise ExtractionError("statement not found in its function")


def _is_none_or_isinstance(test, p, cname):
    if not (isinstance(test, ast.BoolOp) and isinstance(test.op, ast.Or) and len(test.values) == 2):
        return False
    a, b = test.values
    if not (isinstance(a, ast.Compare) and _name(a.left) == p and len(a.ops) == 1 and isinstance(a.ops[0], ast.Is) and _is_none(a.comparators[0])):
        return False
    return (isinstance(b, ast.Call) and _name(b.func) == "isinstance" and len(b.args) == 2 and _name(b.args[0]) == p
            and _name(b.args[1]) == cname)


def guard_sliver_setter(w, fn, st, field, val):
    """self.<field> = <val> inside a BaseSliver class"""
    p = _name(val)
    i, top = _top_index(fn.node, st)
    if p is None or p not in fn.params or top is not st:
        return "unguarded"
    before = fn.node.body[:i]
    if field == "resource_name":
        m = None
        for s in before:
            if (isinstance(s, ast.Assign) and len(s.targets) == 1 and isinstance(s.targets[0], ast.Name) and isinstance(s.value, ast.Call)
                    and isinstance(s.value.func, ast.Attribute) and _name(s.value.func.value) == "re" and s.value.func.attr in ("fullmatch", "match")
                    and len(s.value.args) == 2 and isinstance(s.value.args[0], ast.Attribute) and s.value.args[0].attr == "NAME_REGEX"
                    and _name(s.value.args[0].value) == "self" and _name(s.value.args[1]) == p):
                m = s.targets[0].id
            elif m and isinstance(s, ast.If) and not s.orelse and isinstance(s.body[0], ast.Raise):
                t = s.test
                if (isinstance(t, ast.UnaryOp) and isinstance(t.op, ast.Not) and _name(t.operand) == m) or \
                        (isinstance(t, ast.Compare) and _name(t.left) == m and isinstance(t.ops[0], ast.Is) and _is_none(t.comparators[0])):
                    return "regex:NAME_REGEX"
        return "unguarded"
    if field == "boot_script":
        for s in before:
            if isinstance(s, ast.Assert) and isinstance(s.test, ast.BoolOp) and isinstance(s.test.op, ast.Or) and len(s.test.values) == 2:
                a, b = s.test.values
                if not (isinstance(a, ast.Compare) and _name(a.left) == p and isinstance(a.ops[0], ast.Is) and _is_none(a.comparators[0])):
                    continue
                if not (isinstance(b, ast.BoolOp) and isinstance(b.op, ast.And) and len(b.values) == 2):
                    continue
                x, y = b.values
                if (isinstance(x, ast.Call) and _name(x.func) == "isinstance" and _name(x.args[0]) == p and _name(x.args[1]) == "str"
                        and isinstance(y, ast.Compare) and isinstance(y.left, ast.Call) and _name(y.left.func) == "len"
                        and _name(y.left.args[0]) == p and len(y.ops) == 1 and isinstance(y.ops[0], (ast.Lt, ast.LtE))
                        and isinstance(y.comparators[0], ast.Attribute) and y.comparators[0].attr == "BOOST_SCRIPT_SIZE"):
                    return "size:BOOST_SCRIPT_SIZE"
        return "unguarded"
    cname = SETTER_CLASS[field]
    for s in before:
        if isinstance(s, ast.Assert) and _is_none_or_isinstance(s.test, p, cname):
            return "isinstance:" + cname
    return "unguarded"


def _contains(node, pred):
    return any(pred(x) for x in ast.walk(node))


def _siblings_before(root, node):
    """the statement list that directly contains the statement holding `node`, up to that statement"""
    for parent in ast.walk(root):
        for fld in ("body", "orelse", "finalbody", "handlers"):
            lst = getattr(parent, fld, None)
            if isinstance(lst, list):
                for i, st in enumerate(lst):
                    if st is node or (isinstance(st, ast.Expr) and st.value is node):
                        return lst, i
    raise ExtractionError("statement list of a store not found")


def guard_labels_setattr(w, fn, call):
    """self.__setattr__(k, v) in Labels._set_fields"""
    lst, i = _siblings_before(fn.node, call)
    args = [_name(a) for a in call.args]
    loop = None
    for x in ast.walk(fn.node):
        if isinstance(x, ast.For) and _contains(x, lambda y: y is call):
            loop = x
    if loop is None or not (isinstance(loop.target, ast.Tuple) and [_name(e) for e in loop.target.elts] == args):
        return "unguarded"
    if not (isinstance(loop.iter, ast.Call) and getattr(loop.iter.func, "attr", "") == "items" and _name(loop.iter.func.value) == fn.kwarg):
        return "unguarded"
    seen = set()
    for st in lst[:i]:
        if not isinstance(st, ast.If):
            continue
        which = None
        if _contains(st.test, lambda y: isinstance(y, ast.Attribute) and y.attr == "LAMBDA_VALIDATORS"):
            which = "range"
        elif _contains(st.test, lambda y: isinstance(y, ast.Attribute) and y.attr == "VALIDATORS"):
            which = "regex"
        if which is None or st.orelse:
            continue
        # both the list branch and the scalar branch raise
        inner = [x for x in st.body if isinstance(x, ast.If)]
        if len(st.body) != 1 or len(inner) != 1 or not inner[0].orelse:
            continue
        ok = True
        for branch in (inner[0].body, inner[0].orelse):
            if sum(1 for b in branch for y in ast.walk(b) if isinstance(y, ast.Raise)) != 1:
                ok = False
        if ok:
            seen.add(which)
    return "regex+range:VALIDATORS" if seen == {"regex", "range"} else "unguarded"


def guard_update_copy(w, fn, call):
    """inst.__setattr__(k, v) in JSONField.update"""
    body = strip_doc(fn.node.body)
    kinds = [type(x).__name__ for x in body]
    if kinds != ["Assert", "Assign", "For", "Expr", "Return"]:
        return "unguarded"
    a, asg, loop, ex, ret = body
    lab = fn.params[1] if len(fn.params) > 1 else None
    ok = (isinstance(a.test, ast.Call) and _name(a.test.func) == "isinstance" and _name(a.test.args[0]) == lab
          and isinstance(asg.value, ast.Call) and isinstance(asg.value.func, ast.Attribute) and asg.value.func.attr == "__class__"
          and _name(asg.value.func.value) == lab and not asg.value.args and not asg.value.keywords
          and isinstance(loop.iter, ast.Call) and getattr(loop.iter.func, "attr", "") == "items"
          and isinstance(loop.iter.func.value, ast.Attribute) and loop.iter.func.value.attr == "__dict__" and _name(loop.iter.func.value.value) == lab
          and len(loop.body) == 1 and isinstance(loop.body[0], ast.Expr) and loop.body[0].value is call
          and _name(call.func.value) == _name(asg.targets[0])
          and isinstance(ex.value, ast.Call) and getattr(ex.value.func, "attr", "") == "_set_fields" and _name(ex.value.func.value) == _name(asg.targets[0])
          and not ex.value.args and len(ex.value.keywords) == 1 and ex.value.keywords[0].arg is None and _name(ex.value.keywords[0].value) == fn.kwarg
          and _name(ret.value) == _name(asg.targets[0]))
    return "copy:valid-instance" if ok else "unguarded"


def guard_tags_append(w, fn, call):
    lst, i = _siblings_before(fn.node, call)
    if call.func.attr != "append" or len(call.args) != 1 or i == 0:
        return "unguarded"
    prev = lst[i - 1]
    if (isinstance(prev, ast.Expr) and isinstance(prev.value, ast.Call) and isinstance(prev.value.func, ast.Attribute)
            and prev.value.func.attr == "_check" and _name(prev.value.func.value) == "Tags" and len(prev.value.args) == 1
            and _name(prev.value.args[0]) is not None and _name(prev.value.args[0]) == _name(call.args[0])):
        return "check:Tags._check"
    return "unguarded"


def guard_json_data(w, fn, st, val):
    lst, i = _siblings_before(fn.node, st)
    if isinstance(val, ast.Constant) and isinstance(val.value, str):
        import json
        try:
            json.loads(val.value)
        except ValueError:
            return "unguarded"
        return "constant" if len(val.value) <= 1024 else "unguarded"
    p = fn.params[1] if len(fn.params) > 1 else None

    def size_raise(s, what):
        return (isinstance(s, ast.If) and not s.orelse and isinstance(s.body[0], ast.Raise) and isinstance(s.test, ast.Compare)
                and isinstance(s.test.left, ast.Call) and _name(s.test.left.func) == "len" and what(s.test.left.args[0])
                and isinstance(s.test.ops[0], (ast.Gt, ast.GtE)) and isinstance(s.test.comparators[0], ast.Attribute)
                and s.test.comparators[0].attr == "MAX_SIZE")
    if _name(val) == p:
        before = lst[:i]
        has_size = any(size_raise(s, lambda a: _name(a) == p) for s in before)
        has_loads = any(isinstance(s, ast.Try) and len(s.body) == 1 and _contains(s.body[0], lambda y: isinstance(y, ast.Call)
                        and getattr(y.func, "attr", "") == "loads" and len(y.args) == 1 and _name(y.args[0]) == p)
                        and all(isinstance(h.body[-1], ast.Raise) for h in s.handlers) for s in before)
        return "size+loads" if has_size and has_loads else "unguarded"
    if (isinstance(val, ast.Call) and getattr(val.func, "attr", "") == "dumps" and len(val.args) == 1 and _name(val.args[0]) == p
            and not val.keywords):
        nxt = lst[i + 1] if i + 1 < len(lst) else None
        if nxt is not None and size_raise(nxt, lambda a: isinstance(a, ast.Attribute) and a.attr == "_data" and _name(a.value) == "self"):
            return "dumps+size"
    return "unguarded"


# ---------------------------------------------------------------- behavioural confirmation of a guard the AST matcher cannot follow
# A behaviour-preserving rewrite (validation moved into helpers, a comprehension / generator feeding list.extend, the scalar form
# normalised to a one-element list ...) leaves the store guarded although none of the idioms above matches.  For the two writers
# whose guard is a pure function of (class tables, value) the running class then decides: the store counts as guarded by the SAME
# label iff, over a fixed candidate set x every argument form, the call accepts exactly the members the tables define, stores
# exactly what was handed over and stores nothing on a rejection (Tags: also keeps no reference to the caller's list).  The
# per-entry-point probes of the harness (harness/lib_c16ep.py, every run) remain the obligation behind the row.
PROBED = []      # guards confirmed behaviourally in this run (goes into the report)

_LABEL_CANDS = ["", " ", "zz", "zz\n", "1", "-1", "0", "7", "4095", "4096", "65536", "99999999999999999999", "1 ", " 1", "1\n", "+1", "1_0", "a b",
                "0000:00:00.0", "0000:00:00x0", "00:11:22:33:44:55", "00:11:22:33:44:55\n", "10.0.0.1", "10.0.0.256", "::1", "10.0.0.0/24",
                "fe80::/64", "1-2", "2-1", "key-123456", "x"]


def probe_labels_guard():
    import importlib
    import re
    try:
        cl = importlib.import_module("fim.slivers.capacities_labels")
        Labels, LE = cl.Labels, cl.LabelException
        fields = [k for k in Labels().__dict__ if Labels.VALIDATORS.get(k) is not None or Labels.LAMBDA_VALIDATORS.get(k) is not None]
        if not fields:
            return False
        for k in fields:
            def member(c, k=k):
                try:
                    if Labels.VALIDATORS.get(k) is not None and re.fullmatch(Labels.VALIDATORS[k][0], c) is None:
                        return False
                    if Labels.LAMBDA_VALIDATORS.get(k) is not None and Labels.LAMBDA_VALIDATORS[k][0](c) is False:
                        return False
                    return True
                except Exception:
                    return False
            cands = list(_LABEL_CANDS)
            if Labels.VALIDATORS.get(k) is not None:
                ex = Labels.VALIDATORS[k][1]
                cands.append(ex.split("'")[1] if "'" in ex else ex)
            good = [c for c in cands if member(c)]
            for c in cands:
                forms = [(c, member(c)), ([c], member(c))]
                if good:
                    forms += [([good[0], c], member(c)), ([c, good[0]], member(c)), ([good[0], c, good[-1]], member(c))]
                for form, want in forms:
                    lab = Labels()
                    try:
                        lab._set_fields(**{k: form})
                        acc = True
                    except LE:
                        acc = False
                    if acc != want or (acc and getattr(lab, k) != form) or (not acc and getattr(lab, k) is not None):
                        return False
        return True
    except Exception:
        return False


def probe_tags_guard():
    import importlib
    try:
        tg = importlib.import_module("fim.slivers.tags")
        T, TE = tg.Tags, tg.TagException
        cands = ["a", "gpu", "blue-1", "a b", "", " ", "tag\n", "not valid!", "x" * 300, 7, None, "\u00e9", "a\tb"]

        def member(c):
            return isinstance(c, str) and T.compiled_pattern.fullmatch(c) is not None
        good = [c for c in cands if member(c)]
        if not good or all(member(c) for c in cands):
            return False
        g = good[0]
        for c in cands:
            forms = [((c,), [c]), (([g, c],), [g, c]), (((c, g),), [c, g]), ((g, [c]), [g, c]), (([c],), [c]), (((g,), c, [g]), [g, c, g])]
            for args, flat in forms:
                want = all(member(x) for x in flat)
                try:
                    t = T(*args)
                    acc = True
                except TE:
                    acc = False
                if acc != want or (acc and list(t.tags) != flat):
                    return False
        lst = [g, good[-1]]
        t = T(lst)
        lst.append("not valid!\n")
        lst[0] = "not valid!\n"
        if list(t.tags) != [g, good[-1]]:
            return False                        # keeps the caller's list: what is stored is not what was checked
        return True
    except Exception:
        return False


def confirm(label, probe):
    """`label` if the behavioural probe confirms the guard the AST matcher could not follow, else 'unguarded'"""
    if probe():
        if label not in PROBED:
            PROBED.append(label)
        return label
    return "unguarded"


# ---------------------------------------------------------------- stores

def scan_stores(w):
    stores = []      # (function qual, domain, what, guard)
    jd_classes = w.subclasses("JSONData")
    validated_cls = set(w.subclasses("BaseSliver")) | set(w.subclasses("JSONField")) | {"Tags", "Gateway"} | set(jd_classes)
    props_with_setter = set(w.setters)

    for fn in w.fns.values():
        in_user = fn.rel.startswith("fim/user/")
        in_graph = fn.rel == GRAPH_FILE
        for n in ast.walk(fn.node):
            # ---- attribute assignments
            targets = []
            if isinstance(n, ast.Assign):
                targets = [(t, n.value) for t in n.targets]
            elif isinstance(n, ast.AnnAssign) and n.value is not None:
                targets = [(n.target, n.value)]
            elif isinstance(n, ast.AugAssign):
                targets = [(n.target, n.value)]
            for t, val in targets:
                for tt in (t.elts if isinstance(t, ast.Tuple) else [t]):
                    if isinstance(tt, ast.Subscript) and isinstance(tt.value, ast.Attribute) and tt.value.attr == "__dict__":
                        if fn.cls in validated_cls and (w.derives(fn.cls, "BaseSliver") or fn.cls in ("Labels", "JSONField", "Tags") or fn.cls in jd_classes) or in_user:
                            stores.append((fn.qual, "dynamic", "__dict__[..] =", "unguarded"))
                        continue
                    if not isinstance(tt, ast.Attribute):
                        continue
                    a = tt.attr
                    recv_self = _name(tt.value) == "self"
                    if a in SLIVER_FIELDS and not (in_user and a in props_with_setter):
                        if _is_none(val):
                            continue
                        if a == "tags" and fn.cls == "Tags":
                            g = "empty" if (isinstance(val, ast.Call) and _name(val.func) == "list" and not val.args) or \
                                (isinstance(val, ast.List) and not val.elts) else "unguarded"
                            if g == "unguarded" and recv_self and fn.node.name == "__init__":
                                g = confirm("check:Tags._check", probe_tags_guard)     # e.g. self.tags = [checked(t) for t in ...]
                            stores.append((fn.qual, "tags", ".tags =", g if recv_self else "unguarded"))
                            continue
                        if recv_self and w.derives(fn.cls, "BaseSliver"):
                            stores.append((fn.qual, SLIVER_FIELDS[a], "self.%s =" % a, guard_sliver_setter(w, fn, n, a, val)))
                        else:
                            stores.append((fn.qual, SLIVER_FIELDS[a], "<obj>.%s =" % a, "unguarded"))
                    elif a == "_name" and in_user:
                        g = "unguarded"
                        if fn.is_setter and fn.node.name == "name" and recv_self and _name(val) == fn.params[1]:
                            i, top = _top_index(fn.node, n)

                            def hands_over(s):
                                return _contains(s, lambda y: isinstance(y, ast.Call) and getattr(y.func, "attr", "") == "set_property"
                                                 and _name(y.func.value) == "self" and len(y.args) == 2 and isinstance(y.args[0], ast.Constant)
                                                 and y.args[0].value == "name" and _name(y.args[1]) == fn.params[1])
                            if top is n and any(isinstance(s, ast.If) and not s.orelse and hands_over(s) for s in fn.node.body[:i]):
                                g = "after:set_property"      # validated (when there is a graph) before the cached name changes
                            elif any(hands_over(s) for s in fn.node.body[i + 1:]):
                                g = "then:set_property"       # the old order: a rejected name stays in the element object
                        stores.append((fn.qual, "name", "self._name =", g))
                    elif a == "_data" and (fn.cls in jd_classes or _name(tt.value) != "self"):
                        g = guard_json_data(w, fn, n, val) if (fn.cls == "JSONData" and fn.node.name == "__init__" and recv_self) else "unguarded"
                        stores.append((fn.qual, "blob", "self._data =", g))
                    elif a in w.label_fields and not (fn.cls == "Labels" and fn.node.name == "__init__" and recv_self and _is_none(val)) \
                            and not (fn.cls is not None and not in_user and fn.cls not in ("Gateway",) and recv_self and fn.cls != "Labels"):
                        # a field of a Labels object written directly
                        if a not in w.validated_label_fields:
                            g = "free-field"
                        elif isinstance(val, ast.Attribute) and val.attr == a and _name(val.value) in fn.params:
                            g = "copy:same-field"
                        else:
                            g = "unguarded"
                        stores.append((fn.qual, "labelfield", "<labels>.%s =" % a, g))
            # ---- calls
            if not isinstance(n, ast.Call):
                continue
            f = n.func
            if isinstance(f, ast.Attribute) and f.attr == "__setattr__" or _name(f) == "setattr":
                if fn.cls == "Labels" and fn.node.name == "_set_fields" and isinstance(f, ast.Attribute) and _name(f.value) == "self":
                    g = guard_labels_setattr(w, fn, n)
                    if g == "unguarded":
                        g = confirm("regex+range:VALIDATORS", probe_labels_guard)
                    stores.append((fn.qual, "labelfield", "self.__setattr__(k, v)", g))
                elif fn.cls == "JSONField" and fn.node.name == "update" and isinstance(f, ast.Attribute):
                    stores.append((fn.qual, "labelfield", "inst.__setattr__(k, v)", guard_update_copy(w, fn, n)))
                elif w.derives(fn.cls, "JSONField") and fn.cls not in ("Labels", "JSONField") and fn.node.name == "_set_fields":
                    pass                                    # Capacities, CapacityHints, ...: not a C16 domain
                elif fn.cls in validated_cls or in_user or in_graph:
                    stores.append((fn.qual, "dynamic", "setattr", "unguarded"))
            elif isinstance(f, ast.Attribute) and f.attr == "update" and isinstance(f.value, ast.Attribute) and f.value.attr == "__dict__":
                if fn.cls in validated_cls or in_user or in_graph:
                    stores.append((fn.qual, "dynamic", "__dict__.update", "unguarded"))
            elif isinstance(f, ast.Attribute) and f.attr in ("append", "extend", "insert") and isinstance(f.value, ast.Attribute) and f.value.attr == "tags":
                g = guard_tags_append(w, fn, n) if fn.cls == "Tags" and fn.node.name == "__init__" else "unguarded"
                if g == "unguarded" and fn.cls == "Tags" and fn.node.name == "__init__" and _name(f.value.value) == "self":
                    g = confirm("check:Tags._check", probe_tags_guard)
                stores.append((fn.qual, "tag", ".tags.%s" % f.attr, g))
            elif in_user and isinstance(f, ast.Attribute) and f.attr in GRAPH_WRITE_CALLS:
                stores.append(graph_write(w, fn, n))
            elif in_user and isinstance(f, ast.Attribute) and f.attr in ADD_SLIVER_CALLS:
                stores.append(add_sliver_write(w, fn, n))
    return sorted(s for s in stores if s is not None)


def _local_sliver(w, fn, var):
    """how the local `var` is built: (class name | 'generate_component' | None, only-method-calls-and-unvalidated-attrs)"""
    src = None
    clean = True
    for x in ast.walk(fn.node):
        if isinstance(x, ast.Assign) and len(x.targets) == 1 and _name(x.targets[0]) == var:
            if src is not None:
                return None, False
            v = x.value
            if isinstance(v, ast.Call) and _name(v.func) in w.classes and w.derives(_name(v.func), "BaseSliver") and not v.args and not v.keywords:
                src = _name(v.func)
            elif isinstance(v, ast.Call) and getattr(v.func, "attr", "") == "generate_component":
                src = "generate_component"
            else:
                return None, False
        elif isinstance(x, (ast.Assign, ast.AugAssign)):
            for t in (x.targets if isinstance(x, ast.Assign) else [x.target]):
                if isinstance(t, ast.Attribute) and _name(t.value) == var and (t.attr in SLIVER_FIELDS or t.attr.startswith("_")):
                    clean = False
    return src, clean


def graph_write(w, fn, n):
    kw = {k.arg: k.value for k in n.keywords}
    where = fn.qual
    if n.func.attr == "update_node_properties":
        d = kw.get("props")
        g = "unguarded"
        if isinstance(d, ast.Name):
            for a in ast.walk(fn.node):
                if (isinstance(a, ast.Assign) and _name(a.targets[0]) == d.id and isinstance(a.value, ast.Call)
                        and isinstance(a.value.func, ast.Attribute) and a.value.func.attr.endswith("sliver_to_graph_properties_dict")
                        and len(a.value.args) == 1 and _name(a.value.args[0])):
                    src, clean = _local_sliver(w, fn, _name(a.value.args[0]))
                    if src in w.classes and clean:
                        g = "sliverdict"
        return (where, "any", "update_node_properties(props)", g)
    pn = kw.get("prop_name")
    if not (isinstance(pn, ast.Attribute) and pn.attr.startswith("PROP_")):
        raise ExtractionError("%s: graph write with a property name that is not a PROP_ constant" % where)
    if pn.attr not in GRAPH_PROPS:
        return None
    dom = GRAPH_PROPS[pn.attr]
    attr = {"PROP_NAME": "name", "PROP_LABELS": "labels", "PROP_TAGS": "tags", "PROP_BOOT_SCRIPT": "boot_script", "PROP_USER_DATA": "user_data",
            "PROP_MEAS_DATA": "mf_data", "PROP_LAYOUT_DATA": "layout_data", "PROP_PEER_LABELS": "peer_labels"}.get(pn.attr)
    pv = kw.get("prop_val")
    g = "unguarded"
    if isinstance(pv, ast.Name) and attr in w.setters:
        i, _ = _top_index(fn.node, n)
        for st in fn.node.body[:i]:
            if (isinstance(st, ast.Assign) and isinstance(st.targets[0], ast.Attribute) and _name(st.targets[0].value) == "self"
                    and st.targets[0].attr == attr and _name(st.value) == pv.id and setter_backed(w, attr)):
                g = "setter:" + dom
    return (where, dom, "update_node_property(%s)" % pn.attr, g)


def setter_backed(w, attr):
    """the ModelElement property setter of `attr` hands its value to self.set_property('<attr>', value) on every path that
    has a topology (body is: [self._x = value]; if topo is not None: self.set_property(attr, value))"""
    for q in w.setters.get(attr, []):
        fn = w.fns[q]
        if fn.cls != "ModelElement":
            continue
        val = fn.params[1]
        for st in fn.node.body:
            if isinstance(st, ast.If) and not st.orelse and len(st.body) == 1 and isinstance(st.body[0], ast.Expr):
                c = st.body[0].value
                if (isinstance(c, ast.Call) and getattr(c.func, "attr", "") == "set_property" and _name(c.func.value) == "self" and len(c.args) == 2
                        and isinstance(c.args[0], ast.Constant) and c.args[0].value == attr and _name(c.args[1]) == val):
                    return True
    return False


def add_sliver_write(w, fn, n):
    arg = None
    for k in n.keywords:
        if k.arg in ("sliver", "lsliver", "component", "network_service", "interface"):
            arg = _name(k.value)
    g = "unguarded"
    if arg:
        src, clean = _local_sliver(w, fn, arg)
        if src and clean:
            g = "sliver:setters-only"
    return (fn.qual, "any", n.func.attr, g)


# ---------------------------------------------------------------- call graph with selectors

ALL = None      # selector: unknown property name(s) = every setter


def _sel_union(a, b):
    if a is ALL or b is ALL:
        return ALL
    return frozenset(a) | frozenset(b)


class Graph:
    """nodes are (function, selector, self class): the selector is the property name(s) a set_property / set_properties
    dispatch can hit, the self class is the dynamic class of `self` where the caller fixes it (constructor call, local
    variable built from a constructor, super()/self calls keep it)"""

    def __init__(self, w):
        self.w = w
        self.edges = {}
        self.name_classes = {}

    def local_classes(self, fn):
        out = {}
        for x in ast.walk(fn.node):
            if isinstance(x, ast.Assign) and len(x.targets) == 1 and isinstance(x.targets[0], ast.Name) and isinstance(x.value, ast.Call):
                c = _name(x.value.func)
                v = x.targets[0].id
                if c in self.w.classes:
                    out[v] = c if v not in out else None
                elif getattr(x.value.func, "attr", "") == "generate_component":
                    out[v] = "ComponentSliver" if v not in out else None
                else:
                    # a call whose every candidate target is annotated `-> C`
                    m = getattr(x.value.func, "attr", None)
                    rets = set()
                    for q in self.w.by_name.get(m, []) if m else []:
                        r = self.w.fns[q].node.returns
                        rets.add(_name(r) if _name(r) in self.w.classes else None)
                    c = rets.pop() if len(rets) == 1 else None
                    out[v] = c if (c and v not in out) else None
        return {k: v for k, v in out.items() if v}

    @staticmethod
    def is_decode(fn):
        n = fn.node.name
        return fn.rel == GRAPH_FILE and (n.endswith("_from_graph_properties_dict") or n.endswith("_from_dict") or n.startswith("build_deep_"))

    def resolve(self, fn, scls, call, locals_):
        """-> list of (target qual, self class of the callee or None)"""
        w = self.w
        f = call.func
        if isinstance(f, ast.Name):
            cname = fn.cls if (f.id == "cls" and fn.cls) else f.id        # cls(...) in a classmethod
            if cname in w.classes:
                r = [q for q in ("%s.__init__" % k for k in w.mro(cname)) if q in w.fns][:1]
                return [(q, cname) for q in r]
            return [(f.id, None)] if f.id in w.fns else []
        if not isinstance(f, ast.Attribute):
            return []
        m = f.attr
        v = f.value
        if isinstance(v, ast.Call) and _name(v.func) == "super":
            start = fn.cls
            if v.args and _name(v.args[0]) in w.classes:
                start = _name(v.args[0])
            for k in w.mro(start)[1:]:
                if "%s.%s" % (k, m) in w.fns:
                    return [("%s.%s" % (k, m), scls)]
            return []
        if _name(v) in ("self", "cls") and fn.cls:
            c = scls if (scls and w.derives(scls, fn.cls)) else fn.cls
            r = w.lookup(c, m)
            if r:
                return [(q, scls if (scls and w.derives(scls, w.fns[q].cls)) else None) for q in r]
        if _name(v) in locals_:
            r = w.lookup(locals_[_name(v)], m)
            if r:
                return [(q, locals_[_name(v)]) for q in r]
        if _name(v) in w.classes:
            r = w.lookup(_name(v), m)
            if r:
                return [(q, _name(v)) for q in r]
        return [(q, None) for q in w.by_name.get(m, [])]

    def out_edges(self, qual, sel, scls):
        w = self.w
        fn = w.fns[qual]
        locals_ = self.local_classes(fn)
        out = set()
        ncls = set()
        for x in ast.walk(fn.node):
            if (isinstance(x, ast.Call) and isinstance(x.func, ast.Attribute) and x.func.attr == "__getattribute__" and len(x.args) == 1
                    and isinstance(x.args[0], ast.BinOp) and isinstance(x.args[0].left, ast.Constant) and x.args[0].left.value == "set_"):
                base = scls if (scls and w.derives(scls, fn.cls)) else fn.cls
                for c in ([base] if scls else w.subclasses(base)):
                    for k in w.mro(c):
                        for q, f2 in w.fns.items():
                            if f2.cls == k and f2.node.name.startswith("set_") and f2.node.name not in ("set_property", "set_properties"):
                                if sel is ALL or f2.node.name[4:] in sel:
                                    # the most derived definition wins
                                    if w.lookup(c, f2.node.name)[:1] == [q]:
                                        out.add((q, ALL, c))
                                        if f2.node.name == "set_name" and scls:
                                            ncls.add(c)
        for x in ast.walk(fn.node):
            if isinstance(x, (ast.Assign, ast.AugAssign)) and fn.rel.startswith("fim/user/"):
                for t in (x.targets if isinstance(x, ast.Assign) else [x.target]):
                    if isinstance(t, ast.Attribute) and t.attr in w.setters:
                        cands = w.setters[t.attr]
                        tcls = None
                        if _name(t.value) == "self" and fn.cls:
                            c = scls if (scls and w.derives(scls, fn.cls)) else fn.cls
                            mine = [q for q in cands if w.fns[q].cls in w.mro(c) or c in w.mro(w.fns[q].cls)]
                            cands = mine or cands
                            tcls = scls
                        elif _name(t.value) in locals_:
                            tcls = locals_[_name(t.value)]
                            cands = [q for q in cands if w.fns[q].cls in w.mro(tcls)] or cands
                        for q in cands:
                            out.add((q, ALL, tcls if (tcls and w.derives(tcls, w.fns[q].cls)) else None))
            if not isinstance(x, ast.Call):
                continue
            for tq, tcls in self.resolve(fn, scls, x, locals_):
                t = w.fns[tq]
                tsel = ALL
                if t.sel_param is not None:
                    a = None
                    for k in x.keywords:
                        if k.arg == t.sel_param:
                            a = k.value
                    if a is None and x.args:
                        a = x.args[0]
                    if isinstance(a, ast.Constant) and isinstance(a.value, str):
                        tsel = frozenset([a.value])
                    elif _name(a) is not None and _name(a) == fn.sel_param:
                        tsel = sel
                elif t.kwarg is not None:
                    named = set(t.params)
                    tsel = frozenset(k.arg for k in x.keywords if k.arg is not None and k.arg not in named)
                    for s_ in [k.value for k in x.keywords if k.arg is None]:
                        if _name(s_) is not None and _name(s_) == fn.kwarg:
                            tsel = _sel_union(tsel, sel)
                        else:
                            tsel = ALL
                out.add((tq, tsel, tcls))
                recv = _name(x.func.value) if isinstance(x.func, ast.Attribute) else None
                if recv in locals_ and w.derives(locals_[recv], "BaseSliver"):
                    nm = t.node.name
                    if nm == "set_name" or (nm in ("set_property", "set_properties") and (tsel is ALL or "name" in tsel)):
                        ncls.add(locals_[recv])
                if t.node.name.startswith("set_base_sliver_properties"):
                    for a in x.args:
                        if _name(a) in locals_ and w.derives(locals_[_name(a)], "BaseSliver"):
                            ncls.add(locals_[_name(a)])
        return out, ncls

    def closure(self, start, through_decode):
        seen = set()
        todo = [start]
        ncls = set()
        while todo:
            node = todo.pop()
            if node in seen:
                continue
            seen.add(node)
            if node != start and not through_decode and self.is_decode(self.w.fns[node[0]]):
                continue                        # reading the store back is not a way into it
            if node not in self.edges:
                self.edges[node], self.name_classes[node] = self.out_edges(*node)
            ncls |= self.name_classes[node]
            todo.extend(self.edges[node])
        return seen, ncls



# ---------------------------------------------------------------- names derived from a name parameter

def _concat(n):
    """a + b + c ...  -> list of parts: ('p', param name) or ('c', constant string); None if not a concatenation of those"""
    if isinstance(n, ast.BinOp) and isinstance(n.op, ast.Add):
        a, b = _concat(n.left), _concat(n.right)
        return None if a is None or b is None else a + b
    if isinstance(n, ast.Constant) and isinstance(n.value, str):
        return [("c", n.value)]
    if isinstance(n, ast.Name):
        return [("p", n.id)]
    return None


def derived_tables(w):
    """-> rows (entry, variant, class whose NAME_REGEX is applied, with parent prefix?, separator+suffix)"""
    import re as _re
    rows = []
    gen = w.fns.get("ComponentCatalog.generate_component")
    if gen is None:
        raise ExtractionError("ComponentCatalog.generate_component not found")
    loc = Graph(w).local_classes(gen)
    suffixes = {}           # 'FPGA' branch / default branch
    for x in ast.walk(gen.node):
        if isinstance(x, ast.If) and _contains(x.test, lambda y: isinstance(y, ast.Attribute) and y.attr == "FPGA"):
            for br, key in ((x.body, "FPGA"), (x.orelse, "*")):
                for st in br:
                    if isinstance(st, ast.Assign) and _name(st.targets[0]) == "ns_suffix" and isinstance(st.value, ast.Constant):
                        suffixes[key] = st.value.value
    if set(suffixes) != {"FPGA", "*"}:
        raise ExtractionError("generate_component: ns_suffix by component type not recognised (%s)" % suffixes)
    calls = {}
    for x in ast.walk(gen.node):
        if isinstance(x, ast.Call) and getattr(x.func, "attr", "") == "set_name" and _name(x.func.value) in loc and len(x.args) == 1:
            calls.setdefault(loc[_name(x.func.value)], []).append(_concat(x.args[0]))
    if calls.get("ComponentSliver") != [[("p", "name")]]:
        raise ExtractionError("generate_component: the component is not named by the name parameter alone")
    if calls.get("InterfaceSliver") != [[("p", "name"), ("c", "-"), ("p", "interface_name")]]:
        raise ExtractionError("generate_component: interface name idiom changed: %s" % calls.get("InterfaceSliver"))
    want_ns = [[("p", "parent_name"), ("c", "-"), ("p", "name"), ("p", "ns_suffix")], [("p", "name"), ("p", "ns_suffix")]]
    if sorted(calls.get("NetworkServiceSliver", []), key=repr) != sorted(want_ns, key=repr):
        raise ExtractionError("generate_component: service name idiom changed: %s" % calls.get("NetworkServiceSliver"))
    import json
    import os
    with open(os.path.join(REPO, "fim/slivers/data/component_catalog.json")) as f:
        cat = json.load(f)
    models = []
    for c in cat:
        enum = "_".join(_re.sub(r"[ -]", "_", c[k]) for k in ("Type", "Model"))
        ports = list(c.get("Interfaces", {}).keys())
        models.append((enum, c["Type"], ports))
        if ports:
            rows.append(("component", enum, "NetworkServiceSliver", True, suffixes["FPGA" if c["Type"] == "FPGA" else "*"]))
            for pn in ports:
                rows.append(("component", enum, "InterfaceSliver", False, "-" + pn))

    def name_plus(fnq, meth):
        out = []
        for x in ast.walk(w.fns[fnq].node):
            if isinstance(x, ast.Call) and getattr(x.func, "attr", "") == meth:
                for k in x.keywords:
                    if k.arg == "name":
                        c = _concat(k.value)
                        if c and len(c) == 2 and c[0] == ("p", "name") and c[1][0] == "c":
                            out.append(c[1][1])
        return out
    fac_ns, fac_if = name_plus("Topology.add_facility", "add_network_service"), name_plus("Topology.add_facility", "add_interface")
    sw_ns = name_plus("Topology.add_switch", "add_network_service")
    if len(fac_ns) != 1 or len(fac_if) != 1 or len(sw_ns) != 1:
        raise ExtractionError("add_facility / add_switch: derived names not recognised (%s %s %s)" % (fac_ns, fac_if, sw_ns))
    rows.append(("facility", "", "NetworkServiceSliver", False, fac_ns[0]))
    rows.append(("facility", "", "InterfaceSliver", False, fac_if[0]))
    rows.append(("switch", "", "NetworkServiceSliver", False, sw_ns[0]))
    return rows, models


# ---------------------------------------------------------------- names the library composes itself

def _is_composed(n):
    """a string built from parts: a + b, f"..{x}..", sep.join([...]), "..".format(..), "%s" % x"""
    if isinstance(n, ast.BinOp) and isinstance(n.op, (ast.Add, ast.Mod)):
        return True
    if isinstance(n, ast.JoinedStr):
        return True
    if isinstance(n, ast.Call) and isinstance(n.func, ast.Attribute) and n.func.attr in ("join", "format"):
        return True
    return False


def composed_names(w, entries):
    """every place where fim/user, fim/slivers compose a name (or hand on a variable holding a composed name) and what it is
    given to: `set_name` of a sliver (validated there), a `name=` argument of a constructor / add_* method (validated iff that
    callee is an entry point whose name parameter reaches set_name), or anything else (not validated)"""
    ok_entries = {e["entry"] for e in entries if e["domain"] == "name" and e["ok"] and not e["unguarded"]}
    rows = []
    g = Graph(w)
    for fn in w.fns.values():
        if not (fn.rel.startswith("fim/user/") or fn.rel.startswith("fim/slivers/")):
            continue
        composed_locals = set()
        for x in ast.walk(fn.node):
            if isinstance(x, ast.Assign) and len(x.targets) == 1 and isinstance(x.targets[0], ast.Name) and _is_composed(x.value):
                composed_locals.add(x.targets[0].id)

        def comp(v):
            return _is_composed(v) or (isinstance(v, ast.Name) and v.id in composed_locals) or \
                (isinstance(v, ast.BinOp) and any(isinstance(y, ast.Name) and y.id in composed_locals for y in ast.walk(v)))
        locals_ = g.local_classes(fn)
        for x in ast.walk(fn.node):
            if isinstance(x, ast.Call):
                m = x.func.attr if isinstance(x.func, ast.Attribute) else _name(x.func)
                if m == "set_name" and x.args and comp(x.args[0]):
                    recv = _name(x.func.value) if isinstance(x.func, ast.Attribute) else None
                    rcls = locals_.get(recv)
                    if rcls is None and isinstance(x.func, ast.Attribute) and isinstance(x.func.value, ast.Call) and _name(x.func.value.func) in w.classes:
                        rcls = _name(x.func.value.func)            # InterfaceSliver().set_name(..)
                    rows.append((fn.qual, "set_name", rcls or "?", bool(rcls) and w.derives(rcls, "BaseSliver")))
                    continue
                for k in x.keywords:
                    if k.arg in ("name", "new_name", "resource_name") and comp(k.value):
                        targets = [t for t, _ in g.resolve(fn, fn.cls, x, locals_)]
                        # only callees that can take this call's keywords at all
                        kws = {kk.arg for kk in x.keywords if kk.arg is not None}
                        targets = [t for t in targets if w.fns[t].kwarg is not None and k.arg in w.fns[t].params or kws <= set(w.fns[t].params)]
                        good = bool(targets) and all(t in ok_entries for t in targets)
                        rows.append((fn.qual, "name=", ",".join(sorted(targets)) or (m or "?"), good))
            elif isinstance(x, ast.Assign):
                for t in x.targets:
                    if isinstance(t, ast.Attribute) and t.attr in ("resource_name", "_name") and comp(x.value):
                        rows.append((fn.qual, "assign", t.attr, False))
    return sorted(set(rows))


# ---------------------------------------------------------------- the statement skeleton of Labels._set_fields

def set_fields_skeleton(w):
    """the order of the checks in the loop body of Labels._set_fields, as a list of step names; anything unrecognised is named
    `?<ast node>` so that the Lean `rfl` obligation that pins the order the hand-written model implements fails"""
    fn = w.fns.get("Labels._set_fields")
    if fn is None:
        raise ExtractionError("Labels._set_fields not found")
    body = strip_doc(fn.node.body)
    if len(body) != 2 or not isinstance(body[0], ast.For) or not isinstance(body[1], ast.Return) or _name(body[1].value) != "self":
        return ["?function-shape"]
    loop = body[0]
    out = []
    kv = [_name(e) for e in loop.target.elts] if isinstance(loop.target, ast.Tuple) else []
    if len(kv) != 2:
        return ["?loop-target"]
    k, v = kv

    def isinst(n, ty):
        return isinstance(n, ast.Call) and _name(n.func) == "isinstance" and len(n.args) == 2 and _name(n.args[1]) == ty

    for st in loop.body:
        if isinstance(st, ast.Assert):
            t = st.test
            if isinstance(t, ast.Compare) and _name(t.left) == v and isinstance(t.ops[0], ast.IsNot) and _is_none(t.comparators[0]):
                out.append("assert:not-none")
            elif isinstance(t, ast.BoolOp) and isinstance(t.op, ast.Or) and len(t.values) == 2 and isinst(t.values[0], "str") and _name(t.values[0].args[0]) == v:
                b = t.values[1]
                if isinst(b, "list") and _name(b.args[0]) == v:
                    out.append("assert:str-or-list")
                elif (isinstance(b, ast.BoolOp) and isinstance(b.op, ast.And) and len(b.values) == 2 and isinst(b.values[0], "list")
                      and isinstance(b.values[1], ast.Call) and _name(b.values[1].func) == "all" and len(b.values[1].args) == 1
                      and isinstance(b.values[1].args[0], ast.GeneratorExp) and isinst(b.values[1].args[0].elt, "str")
                      and _name(b.values[1].args[0].generators[0].iter) == v and not b.values[1].args[0].generators[0].ifs):
                    out.append("assert:str-or-list-of-str")
                else:
                    out.append("?assert")
            else:
                out.append("?assert")
        elif isinstance(st, ast.Try):
            for x in st.body:
                if (isinstance(x, ast.If) and not x.orelse and len(x.body) == 1 and isinstance(x.body[0], ast.Raise)
                        and isinstance(x.test, ast.Compare) and _name(x.test.left) == k and isinstance(x.test.ops[0], ast.NotIn)
                        and isinstance(x.test.comparators[0], ast.Attribute) and x.test.comparators[0].attr == "__dict__"
                        and _name(x.test.comparators[0].value) == "self"
                        and isinstance(x.body[0].exc, ast.Call) and _name(x.body[0].exc.func) == "AttributeError"):
                    out.append("field:instance-dict")
                elif isinstance(x, ast.Expr) and isinstance(x.value, ast.Call) and getattr(x.value.func, "attr", "") == "__getattribute__":
                    out.append("field:any-attribute")
                elif isinstance(x, ast.If) and _contains(x.test, lambda y: isinstance(y, ast.Attribute) and y.attr == "LAMBDA_VALIDATORS"):
                    out.append("range")
                elif isinstance(x, ast.If) and _contains(x.test, lambda y: isinstance(y, ast.Attribute) and y.attr == "VALIDATORS"):
                    out.append("regex")
                elif isinstance(x, ast.Expr) and isinstance(x.value, ast.Call) and getattr(x.value.func, "attr", "") == "__setattr__" \
                        and [_name(a) for a in x.value.args] == [k, v]:
                    out.append("store")
                elif (isinstance(x, ast.Assign) and all(isinstance(t, ast.Name) and t.id not in (k, v, "self") for t in x.targets)
                      and not _contains(x.value, lambda y: (isinstance(y, ast.Call) and _name(y.func) != "isinstance")
                                        or isinstance(y, (ast.Await, ast.Yield, ast.YieldFrom, ast.NamedExpr)))):
                    continue            # a pure local binding (candidates = v if isinstance(v, list) else [v]): no check, no store
                else:
                    out.append("?" + type(x).__name__)
            hs = st.handlers
            if (len(hs) == 1 and _name(hs[0].type) == "AttributeError" and not st.orelse and not st.finalbody
                    and isinstance(hs[0].body[-1], ast.If) and _name(hs[0].body[-1].test) == "forgiving"
                    and isinstance(hs[0].body[-1].orelse[-1], ast.Raise) and not _contains(ast.Module(body=hs[0].body[-1].body, type_ignores=[]), lambda y: isinstance(y, ast.Raise))):
                out.append("unknown:forgiving-skips,strict-raises")
            else:
                out.append("?handlers")
        else:
            out.append("?" + type(st).__name__)
    return out

# ---------------------------------------------------------------- entry points

def entry_params(w, fn):
    """-> [(param, domain)] of the parameters that carry a validated value"""
    out = []
    name = fn.node.name
    if fn.is_setter:
        if name in SETTER_DOMAIN:
            out.append((fn.params[1], SETTER_DOMAIN[name]))
        return out
    for p in fn.params:
        if (fn.qual, p) in QUALIFIED_PARAM_DOMAIN:
            out.append((p, QUALIFIED_PARAM_DOMAIN[(fn.qual, p)]))
        elif p in PARAM_DOMAIN:
            out.append((p, PARAM_DOMAIN[p]))
    if fn.cls in ("Labels",) and name in ("__init__", "_set_fields") and fn.kwarg:
        out.append(("**" + fn.kwarg, "labelfield"))
    elif fn.cls == "JSONField" and name == "update" and fn.kwarg:
        out.append(("**" + fn.kwarg, "labelfield"))
    elif fn.cls == "JSONField" and name == "from_json":
        out.append(("json_string", "labelfield"))
    elif fn.cls == "Tags" and name == "__init__":
        out.append(("*" + (fn.node.args.vararg.arg if fn.node.args.vararg else "?"), "tag"))
    elif fn.cls == "Tags" and name == "from_json":
        out.append(("json_string", "tag"))
    elif fn.cls in w.subclasses("JSONData") and name == "__init__":
        out.append(("data", "blob"))
    elif fn.cls == "Gateway" and name == "from_json":
        out.append(("json_string", "labelfield"))
    elif name in ("update_labels",) and fn.kwarg:
        out.append(("**" + fn.kwarg, "labelfield"))
    elif fn.kwarg and (fn.rel.startswith("fim/user/") or (w.derives(fn.cls, "BaseSliver") and name == "set_properties")):
        used = any(isinstance(x, ast.Name) and x.id == fn.kwarg for x in ast.walk(fn.node))
        if used:
            out.append(("**" + fn.kwarg, "any"))
        else:
            DROPPED_KWARGS.add(fn.qual)       # accepted and never looked at (Topology.add_switch): nothing can be stored through it
    if fn.sel_param and any(p in ("pval", "prop_val") for p in fn.params):
        out.append((next(p for p in fn.params if p in ("pval", "prop_val")), "any"))
    if fn.rel == GRAPH_FILE and (name.endswith("_from_graph_properties_dict") or name.endswith("_from_dict")):
        out.append(("d" if "d" in fn.params else "props", "any"))
    return out


NOT_ENTRY = {"ModelElement.update_capacities": "the keyword arguments are capacities (C15), not a C16 domain"}
LOOKUP_PREFIXES = ("remove_", "get_")       # the name is a key to find an element by, nothing is stored


def public(fn):
    n = fn.node.name
    if fn.is_getter or fn.qual in NOT_ENTRY or n.startswith(LOOKUP_PREFIXES):
        return False
    if n in ("__init__",):
        return True
    if fn.cls == "Labels" and n == "_set_fields":
        return True
    return not n.startswith("_")


def discover(w=None):
    w = w or build_world()
    stores = scan_stores(w)
    writers = {}
    for q, dom, what, g in stores:
        writers.setdefault(q, []).append((dom, what, g))
    guarded_writers = {q for q, lst in writers.items() if all(g != "unguarded" for _, _, g in lst)}
    gr = Graph(w)
    entries = []
    for q in sorted(w.fns):
        fn = w.fns[q]
        if not public(fn):
            continue
        if fn.rel == GRAPH_FILE and not (fn.node.name.endswith("_from_graph_properties_dict") or fn.node.name.endswith("_from_dict")):
            continue
        if fn.cls is not None and w.derives(fn.cls, "JSONField") and fn.cls not in ("Labels", "JSONField"):
            continue                     # Capacities, Location, Flags ...: not C16 domains
        params = entry_params(w, fn)
        if not params:
            continue
        seen, ncls = gr.closure((q, ALL, fn.cls), Graph.is_decode(fn))
        reach_fns = {n[0] for n in seen if not (n[0] != q and not Graph.is_decode(fn) and Graph.is_decode(w.fns[n[0]]))}
        reach_writers = sorted(reach_fns & set(writers))
        if not reach_writers:
            continue
        unguarded = sorted("%s: %s" % (x, what) for x in reach_writers for _, what, g in writers[x] if g == "unguarded")
        for p, dom in params:
            req = REQUIRED[dom]
            if dom == "any":
                ok = all(r in reach_fns for r in req)
                reached = [r for r in req if r in reach_fns]
            else:
                reached = [r for r in req if r in reach_fns]
                ok = bool(reached)
            entries.append({"entry": q, "param": p, "domain": dom, "requires": req, "reached": reached, "ok": ok,
                            "unguarded": unguarded, "name_classes": sorted(ncls) if dom in ("name", "any") else []})
    return {"stores": stores, "entries": entries, "guarded_writers": sorted(guarded_writers), "world": w}


def generate():
    d = discover()
    stores, entries = d["stores"], d["entries"]
    try:
        import lib_c16ep
        probes, exempt = set(lib_c16ep.PROBES), dict(lib_c16ep.EXEMPT)
    except ImportError as e:
        raise ExtractionError("harness/lib_c16ep.py (probe registry) cannot be imported: %s" % e)
    names = sorted({e["entry"] for e in entries})
    new = [n for n in names if n not in probes and n not in exempt]
    gone = sorted((probes | set(exempt)) - set(names))
    if new or gone:
        raise ExtractionError("entry points that take a validated value changed: without a probe %s, no longer there %s "
                              "(harness/lib_c16ep.PROBES / EXEMPT)" % (new, gone))
    body = "/-- guard idioms the translator recognises (see gen/entrypoints.py) -/\n"
    body += "def guardKinds : List String := %s\n\n" % lean_list([lean_str(g) for g in GUARD_KINDS])
    body += "structure Store where\n  fn : String\n  domain : String\n  what : String\n  guard : String\n  deriving Repr\n\n"
    body += "/-- every statement that writes a value of a validated domain into a sliver, a Labels/Tags/JSON object, a model element\n"
    body += "    or the graph, with the check that dominates it in the same function -/\n"
    body += "def stores : List Store := [\n  " + ",\n  ".join(
        "⟨%s, %s, %s, %s⟩" % (lean_str(a), lean_str(b), lean_str(c), lean_str(g)) for a, b, c, g in stores) + "]\n\n"
    body += "structure Entry where\n  fn : String\n  param : String\n  domain : String\n  requires : List String\n  reached : List String\n"
    body += "  unguarded : List String\n  nameClasses : List String\n  probed : Bool\n  deriving Repr\n\n"
    body += "/-- every public function that takes a value of a validated domain and can reach a store -/\n"
    body += "def entryPoints : List Entry := [\n  " + ",\n  ".join(
        "⟨%s, %s, %s, %s, %s, %s, %s, %s⟩" % (
            lean_str(e["entry"]), lean_str(e["param"]), lean_str(e["domain"]), lean_list([lean_str(x) for x in e["requires"]]),
            lean_list([lean_str(x) for x in e["reached"]]), lean_list([lean_str(x) for x in e["unguarded"]]),
            lean_list([lean_str(x) for x in e["name_classes"]]), "true" if e["entry"] in probes else "false")
        for e in entries) + "]\n\n"
    pending = None
    try:
        drows, models = derived_tables(d["world"])
    except ExtractionError as e:      # still emit the store / entry-point tables of the source as it is; report afterwards
        drows, models, pending = [], [], e
    body += "structure Derived where\n  kind : String\n  variant : String\n  cls : String\n  withParent : Bool\n  suffix : String\n  deriving Repr, DecidableEq\n\n"
    body += "/-- names an entry point derives from its name parameter and validates against another class's NAME_REGEX:\n"
    body += "    component (per catalogue model with interfaces): '<parent>-<name><ns suffix>' as a service, '<name>-<port>' as interfaces;\n"
    body += "    facility: '<name>-ns', '<name>-int'; switch: '<name>-ns' -/\n"
    body += "def derived : List Derived := [\n  " + ",\n  ".join(
        "⟨%s, %s, %s, %s, %s⟩" % (lean_str(a), lean_str(b), lean_str(c), "true" if p_ else "false", lean_str(sf)) for a, b, c, p_, sf in drows) + "]\n\n"
    crows = composed_names(d["world"], entries)
    body += "/-- names the library composes itself (a + b, f-strings, join) and what they are handed to: `set_name` of a sliver class,\n"
    body += "    the name parameter of an entry point of the table above, or something that does not validate -/\n"
    body += "def composedNames : List (String × String × String × Bool) := [\n  " + ",\n  ".join(
        "(%s, %s, %s, %s)" % (lean_str(a), lean_str(b), lean_str(c), "true" if ok_ else "false") for a, b, c, ok_ in crows) + "]\n\n"
    sk = set_fields_skeleton(d["world"])
    body += "/-- the checks of one loop iteration of Labels._set_fields, in source order -/\n"
    body += "def setFieldsSkeleton : List String := %s\n\n" % lean_list([lean_str(x) for x in sk])
    body += "/-- functions all of whose stores are guarded -/\n"
    body += "def guardedWriters : List String := %s\n" % lean_list([lean_str(x) for x in d["guarded_writers"]])
    changed = emit("EntryPoints", body)
    if pending is not None:
        raise pending
    return {"stores": len(stores), "unguarded_stores": [s for s in stores if s[3] == "unguarded"],
            "entry_points": len(names), "rows": len(entries), "probed": len([n for n in names if n in probes]),
            "guards_confirmed_behaviourally": list(PROBED),
            "exempt": {n: exempt[n] for n in names if n in exempt},
            "not_reaching": [(e["entry"], e["param"]) for e in entries if not e["ok"]], "changed": changed,
            "set_fields_skeleton": sk, "derived_rows": len(drows), "composed_names": len(crows), "composed_unvalidated": [r for r in crows if not r[3]], "dropped_kwargs": sorted(DROPPED_KWARGS), "not_entry": NOT_ENTRY}
