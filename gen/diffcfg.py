"""Extract what is regular in the sliver comparison methods (C17) into lean/FimVerif/Generated/DiffCfg.lean.

Sources read: fim/slivers/base_sliver.py       BaseSliver.prop_diff (+ the constant table it may loop over), get_* accessors
              fim/slivers/topology_diff.py     WhatsModifiedFlag member values, field names of the three result dataclasses
              fim/slivers/network_node.py      NodeSliver.diff            (+ private helpers it calls on self)
              fim/slivers/network_service.py   NetworkServiceSliver.diff, NetworkServiceInfo
              fim/slivers/interface_info.py    InterfaceSliver.diff, InterfaceInfo
              fim/slivers/attached_components.py  AttachedComponentsInfo
              fim/slivers/capacities_labels.py  Labels.__eq__, Capacities.__eq__ (default for a missing field, `not other` guard)
              fim/slivers/json_data.py         JSONData.__eq__ / _canonical (same class, canonical JSON text)

The methods are not pattern-matched as text: a small symbolic evaluator runs each `diff` once for every combination of
"the *Info object is present / absent" on both sides (so `if self.x_info and other.x_info` is a concrete test) and once
through the loop over the common children with a symbolic element.  Locals are values, so renaming them, reading an attribute
chain into a local first, `list()` vs `[]`, `len(x) > 0` vs plain truthiness vs `any((...))`, a loop over a constant table
instead of copy-pasted `if`s, and moving a block into a private helper that returns its collections all give the same
summary.  The summary (which collections are tested at the end, what lands in which field of the result, in every
presence combination) is then required to be exactly what the table `Cfg` (lean/FimVerif/Model/DiffCfg.lean) expresses;
anything else is an ExtractionError.
"""
import ast
import importlib.util
import itertools
import os

from .common import *

F_BASE = "fim/slivers/base_sliver.py"
F_TDIFF = "fim/slivers/topology_diff.py"
F_NODE = "fim/slivers/network_node.py"
F_SVC = "fim/slivers/network_service.py"
F_IFACE = "fim/slivers/interface_info.py"
F_COMP = "fim/slivers/attached_components.py"

# (info attribute of a sliver, Info class, file, dictionary attribute) -> Coll
COLLS = {
    "comps": ("attached_components_info", "AttachedComponentsInfo", F_COMP),
    "svcs": ("network_service_info", "NetworkServiceInfo", F_SVC),
    "ifs": ("interface_info", "InterfaceInfo", F_IFACE),
}
INFO_ATTRS = {v[0]: k for k, v in COLLS.items()}
PROP_ATTRS = {"labels": "labels", "capacities": "caps", "user_data": "ud"}
FLAG_MEMBERS = {"LABELS": "labels", "CAPACITIES": "caps", "USER_DATA": "ud", "SUB_INTERFACES": "sub"}
SLOTS = ("nodes", "components", "services", "interfaces")
SECTS = ("added", "removed", "modified")
TYPE_ENUMS = {"comps": "ComponentType", "ifs": "InterfaceType"}


class X(ExtractionError):
    pass


def bad(msg, node=None):
    where = " (line %s)" % node.lineno if node is not None and hasattr(node, "lineno") else ""
    raise X(msg + where)


# ------------------------------------------------------------------------------------------------
# symbolic evaluator
#
# values (tuples):
#   ("sliver", side)                          self / other_sliver
#   ("info", side, infoattr)                  self.interface_info ...
#   ("dict", side, coll)                      self.interface_info.interfaces ...
#   ("ddiff", dA, dB) ("dsub", key, dA, dB)   _dict_diff(...) and its ['added'] / ['removed']
#   ("common", dA, dB)                        _dict_common(...)
#   ("vals", v)                               v.values()
#   ("elem", common)                          the loop variable over common.values()
#   ("partner", dict, keyattr)                the element of `dict` under elem.<keyattr>
#   ("attr", v, name)                         any other attribute
#   ("first", owner, coll)                    list(owner.<info>.<dict>.values())[0]
#   ("diff", a, b)                            a.diff(b)
#   ("dslot", diff, sect, slot)               <diff>.added.interfaces ...
#   ("propdiff", a, b)                        a.prop_diff(b)
#   ("getter", side, attr)                    self.get_labels() / self.labels
#   ("flagv", base, ors)                      a WhatsModifiedFlag value: base is ("none",) or a propdiff, ors = ((member, path), ...)
#   ("coll", parts)                           a set / list under construction: parts are ("sub", key, dA, dB) | ("all", dict) |
#                                             ("item", itemvalue, path, loop)
#   ("tuple", (v, ...)), ("const", python value), ("enum", cls, member), ("tt", kind, {field: v})
# conditions: python bool | ("nonempty", v) | ("truthy", v) | ("ne", a, b) | ("typeis", who, enumcls, (members)) |
#             ("nonnone", flagv) | ("and", (..)) | ("or", (..)) | ("not", c)


class Ret(Exception):
    def __init__(self, value):
        self.value = value


class Ev:
    def __init__(self, cls_node, module_node, base_cls, presence, fields):
        self.cls = cls_node
        self.module = module_node
        self.base = base_cls
        self.presence = presence          # {(side, infoattr): bool}
        self.fields = fields              # {"TopologyDiff": [...], ...}
        self.depth = 0
        self.super_diff = 0               # times `super().diff(<other>)` was evaluated

    # ---- helpers
    def find_method(self, name):
        for c in (self.cls, self.base):
            if c is None:
                continue
            for n in c.body:
                if isinstance(n, ast.FunctionDef) and n.name == name:
                    return n
        return None

    def module_const(self, name):
        for mod in (self.module,):
            for n in mod.body:
                if isinstance(n, ast.Assign) and len(n.targets) == 1 and isinstance(n.targets[0], ast.Name) and n.targets[0].id == name:
                    return n.value
        for c in (self.cls, self.base):
            if c is None:
                continue
            for n in c.body:
                if isinstance(n, ast.Assign) and len(n.targets) == 1 and isinstance(n.targets[0], ast.Name) and n.targets[0].id == name:
                    return n.value
        return None

    def truthy(self, v, node=None):
        if isinstance(v, bool):
            return v
        k = v[0]
        if k == "info":
            return self.presence[(v[1], v[2])]
        if k == "sliver":
            return True
        if k == "coll":
            return ("nonempty", v)
        if k == "dslot":
            return ("nonempty", v)
        if k == "diff":
            return ("truthy", v)
        if k in ("nonempty", "truthy", "ne", "eq", "typeis", "nonnone", "and", "or", "not"):
            return v
        if k == "const":
            return bool(v[1])
        bad("truth value of %r is not understood" % (v,), node)

    def mk_bool(self, op, vals):
        out = []
        for v in vals:
            if isinstance(v, bool):
                if op == "and" and not v:
                    return False
                if op == "or" and v:
                    return True
                continue
            if v[0] == op:
                out.extend(v[1])
            else:
                out.append(v)
        if not out:
            return op == "and"
        if len(out) == 1:
            return out[0]
        return (op, tuple(out))

    # ---- expressions
    def ev(self, n, env):
        m = getattr(self, "e_" + type(n).__name__, None)
        if m is None:
            bad("unsupported expression %s" % type(n).__name__, n)
        return m(n, env)

    def e_Name(self, n, env):
        if n.id in env:
            return env[n.id]
        c = self.module_const(n.id)
        if c is not None:
            return self.ev(c, {})
        if n.id in ("WhatsModifiedFlag", "ComponentType", "InterfaceType", "TopologyDiff", "TopologyDiffTuple",
                    "TopologyDiffModifiedTuple", "set", "list", "len", "any", "bool", "getattr", "tuple"):
            return ("global", n.id)
        bad("unknown name %s" % n.id, n)

    def e_Constant(self, n, env):
        return ("const", n.value)

    def e_Tuple(self, n, env):
        return ("tuple", tuple(self.ev(e, env) for e in n.elts))

    def e_List(self, n, env):
        if not n.elts:
            return ("coll", ())
        return ("tuple", tuple(self.ev(e, env) for e in n.elts))

    def attr_of(self, v, name, node):
        k = v[0]
        if k == "global":
            if v[1] == "WhatsModifiedFlag":
                return ("flagv", ("none",), ()) if name == "NONE" else ("flagconst", name)
            if v[1] in ("ComponentType", "InterfaceType"):
                return ("enum", v[1], name)
        if k == "sliver":
            if name in INFO_ATTRS:
                return ("info", v[1], name)
            if name in PROP_ATTRS:
                return ("getter", v[1], name)
            return ("attr", v, name)
        if k == "info":
            coll = INFO_ATTRS[v[2]]
            if name == self.dict_attr(coll):
                return ("dict", v[1], coll)
            return ("attr", v, name)
        if k in ("elem", "partner", "first") and name in INFO_ATTRS:
            return ("einfo", v, INFO_ATTRS[name])
        if k == "einfo" and name == self.dict_attr(v[2]):
            return ("edict", v[1], v[2])
        if k == "diff" and name in SECTS:
            return ("dsect", v, name)
        if k == "dsect" and name in SLOTS:
            return ("dslot", v[1], v[2], name)
        return ("attr", v, name)

    def dict_attr(self, coll):
        return INFO_FACTS[coll]["dict"]

    def e_Attribute(self, n, env):
        return self.attr_of(self.ev(n.value, env), n.attr, n)

    def e_Subscript(self, n, env):
        v = self.ev(n.value, env)
        s = self.ev(n.slice, env)
        if v[0] == "ddiff" and s[0] == "const" and s[1] in ("added", "removed"):
            return ("dsub", s[1], v[1], v[2])
        if v[0] == "listvals" and s == ("const", 0):
            return ("first", v[1], v[2])
        if v[0] == "dict" and s[0] == "attr" and s[1][0] == "elem":
            return ("partner", v, s[2])
        if v[0] == "dict" and s[0] == "keyof" and s[1][0] == "elem":
            return ("partner", v, INFO_FACTS[v[2]]["key"])
        bad("unsupported subscript %r[%r]" % (v, s), n)

    def e_BoolOp(self, n, env):
        op = "and" if isinstance(n.op, ast.And) else "or"
        return self.mk_bool(op, [self.truthy(self.ev(v, env), v) for v in n.values])

    def e_UnaryOp(self, n, env):
        if not isinstance(n.op, ast.Not):
            bad("unsupported unary operator", n)
        v = self.truthy(self.ev(n.operand, env), n.operand)
        if isinstance(v, bool):
            return not v
        if v[0] == "eq":
            return ("ne", v[1], v[2])
        return ("not", v)

    def e_BinOp(self, n, env):
        a, b = self.ev(n.left, env), self.ev(n.right, env)
        if isinstance(n.op, ast.Add) and a[0] == "coll" and b[0] == "coll":
            return ("coll", a[1] + b[1])
        bad("unsupported binary operator", n)

    def e_Compare(self, n, env):
        if len(n.ops) != 1:
            bad("chained comparison", n)
        op = n.ops[0]
        a, b = self.ev(n.left, env), self.ev(n.comparators[0], env)
        # len(x) > 0  /  len(x) != 0  /  len(x) >= 1
        if a[0] == "len":
            if (isinstance(op, (ast.Gt, ast.NotEq)) and b == ("const", 0)) or (isinstance(op, ast.GtE) and b == ("const", 1)):
                return ("nonempty", a[1])
            if isinstance(op, ast.Eq) and b == ("const", 0):
                return ("not", ("nonempty", a[1]))
            bad("unsupported length test", n)
        # flag != NONE
        none = ("flagv", ("none",), ())
        if a[0] == "flagv" and b == none and isinstance(op, (ast.NotEq, ast.IsNot)):
            return ("nonnone", a) if a != none else False
        if b[0] == "flagv" and a == none and isinstance(op, (ast.NotEq, ast.IsNot)):
            return ("nonnone", b) if b != none else False
        # x.get_type() == Enum.member / in (..)
        if a[0] == "gettype":
            if isinstance(op, ast.Eq) and b[0] == "enum":
                return ("typeis", a[1], b[1], (b[2],))
            if isinstance(op, ast.In) and b[0] == "tuple" and all(e[0] == "enum" for e in b[1]) and len({e[1] for e in b[1]}) == 1:
                return ("typeis", a[1], b[1][0][1], tuple(e[2] for e in b[1]))
            bad("unsupported type test", n)
        if b[0] == "gettype" and isinstance(op, ast.Eq) and a[0] == "enum":
            return ("typeis", b[1], a[1], (a[2],))
        if a[0] == "getter" and b[0] == "getter":
            if isinstance(op, ast.NotEq):
                return ("ne", a, b)
            if isinstance(op, ast.Eq):
                return ("eq", a, b)
        bad("unsupported comparison %r %s %r" % (a, type(op).__name__, b), n)

    def e_IfExp(self, n, env):
        t = self.truthy(self.ev(n.test, env), n.test)
        if isinstance(t, bool):
            return self.ev(n.body if t else n.orelse, env)
        bad("conditional expression on a symbolic test", n)

    def e_Call(self, n, env):
        f = n.func
        args = [self.ev(a, env) for a in n.args]
        kws = {k.arg: self.ev(k.value, env) for k in n.keywords}
        if any(k is None for k in kws):
            bad("**kwargs in a call", n)
        # super().diff(other) - the isinstance assertion of the abstract method
        if isinstance(f, ast.Attribute) and isinstance(f.value, ast.Call) and isinstance(f.value.func, ast.Name) and f.value.func.id == "super":
            if f.attr == "diff" and args == [("sliver", "other")] and not kws and self.depth == 1:
                self.super_diff += 1
            return ("const", None)
        if isinstance(f, ast.Name):
            g = f.id
            if g in env:
                bad("call of a local %s" % g, n)
            if g in ("set", "list", "tuple"):
                if not args and not kws:
                    return ("coll", ())
                (a,) = args
                if a[0] == "vals":
                    inner = a[1]
                    if inner[0] == "dsub":
                        return ("coll", (("sub",) + inner[1:],))
                    if inner[0] == "dict":
                        return ("coll", (("all", inner),))
                    if inner[0] == "edict":
                        return ("listvals", inner[1], inner[2])
                    if inner[0] == "common":
                        return a
                if a[0] == "coll":
                    return a
                bad("unsupported %s(%r)" % (g, a), n)
            if g == "len":
                (a,) = args
                if a[0] in ("coll", "dslot"):
                    return ("len", a)
                bad("len of %r" % (a,), n)
            if g == "bool":
                (a,) = args
                return self.truthy(a, n)
            if g == "any":
                (a,) = args
                if a[0] == "tuple":
                    return self.mk_bool("or", [self.truthy(x, n) for x in a[1]])
                bad("any over %r" % (a,), n)
            if g == "getattr":
                if len(args) == 2 and args[1][0] == "const" and isinstance(args[1][1], str):
                    return self.attr_of(args[0], args[1][1], n)
                bad("getattr with a non-constant name", n)
            if g in ("TopologyDiff", "TopologyDiffTuple", "TopologyDiffModifiedTuple"):
                names = self.fields[g]
                if len(args) > len(names):
                    bad("too many arguments to %s" % g, n)
                d = dict(zip(names, args))
                for k, v in kws.items():
                    if k not in names or k in d:
                        bad("bad keyword %s for %s" % (k, g), n)
                    d[k] = v
                if set(d) != set(names):
                    bad("%s(...) does not set every field" % g, n)
                return ("tt", g, tuple(sorted(d.items())))
            bad("call of unknown function %s" % g, n)
        recv = meth = None
        if isinstance(f, ast.Attribute):
            recv = self.ev(f.value, env)
            meth = f.attr
        else:
            fv = self.ev(f, env)             # e.g. getattr(self, 'get_labels')()
            if fv[0] == "attr":
                recv, meth = fv[1], fv[2]
        if meth is not None:
            if recv[0] == "sliver" and recv[1] == "self" or (recv[0] == "global"):
                if meth == "_dict_diff" and len(args) == 2 and not kws and args[0][0] == "dict" and args[1][0] == "dict":
                    if args[0][2] != args[1][2]:
                        bad("_dict_diff of two different child dictionaries", n)
                    return ("ddiff", args[0], args[1])
                if meth == "_dict_common" and len(args) == 2 and not kws and args[0][0] == "dict" and args[1][0] == "dict":
                    if args[0][2] != args[1][2]:
                        bad("_dict_common of two different child dictionaries", n)
                    return ("common", args[0], args[1])
            if meth == "prop_diff" and len(args) == 1 and not kws and recv[0] in ("sliver", "elem", "partner"):
                return ("flagv", ("propdiff", recv, args[0]), ())
            if meth == "diff" and len(args) == 1 and not kws and recv[0] in ("elem", "partner", "first"):
                return ("diff", recv, args[0])
            if meth == "get_type" and not args and recv[0] in ("elem", "partner"):
                return ("gettype", recv)
            if meth == "values" and not args and recv[0] in ("dsub", "common", "dict", "edict"):
                return ("vals", recv)
            if meth == "items" and not args and recv[0] == "common":
                return ("items", recv)
            if recv[0] == "info" and len(args) == 1 and not kws and meth in INFO_FACTS[INFO_ATTRS[recv[2]]]["getters"]:
                a = args[0]
                if a[0] == "attr" and a[1][0] == "elem":
                    return ("partner", ("dict", recv[1], INFO_ATTRS[recv[2]]), a[2])
                if a[0] == "keyof" and a[1][0] == "elem":
                    # the key the common dictionary holds the element under: the attribute add_* stores it by
                    return ("partner", ("dict", recv[1], INFO_ATTRS[recv[2]]), INFO_FACTS[INFO_ATTRS[recv[2]]]["key"])
                bad("%s(%r): not the key of the loop element" % (meth, a), n)
            if recv[0] == "sliver" and not args and not kws and meth.startswith("get_"):
                acc = self.find_method(meth)
                if acc is not None:
                    body = strip_doc(acc.body)
                    if len(body) == 1 and isinstance(body[0], ast.Return) and isinstance(body[0].value, ast.Attribute) \
                            and isinstance(body[0].value.value, ast.Name) and body[0].value.value.id == "self":
                        return self.attr_of(recv, body[0].value.attr, n)
                bad("accessor %s is not `return self.<attr>`" % meth, n)
            # a private helper of the same class called on self: evaluate its body
            if recv == ("sliver", "self") and meth.startswith("_"):
                fn = self.find_method(meth)
                if fn is not None:
                    return self.call_method(fn, recv, args, kws, n)
            bad("unsupported call .%s on %r" % (meth, recv), n)
        bad("unsupported call", n)

    def call_method(self, fn, selfv, args, kws, node):
        if self.depth > 4:
            bad("helper nesting too deep", node)
        a = fn.args
        if a.vararg or a.kwarg or a.kwonlyargs or a.posonlyargs:
            bad("helper %s has an unsupported signature" % fn.name, node)
        params = [p.arg for p in a.args]
        static = any(isinstance(d, ast.Name) and d.id == "staticmethod" for d in fn.decorator_list)
        if any(not (isinstance(d, ast.Name) and d.id in ("staticmethod", "abstractmethod")) for d in fn.decorator_list):
            bad("helper %s has an unsupported decorator" % fn.name, node)
        if static:
            env, rest = {}, params
        else:
            if not params:
                bad("helper %s has no self" % fn.name, node)
            env = {params[0]: selfv}
            rest = params[1:]
        if len(args) > len(rest):
            bad("too many arguments for %s" % fn.name, node)
        for p, v in zip(rest, args):
            env[p] = v
        for k, v in kws.items():
            if k not in rest or k in env:
                bad("bad keyword argument %s for %s" % (k, fn.name), node)
            env[k] = v
        defaults = dict(zip(rest[len(rest) - len(a.defaults):], a.defaults))
        for p in rest:
            if p not in env:
                if p in defaults:
                    env[p] = self.ev(defaults[p], {})
                else:
                    bad("missing argument %s for %s" % (p, fn.name), node)
        self.depth += 1
        try:
            try:
                self.block(strip_doc(fn.body), env, (), None)
            except Ret as r:
                return r.value
            return ("const", None)
        finally:
            self.depth -= 1

    # ---- statements.  `path` = symbolic conditions we are under, `loop` = the common dictionary iterated over (or None)
    def block(self, stmts, env, path, loop):
        for i, s in enumerate(stmts):
            if isinstance(s, ast.If):
                t = self.truthy(self.ev(s.test, env), s.test)
                if isinstance(t, bool):
                    self.block(s.body if t else s.orelse, env, path, loop)
                    continue
                if self.returns(s.body) or self.returns(s.orelse):
                    # `if <anything to report>: return TopologyDiff(...)` [else:] `return None` - only as the tail of a method
                    if path or loop is not None:
                        bad("return under a symbolic condition inside a branch or loop", s)
                    va = self.tail_value(s.body, env)
                    vb = self.tail_value(s.orelse + stmts[i + 1:], env)
                    raise Ret(("ifret", t, va, vb))
                self.block(s.body, env, path + (t,), loop)
                if s.orelse:
                    self.block(s.orelse, env, path + (("not", t),), loop)
                continue
            self.stmt(s, env, path, loop)

    def returns(self, stmts):
        return any(isinstance(x, ast.Return) for s in stmts for x in ast.walk(s))

    def tail_value(self, stmts, env):
        env2 = dict(env)
        try:
            self.block(stmts, env2, (), None)
        except Ret as r:
            return r.value
        return ("const", None)

    def assign(self, target, value, env, path, loop, node):
        if isinstance(target, ast.Name):
            if path and target.id in env and value[0] not in ("flagv", "coll"):
                bad("a local that exists before the branch is re-assigned under a symbolic condition", node)
            if path and target.id in env and value[0] == "coll":
                bad("a collection is replaced under a symbolic condition", node)
            env[target.id] = value
            return
        if isinstance(target, (ast.Tuple, ast.List)) and value[0] == "tuple" and len(value[1]) == len(target.elts):
            for t, v in zip(target.elts, value[1]):
                self.assign(t, v, env, path, loop, node)
            return
        bad("unsupported assignment target", node)

    def stmt(self, s, env, path, loop):
        if isinstance(s, (ast.Assert, ast.Pass)):
            return
        if isinstance(s, ast.Expr):
            if isinstance(s.value, ast.Constant):
                return
            c = s.value
            if isinstance(c, ast.Call) and isinstance(c.func, ast.Attribute) and c.func.attr in ("append", "add") \
                    and isinstance(c.func.value, ast.Name) and len(c.args) == 1 and not c.keywords:
                name = c.func.value.id
                cur = env.get(name)
                if cur is None or cur[0] != "coll":
                    bad("append to something that is not a collection", s)
                env[name] = ("coll", cur[1] + (("item", self.ev(c.args[0], env), path, loop),))
                return
            self.ev(c, env)          # e.g. super().diff(other)
            return
        if isinstance(s, ast.Assign):
            v = self.ev(s.value, env)
            for t in s.targets:
                self.assign(t, v, env, path, loop, s)
            return
        if isinstance(s, ast.AnnAssign) and s.value is not None:
            self.assign(s.target, self.ev(s.value, env), env, path, loop, s)
            return
        if isinstance(s, ast.AugAssign):
            if isinstance(s.op, ast.BitOr) and isinstance(s.target, ast.Name):
                cur = env.get(s.target.id)
                v = self.ev(s.value, env)
                if cur is not None and cur[0] == "flagv" and v[0] == "flagconst":
                    env[s.target.id] = ("flagv", cur[1], cur[2] + ((v[1], path),))
                    return
            bad("unsupported augmented assignment", s)
        if isinstance(s, ast.Return):
            if path:
                bad("return under a symbolic condition", s)
            raise Ret(self.ev(s.value, env) if s.value is not None else ("const", None))
        if isinstance(s, ast.For):
            if s.orelse:
                bad("for-else", s)
            it = self.ev(s.iter, env)
            if it[0] == "tuple":               # a constant table: unroll
                for e in it[1]:
                    self.assign(s.target, e, env, (), loop, s)
                    self.block(s.body, env, path, loop)
                return
            if it[0] == "vals" and it[1][0] == "common" and isinstance(s.target, ast.Name):
                if loop is not None or path:
                    bad("nested loop", s)
                env[s.target.id] = ("elem", it[1])
                self.block(s.body, env, (), it[1])
                return
            if it[0] == "items" and isinstance(s.target, ast.Tuple) and len(s.target.elts) == 2 \
                    and all(isinstance(e, ast.Name) for e in s.target.elts):
                if loop is not None or path:
                    bad("nested loop", s)
                env[s.target.elts[1].id] = ("elem", it[1])
                env[s.target.elts[0].id] = ("keyof", ("elem", it[1]))
                self.block(s.body, env, (), it[1])
                return
            bad("loop over %r" % (it,), s)
        bad("unsupported statement %s" % type(s).__name__, s)


# ------------------------------------------------------------------------------------------------
# facts about the *Info classes and the result dataclasses

INFO_FACTS = {}


def info_facts():
    """dictionary attribute, key attribute of add_*, names of the get-by-name methods, no __bool__/__len__"""
    out = {}
    for coll, (attr, cname, rel) in COLLS.items():
        tree, _ = parse(rel)
        cls = find_class(tree, cname)
        if cls.bases:
            bad("%s has base classes" % cname)
        dicts = set()
        init = find_func(cls, "__init__")
        for n in ast.walk(init):
            if isinstance(n, ast.Assign) and len(n.targets) == 1 and isinstance(n.targets[0], ast.Attribute) \
                    and isinstance(n.targets[0].value, ast.Name) and n.targets[0].value.id == "self" and isinstance(n.value, ast.Dict) \
                    and not n.value.keys:
                dicts.add(n.targets[0].attr)
        keys = {}
        getters = {}
        presence = True
        for m in cls.body:
            if not isinstance(m, ast.FunctionDef):
                continue
            if m.name in ("__bool__", "__len__"):
                presence = False
            params = [a.arg for a in m.args.args][1:]
            for n in ast.walk(m):
                # self.<dict>[<param>.<key>] = <param>
                if isinstance(n, ast.Assign) and len(n.targets) == 1 and isinstance(n.targets[0], ast.Subscript):
                    t = n.targets[0]
                    if isinstance(t.value, ast.Attribute) and isinstance(t.value.value, ast.Name) and t.value.value.id == "self" \
                            and t.value.attr in dicts and isinstance(t.slice, ast.Attribute) and isinstance(t.slice.value, ast.Name) \
                            and t.slice.value.id in params and isinstance(n.value, ast.Name) and n.value.id == t.slice.value.id:
                        keys.setdefault(t.value.attr, set()).add(t.slice.attr)
            body = [s for s in strip_doc(m.body) if not isinstance(s, ast.Assert)]
            if len(params) == 1 and len(body) == 1 and isinstance(body[0], ast.Return):
                r = body[0].value
                # return self.<dict>.get(<param>[, None])
                if isinstance(r, ast.Call) and isinstance(r.func, ast.Attribute) and r.func.attr == "get" \
                        and isinstance(r.func.value, ast.Attribute) and isinstance(r.func.value.value, ast.Name) \
                        and r.func.value.value.id == "self" and r.func.value.attr in dicts and 1 <= len(r.args) <= 2 \
                        and isinstance(r.args[0], ast.Name) and r.args[0].id == params[0] \
                        and (len(r.args) == 1 or (isinstance(r.args[1], ast.Constant) and r.args[1].value is None)):
                    getters[m.name] = r.func.value.attr
        main = [d for d in keys if len(keys[d]) == 1]
        if len(main) != 1:
            bad("%s: cannot tell the name-keyed dictionary (candidates %s)" % (cname, sorted(keys)))
        d = main[0]
        out[coll] = {"dict": d, "key": next(iter(keys[d])), "getters": sorted(g for g, dd in getters.items() if dd == d),
                     "presence": presence}
    return out


def tdiff_facts():
    """member values of WhatsModifiedFlag and field order of the result dataclasses, by executing topology_diff.py alone"""
    import dataclasses
    path = os.path.join(REPO, F_TDIFF)
    spec = importlib.util.spec_from_file_location("_verif_c17_topology_diff", path)
    mod = importlib.util.module_from_spec(spec)
    import sys
    sys.modules[spec.name] = mod
    try:
        spec.loader.exec_module(mod)
    except Exception as e:
        bad("cannot execute %s: %r" % (F_TDIFF, e))
    finally:
        sys.modules.pop(spec.name, None)
    try:
        W = mod.WhatsModifiedFlag
        members = {k: int(v.value) for k, v in W.__members__.items()}
        fields = {c: [f.name for f in dataclasses.fields(getattr(mod, c))]
                  for c in ("TopologyDiff", "TopologyDiffTuple", "TopologyDiffModifiedTuple")}
    except Exception as e:
        bad("unexpected contents of %s: %r" % (F_TDIFF, e))
    if members.get("NONE") != 0:
        bad("WhatsModifiedFlag.NONE is not 0")
    if set(members) != set(FLAG_MEMBERS) | {"NONE"}:
        bad("members of WhatsModifiedFlag are %s" % sorted(members))
    if sorted(fields["TopologyDiff"]) != sorted(SECTS) or sorted(fields["TopologyDiffTuple"]) != sorted(SLOTS) \
            or sorted(fields["TopologyDiffModifiedTuple"]) != sorted(SLOTS):
        bad("fields of the TopologyDiff dataclasses are %s" % fields)
    return members, fields


# ------------------------------------------------------------------------------------------------
# the values prop_diff compares: Labels.__eq__, Capacities.__eq__, JSONData.__eq__

F_CAPLAB = "fim/slivers/capacities_labels.py"
F_JSON = "fim/slivers/json_data.py"


def _ret_is(st, val):
    return isinstance(st, ast.Return) and isinstance(st.value, ast.Constant) and st.value.value is val


def fields_eq_facts(tree, cname):
    """Labels / Capacities:  [if not other: return False]  [assert ...]
                             for f, v in self.__dict__.items(): if v != other.__dict__.get(f[, D]): return False
                             return True
    -> (default D or None, has the `not other` guard)"""
    cls = find_class(tree, cname)
    fn = find_func(cls, "__eq__")
    params = [a.arg for a in fn.args.args]
    if len(params) != 2:
        bad("%s.__eq__ signature" % cname)
    me, other = params
    body = [s for s in strip_doc(fn.body) if not isinstance(s, ast.Assert)]
    guard = False
    if body and isinstance(body[0], ast.If) and not body[0].orelse and len(body[0].body) == 1 and _ret_is(body[0].body[0], False):
        t = body[0].test
        if isinstance(t, ast.UnaryOp) and isinstance(t.op, ast.Not) and isinstance(t.operand, ast.Name) and t.operand.id == other:
            guard = True
        elif isinstance(t, ast.Compare) and len(t.ops) == 1 and isinstance(t.ops[0], ast.Is) and isinstance(t.left, ast.Name) \
                and t.left.id == other and isinstance(t.comparators[0], ast.Constant) and t.comparators[0].value is None:
            guard = True
        else:
            bad("%s.__eq__: unrecognised opening test" % cname)
        body = body[1:]
    if len(body) != 2 or not isinstance(body[0], ast.For) or body[0].orelse or not _ret_is(body[1], True):
        bad("%s.__eq__ is not `for ...: if ...: return False` followed by `return True`" % cname)
    loop = body[0]
    if not (isinstance(loop.target, ast.Tuple) and len(loop.target.elts) == 2 and all(isinstance(e, ast.Name) for e in loop.target.elts)):
        bad("%s.__eq__: loop target" % cname)
    f, v = (e.id for e in loop.target.elts)
    if ast.unparse(loop.iter) != "%s.__dict__.items()" % me:
        bad("%s.__eq__ does not loop over self.__dict__.items()" % cname)
    inner = [s for s in loop.body if not (isinstance(s, ast.Expr) and isinstance(s.value, ast.Constant))]
    if len(inner) != 1 or not isinstance(inner[0], ast.If) or inner[0].orelse or len(inner[0].body) != 1 \
            or not _ret_is(inner[0].body[0], False):
        bad("%s.__eq__: loop body is not `if <differs>: return False`" % cname)
    t = inner[0].test
    if isinstance(t, ast.UnaryOp) and isinstance(t.op, ast.Not) and isinstance(t.operand, ast.Compare) \
            and len(t.operand.ops) == 1 and isinstance(t.operand.ops[0], ast.Eq):
        left, right = t.operand.left, t.operand.comparators[0]
    elif isinstance(t, ast.Compare) and len(t.ops) == 1 and isinstance(t.ops[0], ast.NotEq):
        left, right = t.left, t.comparators[0]
    else:
        bad("%s.__eq__: field test is not an inequality" % cname)
    if isinstance(right, ast.Name) and right.id == v:
        left, right = right, left
    if not (isinstance(left, ast.Name) and left.id == v):
        bad("%s.__eq__ does not compare the field value" % cname)
    default = None
    if isinstance(right, ast.Call) and ast.unparse(right.func) == "%s.__dict__.get" % other and not right.keywords \
            and 1 <= len(right.args) <= 2 and isinstance(right.args[0], ast.Name) and right.args[0].id == f:
        if len(right.args) == 2:
            d = right.args[1]
            if isinstance(d, ast.Constant) and d.value is None:
                default = None
            elif isinstance(d, ast.Constant) and isinstance(d.value, int) and not isinstance(d.value, bool):
                default = d.value
            else:
                bad("%s.__eq__: default of a missing field" % cname)
    elif isinstance(right, ast.Subscript) and ast.unparse(right) == "%s.__dict__[%s]" % (other, f):
        bad("%s.__eq__ indexes other.__dict__ (raises on a missing field): not modelled" % cname)
    else:
        bad("%s.__eq__ compares with %s" % (cname, ast.unparse(right)))
    return default, guard


def _conjuncts(e):
    if isinstance(e, ast.BoolOp) and isinstance(e.op, ast.And):
        out = []
        for v in e.values:
            out += _conjuncts(v)
        return out
    return [e]


def _negate(t):
    if isinstance(t, ast.UnaryOp) and isinstance(t.op, ast.Not):
        return t.operand
    if isinstance(t, ast.Compare) and len(t.ops) == 1:
        flip = {ast.IsNot: ast.Is, ast.NotEq: ast.Eq}
        for a, b in flip.items():
            if isinstance(t.ops[0], a):
                return ast.Compare(left=t.left, ops=[b()], comparators=t.comparators)
    bad("JSONData.__eq__: cannot negate %s" % ast.unparse(t))


def ud_eq_facts():
    """JSONData.__eq__: [if not isinstance(other, JSONData): return NotImplemented] then a conjunction, possibly split into
    `if not <c>: return False` steps, of `self.__class__ is other.__class__` and `self._canonical() == other._canonical()`;
    _canonical: [if self._data is None: return None] return json.dumps(json.loads(self._data), sort_keys=True)"""
    tree, _ = parse(F_JSON)
    cls = find_class(tree, "JSONData")
    for sub in tree.body:
        if isinstance(sub, ast.ClassDef) and any(isinstance(b, ast.Name) and b.id == "JSONData" for b in sub.bases):
            for m in sub.body:
                if isinstance(m, ast.FunctionDef) and m.name in ("__eq__", "__ne__", "_canonical", "__bool__", "__len__"):
                    bad("%s overrides %s" % (sub.name, m.name))
    for m in cls.body:
        if isinstance(m, ast.FunctionDef) and m.name in ("__ne__", "__bool__", "__len__"):
            bad("JSONData defines %s" % m.name)
    fn = find_func(cls, "__eq__")
    params = [a.arg for a in fn.args.args]
    if len(params) != 2:
        bad("JSONData.__eq__ signature")
    me, other = params
    conj = []
    done = False
    for st in strip_doc(fn.body):
        if done:
            bad("JSONData.__eq__: statements after the final return")
        if isinstance(st, ast.If) and not st.orelse and len(st.body) == 1 and isinstance(st.body[0], ast.Return):
            rv = st.body[0].value
            if isinstance(rv, ast.Name) and rv.id == "NotImplemented":
                if ast.unparse(st.test) != "not isinstance(%s, JSONData)" % other:
                    bad("JSONData.__eq__: NotImplemented under %s" % ast.unparse(st.test))
                continue
            if isinstance(rv, ast.Constant) and rv.value is False:
                conj += _conjuncts(_negate(st.test))
                continue
        if isinstance(st, ast.Return) and st.value is not None:
            conj += _conjuncts(st.value)
            done = True
            continue
        bad("JSONData.__eq__: unrecognised statement %s" % type(st).__name__)
    if not done:
        bad("JSONData.__eq__ does not end in a return")
    texts = set()
    for c in conj:
        t = ast.unparse(c)
        t = t.replace(me + ".", "self.").replace(other + ".", "other.")
        texts.add(t)
    same_class = {"self.__class__ is other.__class__", "other.__class__ is self.__class__",
                  "type(self) is type(other)", "type(other) is type(self)"}
    canonical = {"self._canonical() == other._canonical()", "other._canonical() == self._canonical()"}
    rest = texts - same_class - canonical
    if rest:
        bad("JSONData.__eq__ also requires / instead compares: %s" % sorted(rest))
    cn = find_func(cls, "_canonical")
    body = strip_doc(cn.body)
    if body and isinstance(body[0], ast.If) and ast.unparse(body[0].test) == "self._data is None" and not body[0].orelse \
            and len(body[0].body) == 1 and _ret_is(body[0].body[0], None):
        body = body[1:]
    if len(body) != 1 or not isinstance(body[0], ast.Return) \
            or ast.unparse(body[0].value) != "json.dumps(json.loads(self._data), sort_keys=True)":
        bad("JSONData._canonical is not json.dumps(json.loads(self._data), sort_keys=True)")
    return bool(texts & same_class), bool(texts & canonical)


def value_facts():
    tree, _ = parse(F_CAPLAB)
    presence = True
    for cname in ("JSONField", "Labels", "Capacities"):
        cls = find_class(tree, cname)
        for m in cls.body:
            if isinstance(m, ast.FunctionDef) and m.name in ("__bool__", "__len__"):
                presence = False
            if isinstance(m, ast.FunctionDef) and m.name == "__ne__":
                bad("%s defines __ne__" % cname)
    ld, lg = fields_eq_facts(tree, "Labels")
    cd, cg = fields_eq_facts(tree, "Capacities")
    if not (lg and cg):
        # without the guard `other.__dict__` raises on None: prop_diff of a set against an unset property would raise
        bad("Labels/Capacities.__eq__ without the opening `if not other: return False`")
    same_class, canonical = ud_eq_facts()
    return {"labelsMissing": ld, "capsMissing": cd, "notOtherIsNone": presence, "udSameClass": same_class, "udCanonicalText": canonical}


# ------------------------------------------------------------------------------------------------
# BaseSliver._dict_diff / _dict_common: what decides whether a child is added, removed or common
#
# The symbolic evaluator above treats the two helpers as primitives; what they do is established here by running them
# (behavioural probe, so a comprehension, a loop with `if k in dict_b`, `dict_a.keys() & dict_b.keys()` ... are all the same):
# the two function definitions are compiled on their own (they are static and use builtins only) and called on every pair of
# small dictionaries whose values are opaque objects that record any look at them (==, !=, hash, truth value, any attribute).
# key-only  <=>  for every pair the result is `{k: a[k] | k in a, k not in b}` / `{k: b[k] | k in b, k not in a}` /
# `{k: a[k] | k in a and in b}` (the very objects of the named side) and no value was looked at.


class _Opaque:
    touched = []

    def __init__(self, tag):
        object.__setattr__(self, "_tag", tag)

    def _t(self, what):
        _Opaque.touched.append((object.__getattribute__(self, "_tag"), what))

    def __eq__(self, other):
        self._t("==")
        return False

    def __ne__(self, other):
        self._t("!=")
        return True

    def __hash__(self):
        self._t("hash")
        return 0

    def __bool__(self):
        self._t("bool")
        return True

    def __getattr__(self, name):
        self._t("." + name)
        raise AttributeError(name)


def dict_helper_facts():
    tree, _ = parse(F_BASE)
    cls = find_class(tree, "BaseSliver")
    fns = {}
    for nm in ("_dict_diff", "_dict_common"):
        fn = find_func(cls, nm)
        if not any(isinstance(d, ast.Name) and d.id == "staticmethod" for d in fn.decorator_list):
            bad("BaseSliver.%s is not a staticmethod" % nm)
        pos = [a.arg for a in fn.args.args]
        if len(pos) - len(fn.args.defaults) != 2 or fn.args.vararg or fn.args.kwarg or fn.args.kwonlyargs:
            bad("BaseSliver.%s does not take exactly two required dictionaries" % nm)
        import copy as _copy
        args = _copy.deepcopy(fn.args)
        for a in args.posonlyargs + args.args + args.kwonlyargs + [x for x in (args.vararg, args.kwarg) if x is not None]:
            a.annotation = None               # type hints are evaluated when the def runs; their names are not available here
        clone = ast.FunctionDef(name=nm, args=args, body=fn.body, decorator_list=[], returns=None, type_comment=None)
        mod = ast.fix_missing_locations(ast.Module(body=[clone], type_ignores=[]))
        ns = {}
        try:
            exec(compile(mod, "<%s>" % nm, "exec"), ns)
        except Exception as e:
            bad("cannot compile BaseSliver.%s on its own: %r" % (nm, e))
        fns[nm] = ns[nm]
    # keys related by a normalisation (letter case, a blank, a leading zero) are different keys
    keys = ("a", "b", "A", "a ", "01", "1")
    subsets = [tuple(k for k, on in zip(keys, m) if on) for m in itertools.product((False, True), repeat=len(keys))]
    why = None
    for ka in subsets:
        for kb in subsets:
            da = {k: _Opaque("A" + k) for k in ka}
            db = {k: _Opaque("B" + k) for k in kb}
            _Opaque.touched = []
            try:
                dd = fns["_dict_diff"](dict(da), dict(db))
                dc = fns["_dict_common"](dict(da), dict(db))
                added, removed = dd["added"], dd["removed"]
                got = []
                for d in (added, removed, dc):
                    got.append({k: id(v) for k, v in d.items()})
            except Exception as e:
                bad("BaseSliver._dict_diff/_dict_common on opaque values: %r" % (e,))
            want = [{k: id(db[k]) for k in kb if k not in ka}, {k: id(da[k]) for k in ka if k not in kb},
                    {k: id(da[k]) for k in ka if k in kb}]
            if _Opaque.touched:
                why = why or "the helpers look at the slivers stored under the keys (%s)" % sorted(set(w for _, w in _Opaque.touched))
            if got[2] != want[2]:
                if set(got[2]) <= set(want[2]) and all(got[2][k] == want[2][k] for k in got[2]):
                    why = why or "_dict_common leaves out keys that are on both sides"
                else:
                    bad("_dict_common(%s, %s) returns %s: not expressible in the table" % (ka, kb, sorted(got[2])))
            if got[0] != want[0] or got[1] != want[1]:
                if set(got[0]) <= set(want[0]) and set(got[1]) <= set(want[1]) and all(got[0][k] == want[0][k] for k in got[0]) \
                        and all(got[1][k] == want[1][k] for k in got[1]):
                    why = why or "_dict_diff leaves out keys that are on one side only"
                else:
                    bad("_dict_diff(%s, %s) returns added %s removed %s: not expressible in the table" % (ka, kb, sorted(got[0]), sorted(got[1])))
    return {"keyOnly": why is None, "why": why}


# ------------------------------------------------------------------------------------------------
# prop_diff


def base_class():
    tree, _ = parse(F_BASE)
    return tree, find_class(tree, "BaseSliver")


def extract_props(fields):
    tree, cls = base_class()
    for m in cls.body:
        if isinstance(m, ast.FunctionDef) and m.name in ("__bool__", "__len__"):
            bad("BaseSliver defines %s: `if not other_sliver` is no longer a None test" % m.name)
    fn = find_func(cls, "prop_diff")
    ev = Ev(cls, tree, None, {}, fields)
    params = [a.arg for a in fn.args.args]
    if len(params) != 2:
        bad("prop_diff signature")
    v = ev.call_method(fn, ("sliver", "self"), [("sliver", "other")], {}, fn)
    if v[0] != "flagv" or v[1] != ("none",):
        bad("prop_diff does not return a flag built up from NONE: %r" % (v,))
    out = []
    for member, path in v[2]:
        if len(path) != 1 or path[0][0] != "ne":
            bad("prop_diff raises %s under %r" % (member, path))
        _, a, b = path[0]
        if a[0] != "getter" or b[0] != "getter" or a[2] != b[2] or {a[1], b[1]} != {"self", "other"}:
            bad("prop_diff compares %r with %r" % (a, b))
        if a[2] not in PROP_ATTRS or member not in FLAG_MEMBERS:
            bad("prop_diff compares an unknown property %s / raises an unknown flag %s" % (a[2], member))
        out.append((PROP_ATTRS[a[2]], FLAG_MEMBERS[member]))
    return out


# ------------------------------------------------------------------------------------------------
# the three diff methods

CLASS_GUARD = {}


def base_diff_asserts_class():
    """BaseSliver.diff (abstract) is `assert isinstance(self, other_sliver.__class__)`"""
    _, cls = base_class()
    fn = find_func(cls, "diff")
    params = [a.arg for a in fn.args.args]
    body = strip_doc(fn.body)
    return len(params) == 2 and len(body) == 1 and isinstance(body[0], ast.Assert) \
        and ast.unparse(body[0].test) == "isinstance(%s, %s.__class__)" % (params[0], params[1])


METHODS = {
    "node": (F_NODE, "NodeSliver", ("comps", "svcs")),
    "svc": (F_SVC, "NetworkServiceSliver", ("ifs",)),
    "iface": (F_IFACE, "InterfaceSliver", ("ifs",)),
}


def run_method(which, presence, fields):
    rel, cname, colls = METHODS[which]
    tree, _ = parse(rel)
    cls = find_class(tree, cname)
    _, base = base_class()
    fn = find_func(cls, "diff")
    if len(fn.args.args) != 2:
        bad("%s.diff signature" % cname)
    ev = Ev(cls, tree, base, presence, fields)
    v = ev.call_method(fn, ("sliver", "self"), [("sliver", "other")], {}, fn)
    CLASS_GUARD[which] = CLASS_GUARD.get(which, True) and ev.super_diff >= 1
    return summarize(which, v)


def summarize(which, v):
    """(cond: tuple of tested collections, slots: {(sect, slot): collection parts})"""
    if v[0] != "ifret":
        bad("%s: the method does not end in `if <something to report>: return TopologyDiff(...) else: return None`" % which)
    _, test, va, vb = v
    if vb != ("const", None):
        bad("%s: the method does not return None when there is nothing to report" % which)
    if isinstance(test, tuple) and test[0] == "or":
        terms = test[1]
    else:
        terms = (test,)
    cond = []
    for t in terms:
        if t[0] != "nonempty" or t[1][0] != "coll":
            bad("%s: the final test has a term that is not a non-emptiness test of a collection: %r" % (which, t))
        if t[1][1]:
            cond.append(t[1][1])
    if va[0] != "tt" or va[1] != "TopologyDiff":
        bad("%s: does not return a TopologyDiff" % which)
    slots = {}
    for sect, tv in va[2]:
        want = "TopologyDiffModifiedTuple" if sect == "modified" else "TopologyDiffTuple"
        if tv[0] != "tt" or tv[1] != want:
            bad("%s: TopologyDiff.%s is not a %s" % (which, sect, want))
        for slot, cv in tv[2]:
            if cv[0] != "coll":
                bad("%s: %s.%s is not one of the collections built by the method" % (which, sect, slot))
            slots[(sect, slot)] = cv[1]
    return tuple(sorted(cond, key=repr)), slots


def level_from(which, coll, slots_all, fields):
    """read one LevelCfg off the collections of the all-present run; returns (cfg dict, {part name: parts tuple})"""
    lv = {"coll": coll}
    parts = {}
    seen = set()
    for (sect, slot), ps in slots_all.items():
        for p in ps:
            if p in seen:
                continue
            seen.add(p)
            if p[0] == "sub" and p[2][2] == coll:
                if sect not in ("added", "removed"):
                    bad("%s: a key-set difference is filed under modified" % which)
                _, key, dA, dB = p
                cur = (dA[1], dB[1])
                if lv.setdefault("diff", cur) != cur:
                    bad("%s: two different _dict_diff calls on %s" % (which, coll))
                k = "addedKey" if sect == "added" else "removedKey"
                if k in lv:
                    bad("%s: two collections from _dict_diff land in %s" % (which, sect))
                lv[k] = key
                parts[sect] = (p,)
            elif p[0] == "item" and p[3] is not None and p[3][1][2] == coll:
                if sect != "modified":
                    bad("%s: the loop over common children feeds %s" % (which, sect))
                _, item, path, loop = p
                if "common" in lv:
                    bad("%s: two loops over %s" % (which, coll))
                lv["common"] = (loop[1][1], loop[2][1])
                if item[0] != "tuple" or len(item[1]) != 2 or item[1][0] != ("elem", loop):
                    bad("%s: the loop does not append (element, flag)" % which)
                fl = item[1][1]
                if fl[0] != "flagv" or fl[1][0] != "propdiff" or fl[1][1] != ("elem", loop):
                    bad("%s: the flag of a common child does not start from its prop_diff" % which)
                partner = fl[1][2]
                if partner[0] != "partner" or partner[1][2] != coll:
                    bad("%s: prop_diff of a common child is not taken against its partner" % which)
                lv["lookup"] = partner[1][1]
                lv["key"] = partner[2]
                if path != (("nonnone", fl),):
                    bad("%s: a common child is not appended exactly when its flag is not NONE" % which)
                lv["descend"] = descend_from(which, coll, fl[2], ("elem", loop), partner)
                parts["modified"] = (p,)
    for k in ("diff", "addedKey", "removedKey", "common", "lookup", "key"):
        if k not in lv:
            bad("%s: %s of the comparison of %s not found" % (which, k, coll))
    if lv["key"] != INFO_FACTS[coll]["key"]:
        bad("%s: children of %s are stored under .%s but looked up by .%s" % (which, coll, INFO_FACTS[coll]["key"], lv["key"]))
    return lv, parts


def descend_from(which, coll, ors, elem, partner):
    if not ors:
        return None
    if len(ors) != 1:
        bad("%s: more than one extra flag for a common child of %s" % (which, coll))
    member, path = ors[0]
    if member not in FLAG_MEMBERS:
        bad("unknown flag %s" % member)
    if not path or path[0][0] != "typeis":
        bad("%s: the descent below %s is not guarded by a type test" % (which, coll))
    _, who, enumcls, kinds = path[0]
    if enumcls != TYPE_ENUMS.get(coll):
        bad("%s: type test against %s" % (which, enumcls))
    side = "self" if who == elem else "other" if who == partner else None
    if side is None:
        bad("%s: type test on %r" % (which, who))
    rest = path[1:]
    tests = []
    if coll == "comps":
        # the diff of the first network services of both sides is not None
        want = ("truthy", ("diff", ("first", elem, "svcs"), ("first", partner, "svcs")))
        if rest != (want,):
            bad("%s: the descent below a component is not `first service of A`.diff(`first service of B`): %r" % (which, rest))
    elif coll == "ifs":
        d = ("diff", elem, partner)
        if len(rest) != 1:
            bad("%s: the descent below an interface has an unexpected guard %r" % (which, rest))
        c = rest[0]
        if c[0] != "and" or len(c[1]) != 2 or c[1][0] != ("truthy", d):
            bad("%s: the descent below an interface is not `d = iA.diff(iB); if d and (...)`: %r" % (which, c))
        inner = c[1][1]
        terms = inner[1] if inner[0] == "or" else (inner,)
        for t in terms:
            if t[0] != "nonempty" or t[1][0] != "dslot" or t[1][1] != d:
                bad("%s: unexpected term in the sub-interface test: %r" % (which, t))
            tests.append((t[1][2], t[1][3]))
    else:
        bad("%s: descent below %s is not modelled" % (which, coll))
    return {"kinds": list(kinds), "side": side, "flag": FLAG_MEMBERS[member], "tests": tests}


def expected(which, mc, presence):
    """what the table says the collections are in one presence combination (mirror of levelC / assemble in Model/Diff.lean)"""
    vals = {}
    for lv in mc["levels"]:
        c = lv["coll"]
        attr = COLLS[c][0]
        pa, pb = presence[("self", attr)], presence[("other", attr)]
        if pa and pb:
            vals[("added", c)] = lv["_parts"]["added"]
            vals[("removed", c)] = lv["_parts"]["removed"]
            vals[("modified", c)] = lv["_parts"]["modified"]
        else:
            vals[("added", c)] = (("all", ("dict", "other", c)),) if (not pa and pb and lv["onlyOther"]) else ()
            vals[("removed", c)] = (("all", ("dict", "self", c)),) if (pa and not pb and lv["onlySelf"]) else ()
            vals[("modified", c)] = ()
    vals[("selfMod",)] = mc["_self"]
    cond = tuple(sorted((vals[p] for p in mc["cond"] if vals[p]), key=repr))
    slots = {}
    for sect in SECTS:
        for slot in SLOTS:
            ps = ()
            for s2, p in mc[sect]:
                if s2 == slot:
                    ps += vals[p]
            slots[(sect, slot)] = ps
    return cond, slots


def extract_method(which, fields):
    rel, cname, colls = METHODS[which]
    attrs = [COLLS[c][0] for c in colls]
    keys = [(s, a) for a in attrs for s in ("self", "other")]
    allp = {k: True for k in keys}
    cond_all, slots_all = run_method(which, allp, fields)
    mc = {"levels": []}
    # self_modified
    selfp = None
    for (sect, slot), ps in slots_all.items():
        for p in ps:
            if p[0] == "item" and p[3] is None:
                if selfp is not None and selfp != p:
                    bad("%s: two different self-modified entries" % which)
                selfp = p
    if selfp is None:
        bad("%s: the sliver's own property change is not reported" % which)
    pd = ("flagv", ("propdiff", ("sliver", "self"), ("sliver", "other")), ())
    if selfp[1] != ("tuple", (("sliver", "self"), pd)) or selfp[2] != (("nonnone", pd),):
        bad("%s: the own entry is not (self, self.prop_diff(other)) appended when that is not NONE" % which)
    mc["_self"] = (selfp,)
    for c in colls:
        lv, parts = level_from(which, c, slots_all, fields)
        lv["_parts"] = parts
        mc["levels"].append(lv)
    # name every collection of the all-present run
    names = {mc["_self"]: ("selfMod",)}
    for lv in mc["levels"]:
        for sect in SECTS:
            names[lv["_parts"][sect]] = (sect, lv["coll"])

    def split(ps, what):
        """a concatenation of named collections -> their names"""
        out, i = [], 0
        while i < len(ps):
            for k, nm in names.items():
                if ps[i:i + len(k)] == k:
                    out.append(nm)
                    i += len(k)
                    break
            else:
                bad("%s: %s holds something that is not one of the method's collections" % (which, what))
        return out
    mc["cond"] = []
    for ps in cond_all:
        for nm in split(ps, "the final test"):
            if nm not in mc["cond"]:
                mc["cond"].append(nm)
    # a pure `or` of emptiness tests: the order of its terms is not observable, emit them in a fixed one
    rank = {("selfMod",): 0}
    for i, sect in enumerate(SECTS):
        for j, c in enumerate(("comps", "svcs", "ifs")):
            rank[(sect, c)] = 1 + 3 * i + j
    mc["cond"].sort(key=lambda nm: rank[nm])
    for sect in SECTS:
        mc[sect] = []
        for slot in fields["TopologyDiffModifiedTuple" if sect == "modified" else "TopologyDiffTuple"]:
            for nm in split(slots_all[(sect, slot)], "%s.%s" % (sect, slot)):
                if (nm[0] == "selfMod" or nm[0] == "modified") != (sect == "modified"):
                    bad("%s: %s.%s mixes sets of slivers and lists of (sliver, flag)" % (which, sect, slot))
                mc[sect].append((slot, nm))
    # the one-sided branches, then every presence combination against the table
    for lv in mc["levels"]:
        lv["onlyOther"], lv["onlySelf"] = True, True
    for lv in mc["levels"]:
        attr = COLLS[lv["coll"]][0]
        for flagname, pres in (("onlyOther", {("self", attr): False, ("other", attr): True}),
                               ("onlySelf", {("self", attr): True, ("other", attr): False})):
            p = dict(allp)
            p.update(pres)
            got = run_method(which, p, fields)
            if got != expected(which, mc, p):
                lv[flagname] = False
                if got != expected(which, mc, p):
                    bad("%s: with %s the method does not fit the table" % (which, pres))
    for combo in itertools.product((True, False), repeat=len(keys)):
        p = dict(zip(keys, combo))
        if run_method(which, p, fields) != expected(which, mc, p):
            bad("%s: presence combination %s does not fit the table" % (which, {k: v for k, v in p.items() if not v}))
    return mc


# ------------------------------------------------------------------------------------------------
# Lean text


def l_part(nm):
    return ".selfMod" if nm[0] == "selfMod" else ".%s .%s" % nm


def l_level(lv):
    d = lv["descend"]
    if d is None:
        ds = "none"
    else:
        ds = "some { kinds := %s, side := .%s, flag := .%s, tests := %s }" % (
            lean_list([lean_str(k) for k in d["kinds"]]), d["side"], d["flag"], lean_list(["(.%s, .%s)" % t for t in d["tests"]]))
    return ("{ coll := .%s, key := %s, diffA := .%s, diffB := .%s, addedKey := .%s, removedKey := .%s,\n"
            "            commonA := .%s, commonB := .%s, lookup := .%s, onlyOther := %s, onlySelf := %s,\n"
            "            descend := %s }") % (
        lv["coll"], lean_str(lv["key"]), lv["diff"][0], lv["diff"][1], lv["addedKey"], lv["removedKey"],
        lv["common"][0], lv["common"][1], lv["lookup"], str(lv["onlyOther"]).lower(), str(lv["onlySelf"]).lower(), ds)


def l_method(mc):
    return ("{ levels := [\n          %s],\n        cond := %s,\n        added := %s,\n        removed := %s,\n        modified := %s }" % (
        ",\n          ".join(l_level(lv) for lv in mc["levels"]),
        lean_list([l_part(p) for p in mc["cond"]]),
        lean_list(["(.%s, %s)" % (s, l_part(p)) for s, p in mc["added"]]),
        lean_list(["(.%s, %s)" % (s, l_part(p)) for s, p in mc["removed"]]),
        lean_list(["(.%s, %s)" % (s, l_part(p)) for s, p in mc["modified"]])))


def generate():
    global INFO_FACTS
    try:
        INFO_FACTS = info_facts()
        members, fields = tdiff_facts()
        props = extract_props(fields)
        vals = value_facts()
        dicts = dict_helper_facts()
        CLASS_GUARD.clear()
        methods = {w: extract_method(w, fields) for w in ("node", "svc", "iface")}
    except ExtractionError:
        raise
    except RecursionError as e:
        raise ExtractionError("diffcfg: %r" % e)
    presence = all(f["presence"] for f in INFO_FACTS.values())
    class_guard = base_diff_asserts_class() and all(CLASS_GUARD.get(w) for w in ("node", "svc", "iface"))
    body = "open FimVerif.Diff\n\ndef cfg : Cfg :=\n"
    body += "  { props := %s,\n" % lean_list(["(.%s, .%s)" % p for p in props])
    body += "    flagVal := %s,\n" % lean_list(["(.%s, %d)" % (FLAG_MEMBERS[k], members[k]) for k in FLAG_MEMBERS])
    body += "    infoPresence := %s,\n" % str(presence).lower()
    body += "    classGuard := %s,\n" % str(class_guard).lower()
    body += "    dictKeyOnly := %s,\n" % str(dicts["keyOnly"]).lower()
    opt = lambda x: "none" if x is None else "some %d" % x
    body += ("    vals := { labelsMissing := %s, capsMissing := %s, notOtherIsNone := %s, udSameClass := %s, udCanonicalText := %s },\n" % (
        opt(vals["labelsMissing"]), opt(vals["capsMissing"]), str(vals["notOtherIsNone"]).lower(),
        str(vals["udSameClass"]).lower(), str(vals["udCanonicalText"]).lower()))
    body += "    node :=\n      %s,\n" % l_method(methods["node"])
    body += "    svc :=\n      %s,\n" % l_method(methods["svc"])
    body += "    iface :=\n      %s }\n" % l_method(methods["iface"])
    changed = emit("DiffCfg", body, header="import FimVerif.Model.DiffCfg\n")
    return {"changed": changed, "props": props, "values": vals, "dict_helpers": dicts, "flag_values": {k: members[k] for k in FLAG_MEMBERS},
            "info": {c: {k: v for k, v in f.items()} for c, f in INFO_FACTS.items()},
            "descend": {w: {lv["coll"]: lv["descend"] for lv in m["levels"]} for w, m in methods.items()},
            "cond": {w: [list(p) for p in m["cond"]] for w, m in methods.items()}}
