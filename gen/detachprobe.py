"""Behaviour probe of the teardown routes of a component, for EVERY entry of the component catalogue.

The user layer decides in several places by the TYPE of a component (Component.__init__, ComponentCatalog.generate_component);
a test that names the common port-bearing types and forgets a rare one (FPGA) is invisible to inputs drawn from the common
types.  Nothing here reads source text: for every (Type, Model / AlsoModels name) of /repo's current component_catalog.json the
component is attached to a node of a small experiment topology, its ports are connected (first port in an L2Bridge together with
a port of another node; a sub-interface of the second port, when that is a dedicated port, in a second L2Bridge; or a port-mirror
service onto the first port), and the component is then removed through each route of the API:

    Node.remove_component, Node.remove_storage, Topology.remove_node (of the owner), ExperimentTopology.prune (component marked Failed)

A row of the table says what was left: `clean` = no ConnectionPoint, NetworkService or Link of the removed component is left,
every ServicePort still in the model has exactly one peer over a link, and no service lists an interface named after one of the
component's ports.  Written to lean/FimVerif/Generated/DetachProbe.lean; `C07.teardown_clean_every_catalogue_entry` requires a
clean row for every port-bearing entry of Generated/Rules.lean's catalogue (extracted independently by gen/rules.py), every
route and every connection kind that applies.
"""
import json
import os

from .common import *

CATALOG = "fim/slivers/data/component_catalog.json"
ROUTES = ["remove_component", "remove_storage", "remove_node", "prune"]
CONNS = ["port", "child", "mirror"]


def entries():
    cat = json.loads(read_src(CATALOG))
    out = []
    for c in cat:
        if "Model" not in c or "Type" not in c:
            raise ExtractionError("catalogue entry without Model/Type: %r" % (c,))
        for m in [c["Model"]] + list(c.get("AlsoModels") or []):
            out.append((c["Type"], m, c["Model"], "Interfaces" in c))
    return out


def probe_one(ctype, model, conn, route):
    """-> (applies, clean, what was left)"""
    import uuid
    from fim.user.topology import ExperimentTopology
    from fim.user import ComponentType, ServiceType, InterfaceType
    from fim.slivers.capacities_labels import Labels, ReservationInfo
    from fim.slivers.attached_components import ComponentSliver
    from fim.graph.abc_property_graph import ABCPropertyGraph as G
    t = ExperimentTopology()
    try:
        n1 = t.add_node(name="n1", site="RENC")
        n2 = t.add_node(name="n2", site="UKY")
        n2.add_component(name="nic0", ctype=ComponentType.SharedNIC, model="ConnectX-6")
        comp = n1.add_component(name="dev1", ctype=ComponentSliver.type_from_str(ctype), model=model)
        ports = list(comp.interface_list)
        if not ports:
            return False, True, []
        if conn == "port":
            t.add_network_service(name="br1", nstype=ServiceType.L2Bridge, interfaces=[ports[0], n2.interface_list[0]])
        elif conn == "child":
            if len(ports) < 2 or ports[1].type != InterfaceType.DedicatedPort:
                return False, True, []
            sub = ports[1].add_child_interface(name="sub1", labels=Labels(vlan="100"))
            t.add_network_service(name="br2", nstype=ServiceType.L2Bridge, interfaces=[sub])
        elif conn == "mirror":
            t.add_port_mirror_service(name="pm1", from_interface_name="nic0-p1", to_interface=ports[0])
        g = t.graph_model
        own = set()
        for cls in (G.CLASS_ConnectionPoint, G.CLASS_NetworkService):
            for nid in g.get_all_nodes_by_class(label=cls):
                _, props = g.get_node_properties(node_id=nid)
                if str(props.get(G.PROP_NAME, "")).startswith(("dev1-", "n1-dev1-", "sub1")) and \
                        props.get(G.PROP_TYPE) != str(InterfaceType.ServicePort):
                    own.add(nid)
        if route == "remove_component":
            n1.remove_component(name="dev1")
        elif route == "remove_storage":
            n1.remove_storage(name="dev1")
        elif route == "remove_node":
            t.remove_node(name="n1")
        elif route == "prune":
            from fim.slivers.capacities_labels import ReservationInfo
            comp.set_property("reservation_info", ReservationInfo(reservation_id=str(uuid.uuid4()), reservation_state="Failed"))
            t.prune("Failed")
        left = []
        for nid in g.get_all_nodes_by_class(label=G.CLASS_ConnectionPoint):
            _, props = g.get_node_properties(node_id=nid)
            if nid in own:
                left.append("interface %s of the component is still in the model" % props.get(G.PROP_NAME))
            if props.get(G.PROP_TYPE) == str(InterfaceType.ServicePort):
                peers = g.find_peer_connection_points(node_id=nid) or []
                if len(peers) != 1:
                    left.append("ServicePort %s has %d peers" % (props.get(G.PROP_NAME), len(peers)))
        for nid in g.get_all_nodes_by_class(label=G.CLASS_NetworkService):
            if nid in own:
                left.append("the component's own service is still in the model")
        for sname in ("br1", "br2", "pm1"):
            if sname in t.network_services:
                for i in t.network_services[sname].interface_list:
                    if "dev1" in i.name or "sub1" in i.name:
                        left.append("service %s still lists %s" % (sname, i.name))
        return True, not left, sorted(set(left))
    finally:
        try:
            t.graph_model.importer.delete_graph(graph_id=t.graph_model.graph_id)
        except Exception:
            pass


def generate():
    rows, dirty = [], []
    for ctype, model, primary, has_ifs in entries():
        for conn in CONNS:
            for route in ROUTES:
                try:
                    applies, clean, left = probe_one(ctype, model, conn, route)
                except Exception as e:        # a teardown route that raises on a connected component of this type is not clean
                    applies, clean, left = True, False, ["%s: %s" % (type(e).__name__, str(e)[:120])]
                if not applies:
                    continue
                rows.append((route, conn, ctype, model, primary, clean))
                if not clean:
                    dirty.append({"route": route, "conn": conn, "type": ctype, "model": model, "left": left})
    if not rows:
        raise ExtractionError("no catalogue entry with ports could be attached and connected")
    B = lambda b: "true" if b else "false"
    L = lambda xs: lean_list([lean_str(x) for x in xs])
    body = []
    body.append("/-- the teardown routes probed -/\ndef routes : List String := %s\n" % L(ROUTES))
    body.append("/-- how the component's ports were connected before the teardown -/\ndef conns : List String := %s\n" % L(CONNS))
    body.append("structure Row where\n  route : String\n  conn : String\n  ctype : String\n  name : String\n  model : String\n  clean : Bool\n")
    body.append("/-- one row per (route, connection, catalogue name): `name` is the model name passed (Model or one of AlsoModels), `model`\n"
                "the entry's Model; `clean`: nothing of the component is left and every remaining ServicePort has exactly one peer -/")
    body.append("def table : List Row := [\n  " + ",\n  ".join(
        "⟨%s, %s, %s, %s, %s, %s⟩" % (lean_str(r), lean_str(c), lean_str(t), lean_str(m), lean_str(p), B(cl)) for r, c, t, m, p, cl in rows) + "]\n")
    changed = emit("DetachProbe", "\n".join(body))
    return {"file": "Generated/DetachProbe.lean", "changed": changed, "rows": len(rows), "dirty": dirty}
