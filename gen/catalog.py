"""Translate the two catalogues and the decision structure of InstanceCatalog.map_capacities_to_instance and
ComponentCatalog.generate_component into Lean (Generated/Catalog.lean) by *running* the code, not by matching its text:

  fits            map_capacities_to_instance is executed symbolically (gen/symexec.py) on a two-entry probe catalogue
                  [first = an entry whose fields are symbols, last = an entry that compares below everything] and a symbolic
                  request; the paths that answer "first" are the filter predicate (a helper function, a comprehension, renamed
                  locals or a reordered conjunction give the same formula)
  structure       "candidates in catalogue order, head of the sort, first key with equal capacities, last key when nothing
                  fits" is replayed concretely on every probe catalogue of <= 2 entries over {1,2}^3 and every chain of 3
                  entries x every request in {0..3}^3 (where CPython's sort is determined by the order) against a mirror of
                  the Lean `pick`; a difference is an ExtractionError
  instanceCatalog the table the code *sees*: InstanceCatalog().list_instances() in its run-time order (checked against the file)
  typeTable       generate_component is run on a synthetic entry of every ComponentType: service-name suffix, service type,
                  port kind, whether a port gets the catalogued speed; name separators; how the unit count follows the bdf label
  lookup          first entry in catalogue order whose type equals and whose Model or AlsoModels holds the model (probed on a
                  synthetic catalogue with shadowing entries)
  enumeration     populate_catalog_models_and_types on a synthetic catalogue (name massage + order)
  freshObjects    two generations of the same component share no mutable object with each other or with the catalogue
"""
import ast
import itertools
import json
import os
from .common import *
from . import symexec as sx
from .symexec import Sym

REL_I = "fim/slivers/instance_catalog.py"
REL_C = "fim/slivers/component_catalog.py"
DIMS = ("core", "ram", "disk")


# ------------------------------------------------------------------------------------------------------------------
# instance sizing

class _NegInf(int):
    """compares below every number (the probe catalogue's last entry: never a candidate of a `>=` filter)"""
    def __new__(cls):
        return int.__new__(cls, -(10 ** 50))
    __lt__ = __le__ = __ne__ = lambda s, o: True
    __gt__ = __ge__ = __eq__ = lambda s, o: False
    __hash__ = int.__hash__


class _swap_instances:
    """temporarily replace the class-level catalogue of InstanceCatalog by a probe catalogue"""

    def __init__(self, ic_mod, cat):
        self.K = ic_mod.InstanceCatalog
        self.cat = cat

    def __enter__(self):
        from fim.slivers.capacities_labels import Capacities
        self.K().list_instances()      # make sure it is loaded
        slots = [n for n, v in vars(self.K).items() if isinstance(v, dict) and v and all(isinstance(x, Capacities) for x in v.values())]
        if len(slots) != 1:
            raise ExtractionError("InstanceCatalog: cannot find the class-level catalogue (candidates: %s)" % slots)
        self.slot = slots[0]
        self.saved = getattr(self.K, self.slot)
        setattr(self.K, self.slot, self.cat)
        return self

    def __exit__(self, *a):
        setattr(self.K, self.slot, self.saved)


def _sym_cap(C, side, fields):
    c = C()
    for f in fields:
        c.__dict__[f] = Sym(("var", side, f))
    return c


def extract_fits(ic_mod, C):
    fields = list(C().__dict__.keys())

    def run():
        E, L, R = _sym_cap(C, "e", fields), C(), _sym_cap(C, "r", fields)
        for f in fields:
            L.__dict__[f] = _NegInf()
        with _swap_instances(ic_mod, {"first": E, "last": L}):
            return ic_mod.InstanceCatalog().map_capacities_to_instance(cap=R)
    paths = sx.explore(run, 512)
    accept = []
    for trace, res in paths:
        if res[0] == "raise":
            raise ExtractionError("map_capacities_to_instance raises %s on a probe request" % type(res[1]).__name__)
        if res[1] == "first":
            accept.append([sx.true_form(c, o) for c, o in trace])
        elif res[1] != "last":
            raise ExtractionError("map_capacities_to_instance answered %r on the probe catalogue" % (res[1],))
    if not accept:
        raise ExtractionError("map_capacities_to_instance: no request makes the probe entry a candidate")
    if len(accept) == len(paths):
        raise ExtractionError("map_capacities_to_instance: the probe entry is a candidate for every request (no filter?)")
    for conj in accept:
        for c in conj:
            for side, f in sx.variables(c):
                if f not in DIMS:
                    raise ExtractionError("the candidate filter looks at field %s" % f)
    return accept


def _nat_term(e, var=None):
    t = e[0]
    if t == "var":
        return "%s.%s" % (e[1], e[2])
    if t == "const":
        if e[1] < 0:
            raise ExtractionError("negative constant in the candidate filter")
        return "%d" % e[1]
    if t in ("add", "mul"):
        return "(%s %s %s)" % (_nat_term(e[1]), "+" if t == "add" else "*", _nat_term(e[2]))
    raise ExtractionError("candidate filter: arithmetic %s is not translated" % t)


def fits_lean(accept):
    conjs = ["(" + " && ".join(sx.lean_cond(c, term=_nat_term) for c in conj) + ")" if conj else "true" for conj in accept]
    return conjs[0] if len(conjs) == 1 else "(" + " || ".join(conjs) + ")"


def fits_eval(accept, e, r):
    env = {}
    for i, d in enumerate(DIMS):
        env[("e", d)] = e[i]
        env[("r", d)] = r[i]
    return any(all(sx.evaluate(c, env) for c in conj) for conj in accept)


def model_pick(cat, req, accept):
    """mirror of Model/Catalog.lean `pick`"""
    cands = [s for _, s in cat if fits_eval(accept, s, req)]
    if not cands:
        return cat[-1][0]
    h = cands[0]
    for p in cands[1:]:
        if all(x <= y for x, y in zip(p, h)):
            h = p
    for n, s in cat:
        if s == h:
            return n


def _chain(ss):
    def le(a, b):
        return all(x <= y for x, y in zip(a, b))
    return all(le(a, b) or le(b, a) for a, b in itertools.combinations(ss, 2))


def probe_structure(ic_mod, C, accept):
    pts = list(itertools.product((1, 2), repeat=3))
    reqs = list(itertools.product(range(4), repeat=3))
    cats = [[p] for p in pts] + [[p, q] for p in pts for q in pts]
    cats += [list(t) for t in itertools.product(pts[::3] + [pts[-1]], repeat=3) if _chain(t)]
    n = 0
    ic = ic_mod.InstanceCatalog()
    for sizes in cats:
        cat = [("n%d" % i, s) for i, s in enumerate(sizes)]
        with _swap_instances(ic_mod, {k: C(core=s[0], ram=s[1], disk=s[2]) for k, s in cat}):
            for r in reqs:
                try:
                    got = ic.map_capacities_to_instance(cap=C(core=r[0], ram=r[1], disk=r[2]))
                except Exception as e:
                    raise ExtractionError("map_capacities_to_instance raises %s for %s on the probe catalogue %s" % (type(e).__name__, r, cat))
                want = model_pick(cat, r, accept)
                n += 1
                if got != want:
                    raise ExtractionError("map_capacities_to_instance is not filter / sort head / first equal key / last key: "
                                          "catalogue %s request %s gives %s, the model gives %s" % (cat, r, got, want))
    return n


def _stateless(cls, fname, what):
    """light AST check: the method (and the helpers it names, except the catalogue reader) keeps no state between calls"""
    seen, todo = set(), [fname]
    funcs = {n.name: n for n in cls.body if isinstance(n, (ast.FunctionDef, ast.AsyncFunctionDef))}
    own = (cls.name, "self", "cls")
    while todo:
        f = todo.pop()
        if f in seen or f not in funcs or "read_catalog" in f:
            continue
        seen.add(f)
        for n in ast.walk(funcs[f]):
            if isinstance(n, (ast.Global, ast.Nonlocal)):
                raise ExtractionError("%s uses global state" % what)
            tgt = None
            if isinstance(n, ast.Attribute) and isinstance(n.ctx, (ast.Store, ast.Del)):
                tgt = n
            elif isinstance(n, ast.Subscript) and isinstance(n.ctx, (ast.Store, ast.Del)) and isinstance(n.value, ast.Attribute):
                tgt = n.value
            if tgt is not None and isinstance(tgt.value, ast.Name) and tgt.value.id in own:
                raise ExtractionError("%s writes to %s.%s: its answers may depend on earlier calls" % (what, tgt.value.id, tgt.attr))
            if isinstance(n, ast.Attribute) and isinstance(n.value, ast.Name) and n.value.id in own:
                todo.append(n.attr)
    return sorted(seen)


def instance_table(ic_mod, C):
    inst = ic_mod.InstanceCatalog().list_instances()
    rows = []
    fresh = C().__dict__
    for name, cap in inst.items():
        if not isinstance(name, str) or type(cap) is not C:
            raise ExtractionError("list_instances: entry %r is not name -> Capacities" % (name,))
        for f, v in cap.__dict__.items():
            if f in DIMS:
                if not (type(v) is int and v >= 0):
                    raise ExtractionError("instance %s: %s is not a natural number" % (name, f))
            elif v != fresh[f]:
                raise ExtractionError("instance %s sets field %s (only core/ram/disk are modelled)" % (name, f))
        rows.append((name, cap.core, cap.ram, cap.disk))
    with open(os.path.join(REPO, "fim/slivers/data/instance_sizes.json")) as f:
        filed = json.load(f, object_pairs_hook=list)
    try:
        want = {n: (dict(kv).get("core", 0), dict(kv).get("ram", 0), dict(kv).get("disk", 0)) for n, kv in filed}
    except Exception:
        raise ExtractionError("instance_sizes.json is not an object of objects")
    if want != {r[0]: r[1:] for r in rows}:
        raise ExtractionError("list_instances() does not hold the entries of instance_sizes.json")
    order = "file" if [n for n, _ in filed if True] == [r[0] for r in rows] else "differs-from-file"
    return rows, order


# ------------------------------------------------------------------------------------------------------------------
# components

class _swap_components:
    def __init__(self, cc_mod, entries):
        self.K = cc_mod.ComponentCatalog
        self.entries = entries

    def __enter__(self):
        try:
            self.K().component_details(model="\0")
        except Exception:
            pass
        slots = [n for n, v in vars(self.K).items() if isinstance(v, (list, tuple)) and v and all(isinstance(x, dict) and "Model" in x for x in v)]
        if len(slots) != 1:
            raise ExtractionError("ComponentCatalog: cannot find the class-level catalogue (candidates: %s)" % slots)
        self.slot = slots[0]
        self.saved = getattr(self.K, self.slot)
        setattr(self.K, self.slot, type(self.saved)(self.entries))
        return self

    def __exit__(self, *a):
        setattr(self.K, self.slot, self.saved)


def _one_service(cs):
    nsi = cs.network_service_info
    if nsi is None:
        return None, []
    nss = list(nsi.network_services.values())
    if len(nss) != 1:
        raise ExtractionError("generate_component: %d network services" % len(nss))
    return nss[0], list(nss[0].interface_info.interfaces.values())


def probe_types(cc_mod):
    from fim.slivers.attached_components import ComponentType
    from fim.slivers.capacities_labels import Labels
    K = cc_mod.ComponentCatalog
    rows = []
    seps = set()
    units_modes = set()
    ports = {"pa": "25", "pb": "100"}
    bdf3 = ["0000:41:00.0", "0000:41:00.1", "0000:41:00.2"]
    for t in ComponentType:
        T = str(t)
        ents = [{"Model": "with", "Type": T, "Details": "dw", "Interfaces": dict(ports)}, {"Model": "without", "Type": T, "Details": "do"}]
        with _swap_components(cc_mod, ents):
            try:
                c0 = K().generate_component(name="nm", ctype=t, model="without")
                c1 = K().generate_component(name="nm", ctype=t, model="with")
                labs2 = [Labels(bdf=bdf3[0]), Labels(bdf=list(bdf3))]
                labs3 = [Labels(bdf=bdf3[0]), Labels(bdf=list(bdf3))]
                c2 = K().generate_component(name="nm", ctype=t, model="with", parent_name="pp", ns_node_id="sid",
                                            interface_node_ids=["i0", "i1"], interface_labels=labs2)
                c3 = K().generate_component(name="nm", ctype=t, model="with", interface_labels=labs3)
            except Exception as e:
                raise ExtractionError("generate_component raises %s: %s for a synthetic entry of type %s" % (type(e).__name__, e, T))
        for c, m, d in ((c0, "without", "do"), (c1, "with", "dw"), (c2, "with", "dw")):
            if c.get_model() != m or str(c.get_type()) != T or c.get_details() != d:
                raise ExtractionError("generate_component: model/type/details of a synthetic %s entry are not the entry's" % T)
        if c0.network_service_info is not None:
            raise ExtractionError("generate_component: an entry without Interfaces gets a network service (%s)" % T)
        ns1, if1 = _one_service(c1)
        ns2, if2 = _one_service(c2)
        if ns1 is None or ns2 is None or len(if1) != 2 or len(if2) != 2:
            raise ExtractionError("generate_component: an entry with 2 Interfaces does not get one service with 2 interfaces (%s)" % T)
        n1, n2 = ns1.get_name(), ns2.get_name()
        if not n1.startswith("nm"):
            raise ExtractionError("generate_component: service name %r does not start with the component name" % n1)
        suffix = n1[2:]
        if not (n2.startswith("pp") and n2.endswith("nm" + suffix)):
            raise ExtractionError("generate_component: service name with parent is %r" % n2)
        psep = n2[2:len(n2) - len("nm" + suffix)]
        isep = set()
        for ifs in (if1, if2):
            for isl, p in zip(ifs, ports):
                nm = isl.get_name()
                if not (nm.startswith("nm") and nm.endswith(p)):
                    raise ExtractionError("generate_component: interface name %r (port %s)" % (nm, p))
                isep.add(nm[2:len(nm) - len(p)])
        if len(isep) != 1:
            raise ExtractionError("generate_component: interface names are joined inconsistently %s" % sorted(isep))
        seps.add((psep, isep.pop()))
        if str(ns1.get_type()) != str(ns2.get_type()) or ns2.node_id != "sid" or [i.node_id for i in if2] != ["i0", "i1"]:
            raise ExtractionError("generate_component: service type / caller-supplied ids (%s)" % T)
        kinds = {"" if i.get_type() is None else str(i.get_type()) for i in if1 + if2}
        if len(kinds) != 1:
            raise ExtractionError("generate_component: ports of one component type have kinds %s" % sorted(kinds))
        bws = [i.get_capacities().bw for i in if1]
        if bws == [25, 100] and [i.get_capacities().bw for i in if2] == bws:
            speed = True
        elif bws == [0, 0] and [i.get_capacities().bw for i in if2] == bws:
            speed = False
        else:
            raise ExtractionError("generate_component: port speeds of a synthetic %s entry are %s" % (T, bws))
        u1 = [i.get_capacities().unit for i in if1]
        u2 = [i.get_capacities().unit for i in if2]
        if u1 != [1, 1] or u2[1] != 3 or u2[0] not in (1, len(bdf3[0])):
            raise ExtractionError("generate_component: unit counts %s %s" % (u1, u2))
        units_modes.add("listLen" if u2[0] == 1 else "anyLen")
        ns3, if3 = _one_service(c3)
        for ifs, labs in ((if2, labs2), (if3, labs3)):
            if len(ifs) != 2 or any(i.get_labels() is not l for i, l in zip(ifs, labs)) or [i.get_capacities().unit for i in ifs] != u2 \
                    or [i.get_labels().local_name for i in ifs] != ["pa", ["pb"] * 3]:
                raise ExtractionError("generate_component: caller-supplied labels do not land on their interfaces "
                                      "(with%s ids, %s)" % ("" if ifs is if2 else "out", T))
        rows.append((T, suffix, str(ns1.get_type()), kinds.pop(), speed))
    if len(seps) != 1 or len(units_modes) != 1:
        raise ExtractionError("generate_component: separators / unit rule differ between component types: %s %s" % (sorted(seps), sorted(units_modes)))
    psep, isep = seps.pop()
    return rows, psep, isep, units_modes.pop()


def probe_types_by_member(cc_mod):
    """the per-type table once more, with the model named through the combined type-model enumeration (model_type=...) instead of
    (ctype, model): a synthetic entry of every ComponentType, the enumeration populated from that synthetic catalogue"""
    from fim.slivers.attached_components import ComponentType
    from fim.slivers.capacities_labels import Labels
    K = cc_mod.ComponentCatalog
    ports = {"pa": "25", "pb": "100"}
    ents = []
    for t in ComponentType:
        ents += [{"Model": "with", "Type": str(t), "Details": "dw", "Interfaces": dict(ports)}, {"Model": "without", "Type": str(t), "Details": "do"}]
    saved_enum, saved_map = cc_mod.ComponentModelType, dict(cc_mod.ComponentModelTypeMap)
    rows = []
    try:
        with _swap_components(cc_mod, ents):
            K().populate_catalog_models_and_types()
            members = list(cc_mod.ComponentModelType)
            if len(members) != len(ents):
                raise ExtractionError("populate_catalog_models_and_types: %d members for %d synthetic entries" % (len(members), len(ents)))
            for k, t in enumerate(ComponentType):
                T = str(t)
                mw, mo = members[2 * k], members[2 * k + 1]
                try:
                    c0 = K().generate_component(name="nm", model_type=mo)
                    c1 = K().generate_component(name="nm", model_type=mw)
                    c2 = K().generate_component(name="nm", model_type=mw, parent_name="pp", ns_node_id="sid", interface_node_ids=["i0", "i1"],
                                                interface_labels=[Labels(bdf="0000:41:00.0"), Labels(bdf=["0000:41:00.0", "0000:41:00.1", "0000:41:00.2"])])
                    c3 = K().generate_component(name="nm", model_type=mw, ctype=t, model="with")
                except Exception as e:
                    raise ExtractionError("generate_component(model_type=...) raises %s: %s for a synthetic entry of type %s" % (type(e).__name__, e, T))
                if c0.network_service_info is not None or (c0.get_model(), str(c0.get_type()), c0.get_details()) != ("without", T, "do"):
                    raise ExtractionError("generate_component(model_type=...): entry without Interfaces (%s)" % T)
                obs = set()
                for c in (c1, c2, c3):
                    if (c.get_model(), str(c.get_type()), c.get_details()) != ("with", T, "dw"):
                        raise ExtractionError("generate_component(model_type=...): model/type/details of a synthetic %s entry are not the entry's" % T)
                    ns, ifs = _one_service(c)
                    if ns is None or [i.get_name() for i in ifs] != [c1_n for c1_n in [i.get_name() for i in _one_service(c1)[1]]] or len(ifs) != 2:
                        raise ExtractionError("generate_component(model_type=...): interfaces of a synthetic %s entry" % T)
                    nm = ns.get_name()
                    if "nm" not in nm:
                        raise ExtractionError("generate_component(model_type=...): service name %r" % nm)
                    kinds = {"" if i.get_type() is None else str(i.get_type()) for i in ifs}
                    bws = [i.get_capacities().bw for i in ifs]
                    if len(kinds) != 1 or bws not in ([25, 100], [0, 0]):
                        raise ExtractionError("generate_component(model_type=...): kinds %s / speeds %s of a synthetic %s entry" % (sorted(kinds), bws, T))
                    obs.add((nm[nm.index("nm") + 2:], str(ns.get_type()), kinds.pop(), bws == [25, 100]))
                if len(obs) != 1:
                    raise ExtractionError("generate_component(model_type=...): rules for %s depend on the other arguments: %s" % (T, sorted(obs)))
                rows.append((T,) + obs.pop())
    finally:
        cc_mod.ComponentModelType = saved_enum
        cc_mod.ComponentModelTypeMap.clear()
        cc_mod.ComponentModelTypeMap.update(saved_map)
    return rows


CONSUMER_OPS = ("iadd", "isub", "add", "sub", "update", "lt", "gt", "eq", "str", "repr", "to_json", "to_dict", "positive_fields",
                "negative_fields", "free", "list_fields", "map")


def probe_consumers(ic_mod, C):
    """what a consumer does with the Capacities objects the catalogue hands out (get_instance_capacities / list_instances):
    value operators and read-only methods.  Returns the operations after which a (synthetic) catalogue no longer serves the
    values it was loaded with - `x += y` with x a catalogue object counts when the class works in place - and the operations
    whose RESULT is a catalogue object although it is handed to the caller as a new value."""
    import fim.slivers.capacities_labels as cl
    K = ic_mod.InstanceCatalog
    writes = []
    for how in ("by-name", "listing"):
        for op in CONSUMER_OPS:
            cat = {"sz.a": C(core=2, ram=8, disk=10), "sz.b": C(core=4, ram=16, disk=100), "sz.z": C()}
            snap = {k: dict(v.__dict__) for k, v in cat.items()}
            with _swap_instances(ic_mod, cat):
                def get(n):
                    return K().get_instance_capacities(instance_type=n) if how == "by-name" else K().list_instances()[n]
                try:
                    for xn, yn in (("sz.b", "sz.a"), ("sz.a", "sz.z"), ("sz.z", "sz.b")):
                        x, y = get(xn), get(yn)
                        r = None
                        if op == "iadd":
                            x += y
                        elif op == "isub":
                            x -= y
                        elif op == "add":
                            r = x + y
                        elif op == "sub":
                            r = x - y
                        elif op == "update":
                            r = C.update(x)
                        elif op == "lt":
                            x < y
                        elif op == "gt":
                            x > y
                        elif op == "eq":
                            x == y
                        elif op == "str":
                            str(x)
                        elif op == "repr":
                            repr(x)
                        elif op == "free":
                            f = cl.FreeCapacity(total=x, allocated=y)
                            str(f), f.core
                        elif op == "positive_fields":
                            x.positive_fields(["core", "ram", "disk"])
                        elif op == "map":
                            K().map_capacities_to_instance(cap=x)
                        else:
                            getattr(x, op)()
                        if r is not None and any(r is v for v in cat.values()):
                            writes.append(op + ":result-is-a-catalogue-object")
                        served = {k: dict(K().get_instance_capacities(instance_type=k).__dict__) for k in snap}
                        if served != snap or {k: dict(v.__dict__) for k, v in K().list_instances().items()} != snap:
                            writes.append(op)
                except ExtractionError:
                    raise
                except Exception as e:
                    raise ExtractionError("Capacities.%s on catalogue objects raises %s: %s" % (op, type(e).__name__, e))
    return sorted(set(writes))


def probe_lookup(cc_mod):
    from fim.slivers.attached_components import ComponentType
    K = cc_mod.ComponentCatalog
    ents = [
        {"Model": "xx", "AlsoModels": ["yy"], "Type": "GPU", "Details": "A"},
        {"Model": "yy", "AlsoModels": ["xx", "zz"], "Type": "GPU", "Details": "B"},
        {"Model": "xx", "Type": "NVME", "Details": "C"},
        {"Model": "zz", "AlsoModels": None, "Type": "GPU", "Details": "D"},
        {"Model": "ww", "AlsoModels": [], "Type": "NVME", "Details": "E"},
    ]

    def model(m, t):
        for c in ents:
            if (m == c["Model"] and t == c["Type"]) or (m in (c.get("AlsoModels") or []) and t == c["Type"]):
                return c["Details"]
        return None
    n = 0
    with _swap_components(cc_mod, ents):
        for m in ("xx", "yy", "zz", "ww", "qq", ""):
            for t in (ComponentType.GPU, ComponentType.NVME, ComponentType.Storage):
                try:
                    got = K().generate_component(name="nm", ctype=t, model=m).get_details()
                except cc_mod.CatalogException:
                    got = None
                except Exception as e:
                    raise ExtractionError("generate_component raises %s looking up %s/%s" % (type(e).__name__, t, m))
                n += 1
                if got != model(m, str(t)):
                    raise ExtractionError("generate_component lookup is not `first entry of that type whose Model or AlsoModels "
                                          "holds the model`: %s/%s gives %s, expected %s" % (t, m, got, model(m, str(t))))
    return n


def probe_enum(cc_mod):
    ents = [{"Model": "a b-c.d_e", "Type": "T y-p", "Details": ""}, {"Model": "--x  ", "Type": "GPU", "Details": ""},
            {"Model": "plain", "Type": "NVME", "Details": ""}, {"Model": "a+b/c", "Type": "S.t", "Details": ""}]
    saved_enum, saved_map = cc_mod.ComponentModelType, dict(cc_mod.ComponentModelTypeMap)
    try:
        with _swap_components(cc_mod, ents):
            cc_mod.ComponentCatalog().populate_catalog_models_and_types()
            got = [m.name for m in cc_mod.ComponentModelType]
            maps = [cc_mod.ComponentModelTypeMap.get(m) for m in cc_mod.ComponentModelType]
    except Exception as e:
        raise ExtractionError("populate_catalog_models_and_types raises %s: %s on a synthetic catalogue" % (type(e).__name__, e))
    finally:
        cc_mod.ComponentModelType = saved_enum
        cc_mod.ComponentModelTypeMap.clear()
        cc_mod.ComponentModelTypeMap.update(saved_map)

    def massage(s):
        return "".join("_" if ch in " -" else ch for ch in s)
    want = [massage(c["Type"]) + "_" + massage(c["Model"]) for c in ents]
    if got != want:
        raise ExtractionError("enumeration names are not massage(Type)_massage(Model) in catalogue order: %s" % got)
    if any(m is not e for m, e in zip(maps, ents)):
        raise ExtractionError("enumeration members do not map to their own catalogue entries")
    return len(ents)


def _mutable_objects(root, skip_ids):
    """ids of every mutable object reachable from root (instances, dicts, lists, sets), except enum members / classes / modules"""
    import enum
    import types
    seen, out, todo = set(), {}, [root]
    while todo:
        o = todo.pop()
        if id(o) in seen or id(o) in skip_ids:
            continue
        seen.add(id(o))
        if o is None or isinstance(o, (str, bytes, int, float, bool, complex, enum.Enum, type, types.ModuleType, types.FunctionType,
                                       types.BuiltinFunctionType, types.MethodType, frozenset)):
            continue
        if isinstance(o, tuple):
            todo.extend(o)
            continue
        out[id(o)] = o
        if isinstance(o, dict):
            todo.extend(o.keys())
            todo.extend(o.values())
        elif isinstance(o, (list, set)):
            todo.extend(o)
        else:
            d = getattr(o, "__dict__", None)
            if isinstance(d, dict):
                todo.extend(d.values())
            for s in getattr(type(o), "__slots__", ()) or ():
                if hasattr(o, s):
                    todo.append(getattr(o, s))
    return out


def probe_fresh(cc_mod, comps):
    """generate every catalogued component twice: no mutable object may be shared between two results or with the catalogue"""
    from fim.slivers.attached_components import ComponentType
    K = cc_mod.ComponentCatalog
    catalog_objs = _mutable_objects(list(getattr(K, _swap_slot(cc_mod))), set())
    shared = []
    for c in comps:
        try:
            t = ComponentType[c["Type"]]
        except KeyError:
            raise ExtractionError("component_catalog.json: type %r is not a ComponentType" % c["Type"])
        a = K().generate_component(name="nm", ctype=t, model=c["Model"])
        b = K().generate_component(name="nm", ctype=t, model=c["Model"])
        oa, ob = _mutable_objects(a, set()), _mutable_objects(b, set())
        both = set(oa) & set(ob)
        cat = (set(oa) | set(ob)) & set(catalog_objs)
        if both or cat:
            shared.append((c["Type"], c["Model"], sorted({type(oa[i]).__name__ for i in both} | {type(catalog_objs[i]).__name__ + "(catalogue)" for i in cat})))
    return shared


def _swap_slot(cc_mod):
    with _swap_components(cc_mod, [{"Model": "x"}]) as s:
        return s.slot


def generate():
    import fim.slivers.instance_catalog as ic_mod
    import fim.slivers.component_catalog as cc_mod
    from fim.slivers.capacities_labels import Capacities as C
    from fim.slivers.attached_components import ComponentType
    tree, src = parse(REL_I)
    cls = find_class(tree, "InstanceCatalog")
    fn = find_func(cls, "map_capacities_to_instance")
    helpers = _stateless(cls, "map_capacities_to_instance", "map_capacities_to_instance")
    accept = extract_fits(ic_mod, C)
    fits = fits_lean(accept)
    nprobe = probe_structure(ic_mod, C, accept)
    rows, order = instance_table(ic_mod, C)

    ctree, csrc = parse(REL_C)
    find_func(find_class(ctree, "ComponentCatalog"), "generate_component")
    trows, psep, isep, units_mode = probe_types(cc_mod)
    trows_m = probe_types_by_member(cc_mod)
    cwrites = probe_consumers(ic_mod, C)
    nlookup = probe_lookup(cc_mod)
    nenum = probe_enum(cc_mod)
    with open(os.path.join(REPO, "fim/slivers/data/component_catalog.json")) as f:
        comps = json.load(f)
    seen_by_code = list(getattr(cc_mod.ComponentCatalog, _swap_slot(cc_mod)))
    if seen_by_code != comps:
        raise ExtractionError("the catalogue ComponentCatalog holds is not component_catalog.json")
    tnames = [str(t) for t in ComponentType]
    crow = []
    for c in comps:
        extra = set(c) - {"Model", "AlsoModels", "Type", "Details", "Interfaces", "Capacity"}  # Capacity is not read by the code
        if extra:
            raise ExtractionError("component_catalog.json: unknown keys %s" % sorted(extra))
        if c["Type"] not in tnames:
            raise ExtractionError("component_catalog.json: type %r is not a ComponentType" % c["Type"])
        ifs = c.get("Interfaces")
        if ifs is not None:
            for k, v in ifs.items():
                if not (isinstance(v, str) and v.isascii() and v.isdigit()):
                    raise ExtractionError("component_catalog.json: speed of %s/%s is not a decimal string" % (c["Model"], k))
        crow.append(c)
    shared = probe_fresh(cc_mod, crow)

    body = "structure Size where\n  core : Nat\n  ram : Nat\n  disk : Nat\nderiving DecidableEq, Repr\n\n"
    body += "/-- the filter of map_capacities_to_instance: entry `e` is a candidate for request `r` -/\n"
    body += "def fits (e r : Size) : Bool := %s\n\n" % fits
    body += "def instanceCatalog : List (String × Size) := [\n"
    body += ",\n".join("  (%s, ⟨%d, %d, %d⟩)" % (lean_str(n), a, b, c) for n, a, b, c in rows)
    body += "]\n\n"
    body += ("structure CEntry where\n  model : String\n  also : List String\n  type : String\n  details : String\n"
             "  hasIfaces : Bool\n  ifaces : List (String × Nat)\nderiving DecidableEq, Repr\n\n")
    body += "def componentCatalog : List CEntry := [\n"
    ents = []
    for c in crow:
        ifs = c.get("Interfaces")
        ents.append("  { model := %s, also := %s, type := %s, details := %s, hasIfaces := %s, ifaces := %s }" % (
            lean_str(c["Model"]), lean_list([lean_str(a) for a in (c.get("AlsoModels") or [])]), lean_str(c["Type"]),
            lean_str(c["Details"]), "true" if ifs is not None else "false",
            lean_list(["(%s, %d)" % (lean_str(k), int(v)) for k, v in (ifs or {}).items()])))
    body += ",\n".join(ents) + "]\n\n"
    body += ("/-- what generate_component does for a component of each ComponentType (probed on a synthetic entry of every type):\n"
             "suffix of the network-service name, service type, kind of the ports (\"\" = not set), whether a port gets the catalogued speed -/\n"
             "structure TypeRow where\n  type : String\n  suffix : String\n  nsType : String\n  kind : String\n  speed : Bool\nderiving DecidableEq, Repr\n\n")
    body += "def typeTable : List TypeRow := [\n" + ",\n".join(
        "  { type := %s, suffix := %s, nsType := %s, kind := %s, speed := %s }" % (lean_str(t), lean_str(s), lean_str(n), lean_str(k), "true" if sp else "false")
        for t, s, n, k, sp in trows) + "]\n\n"
    body += ("/-- the same table probed with the model named through the combined type-model enumeration (`model_type=`) instead of (ctype, model) -/\n"
             "def typeTableM : List TypeRow := [\n" + ",\n".join(
        "  { type := %s, suffix := %s, nsType := %s, kind := %s, speed := %s }" % (lean_str(t), lean_str(s_), lean_str(n), lean_str(k), "true" if sp else "false")
        for t, s_, n, k, sp in trows_m) + "]\n\n")
    body += ("/-- operations of a consumer on Capacities objects handed out by the instance catalogue (+= -= + - update < > == str repr to_json to_dict\n"
             "positive_fields negative_fields FreeCapacity list_fields map_capacities_to_instance) after which a probe catalogue no longer serves the values it\n"
             "was loaded with, or whose result is a catalogue object -/\n"
             "def consumerWrites : List String := %s\n\n" % lean_list([lean_str(w) for w in cwrites]))
    body += "/-- `<parent><parentSep><name><suffix>` and `<name><ifaceSep><port>` -/\n"
    body += "def parentSep : String := %s\ndef ifaceSep : String := %s\n" % (lean_str(psep), lean_str(isep))
    body += "/-- how `units` is computed from the bdf label: `true` = only a list has a length (a scalar gives 1) -/\n"
    body += "def unitsOnlyFromList : Bool := %s\n" % ("true" if units_mode == "listLen" else "false")
    body += ("/-- two generations of the same catalogued component share no mutable object with each other or with the catalogue "
             "(probed for every entry) -/\ndef freshObjects : Bool := %s\n" % ("false" if shared else "true"))
    changed = emit("Catalog", body)
    return {"instances": len(rows), "instance_order": order, "components": len(crow), "fits": fits, "type_table": trows,
            "type_table_by_member": trows_m, "consumer_writes": cwrites, "separators": [psep, isep], "units_mode": units_mode, "shared_objects": shared[:5],
            "probes": {"sizing_structure": nprobe, "lookup": nlookup, "enum": nenum}, "stateless_helpers": helpers,
            "technique": "symbolic execution of the filter + behavioural probes on synthetic catalogues",
            "changed": changed, "span": span_hash(src, fn)}
