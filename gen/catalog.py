"""Translate the two catalogue files and the idioms of InstanceCatalog.map_capacities_to_instance
and ComponentCatalog.generate_component into Lean (Generated/Catalog.lean).

Recognised (anything else is an ExtractionError):
  map_capacities_to_instance:
      candidates = list(filter(lambda x: (<conj of x.F ⋈ cap.F>), values)); candidates.sort();
      if len(candidates) > 0: return keys[values.index(candidates[0])]
      return keys[-1]
  generate_component constants: ns suffix/type per component type, port kind per component type,
      the name join characters, and that SharedNIC capacities omit bw.
"""
import ast
import json
import os
from .common import *

REL_I = "fim/slivers/instance_catalog.py"
REL_C = "fim/slivers/component_catalog.py"


def _filter_lambda(fn):
    lam = None
    for n in ast.walk(fn):
        if isinstance(n, ast.Call) and getattr(n.func, "id", "") == "filter" and isinstance(n.args[0], ast.Lambda):
            if lam is not None:
                raise ExtractionError("map_capacities_to_instance: more than one filter")
            lam = n
    if lam is None:
        raise ExtractionError("map_capacities_to_instance: filter(lambda ...) not found")
    if getattr(lam.args[1], "id", "") != "values":
        raise ExtractionError("filter does not run over `values`")
    x = lam.args[0].args.args[0].arg
    body = lam.args[0].body

    def term(n):
        if isinstance(n, ast.Attribute) and isinstance(n.value, ast.Name) and n.attr in ("core", "ram", "disk"):
            if n.value.id == x:
                return "e." + n.attr
            if n.value.id == "cap":
                return "r." + n.attr
        if isinstance(n, ast.Constant) and isinstance(n.value, int):
            return "%d" % n.value
        if isinstance(n, ast.BinOp) and isinstance(n.op, (ast.Add, ast.Mult)):
            return "(%s %s %s)" % (term(n.left), "+" if isinstance(n.op, ast.Add) else "*", term(n.right))
        raise ExtractionError("filter lambda: unrecognised term %s" % ast.dump(n)[:120])

    def cond(n):
        if isinstance(n, ast.BoolOp):
            return "(" + (" && " if isinstance(n.op, ast.And) else " || ").join(cond(v) for v in n.values) + ")"
        if isinstance(n, ast.Compare) and len(n.ops) == 1:
            op = {ast.GtE: "≥", ast.Gt: ">", ast.LtE: "≤", ast.Lt: "<", ast.Eq: "=", ast.NotEq: "≠"}.get(type(n.ops[0]))
            if op is None:
                raise ExtractionError("filter lambda: comparison")
            return "decide (%s %s %s)" % (term(n.left), op, term(n.comparators[0]))
        raise ExtractionError("filter lambda: unrecognised condition %s" % ast.dump(n)[:120])
    return cond(body)


def _check_pick_shape(fn, src):
    seg = ast.get_source_segment(src, fn)
    body = strip_doc(fn.body)
    stmts = [ast.unparse(s) for s in body]
    want_tail = ["candidates.sort()", "if len(candidates) > 0:\n    return keys[values.index(candidates[0])]", "return keys[-1]"]
    if stmts[-3:] != want_tail:
        raise ExtractionError("map_capacities_to_instance: tail is not sort / index of head / last key: %r" % stmts[-3:])
    pre = [s for s in stmts[:-4]]
    ok_pre = {"assert cap is not None", "c = self.__read_catalog()", "keys = list(c.keys())", "values = list(c.values())"}
    if set(pre) != ok_pre:
        raise ExtractionError("map_capacities_to_instance: unexpected preamble %r" % pre)
    if not stmts[-4].startswith("candidates = list(filter("):
        raise ExtractionError("map_capacities_to_instance: candidates assignment")


def _component_consts(tree, src):
    """Constants of generate_component, read from the AST."""
    cls = find_class(tree, "ComponentCatalog")
    fn = find_func(cls, "generate_component")
    text = ast.unparse(fn)
    facts = {}
    # ns suffix / type
    m = None
    for n in ast.walk(fn):
        if isinstance(n, ast.If) and ast.unparse(n.body[0]).startswith("ns_suffix ="):
            m = n
    if m is None:
        raise ExtractionError("generate_component: ns_suffix branch not found")
    if ast.unparse(m.test) != "cs.get_type() in [ComponentType.FPGA]":
        raise ExtractionError("generate_component: ns_suffix test changed: " + ast.unparse(m.test))
    def const_assign(stmts, var):
        for s in stmts:
            if isinstance(s, ast.Assign) and getattr(s.targets[0], "id", "") == var:
                return s.value
        raise ExtractionError("generate_component: %s not assigned" % var)
    facts["fpga_suffix"] = const_assign(m.body, "ns_suffix").value
    facts["fpga_nstype"] = ast.unparse(const_assign(m.body, "ns_type")).split(".")[-1]
    facts["other_suffix"] = const_assign(m.orelse, "ns_suffix").value
    facts["other_nstype"] = ast.unparse(const_assign(m.orelse, "ns_type")).split(".")[-1]
    # port kinds
    kinds = None
    for n in ast.walk(fn):
        if isinstance(n, ast.If) and ast.unparse(n.test) == "cs.get_type() in [ComponentType.SmartNIC, ComponentType.FPGA]":
            kinds = n
    if kinds is None:
        raise ExtractionError("generate_component: port-kind branch not found")
    if ast.unparse(kinds.body[0]) != "isliver.set_type(InterfaceType.DedicatedPort)":
        raise ExtractionError("generate_component: dedicated port branch changed")
    el = kinds.orelse
    if not (len(el) == 1 and isinstance(el[0], ast.If) and ast.unparse(el[0].test) == "cs.get_type() == ComponentType.SharedNIC"
            and ast.unparse(el[0].body[0]) == "isliver.set_type(InterfaceType.SharedPort)" and not el[0].orelse):
        raise ExtractionError("generate_component: shared port branch changed")
    facts["dedicated_types"] = ["SmartNIC", "FPGA"]
    facts["shared_types"] = ["SharedNIC"]
    # names
    if "isliver.set_name(name + '-' + interface_name)" not in text:
        raise ExtractionError("generate_component: interface name join changed")
    if "ns.set_name(parent_name + '-' + name + ns_suffix)" not in text or "ns.set_name(name + ns_suffix)" not in text:
        raise ExtractionError("generate_component: service name join changed")
    # capacities
    capif = None
    for n in ast.walk(fn):
        if isinstance(n, ast.If) and ast.unparse(n.test) == "cs.get_type() == ComponentType.SharedNIC" and "cap = " in ast.unparse(n.body[0]):
            capif = n
    if capif is None or ast.unparse(capif.body[0]) != "cap = Capacities(unit=units)" \
            or ast.unparse(capif.orelse[0]) != "cap = Capacities(unit=units, bw=int(interfaces_dict[interface_name]))":
        raise ExtractionError("generate_component: capacities branch changed")
    # units expression
    units = None
    for n in ast.walk(fn):
        if isinstance(n, ast.Assign) and getattr(n.targets[0], "id", "") == "units":
            units = ast.unparse(n.value)
    facts["units_expr"] = units
    known_units = {
        "len(lab.bdf) if lab is not None and lab.bdf is not None else 1": "anyLen",
        "len(lab.bdf) if lab is not None and isinstance(lab.bdf, list) else 1": "listLen",
    }
    if units not in known_units:
        raise ExtractionError("generate_component: units expression not recognised: %r" % units)
    facts["units_mode"] = known_units[units]
    # lookup loop
    if "if model == main_model and ctype_str == c['Type']:" not in text or \
            "if model in also_model_list and ctype_str == c['Type']:" not in text:
        raise ExtractionError("generate_component: lookup conditions changed")
    # massage
    mfn = None
    for n in cls.body:
        if isinstance(n, ast.FunctionDef) and n.name.endswith("massage_name"):
            mfn = n
    if mfn is None or "re.sub('[ -]', '_', name)" not in ast.unparse(mfn):
        raise ExtractionError("__massage_name changed")
    return facts


def generate():
    tree, src = parse(REL_I)
    cls = find_class(tree, "InstanceCatalog")
    fn = find_func(cls, "map_capacities_to_instance")
    _check_pick_shape(fn, src)
    fits = _filter_lambda(fn)
    with open(os.path.join(REPO, "fim/slivers/data/instance_sizes.json")) as f:
        cat = json.load(f, object_pairs_hook=list)
    rows = []
    for name, kv in cat:
        d = dict(kv)
        if len(d) != len(kv):
            raise ExtractionError("instance_sizes.json: duplicate field in %s" % name)
        if not set(d) <= {"core", "ram", "disk"}:
            raise ExtractionError("instance_sizes.json: entry %s sets fields other than core/ram/disk: %s" % (name, sorted(d)))
        for v in d.values():
            if not (isinstance(v, int) and not isinstance(v, bool) and v >= 0):
                raise ExtractionError("instance_sizes.json: %s has a non-natural value" % name)
        rows.append((name, d.get("core", 0), d.get("ram", 0), d.get("disk", 0)))
    if len({r[0] for r in rows}) != len(rows):
        # json.load into a dict keeps the LAST duplicate but the first position: not modelled
        raise ExtractionError("instance_sizes.json: duplicate instance names")

    ctree, csrc = parse(REL_C)
    facts = _component_consts(ctree, csrc)
    with open(os.path.join(REPO, "fim/slivers/data/component_catalog.json")) as f:
        comps = json.load(f)
    crow = []
    for c in comps:
        extra = set(c) - {"Model", "AlsoModels", "Type", "Details", "Interfaces", "Capacity"}  # Capacity is not read by the code
        if extra:
            raise ExtractionError("component_catalog.json: unknown keys %s" % sorted(extra))
        ifs = c.get("Interfaces")
        if ifs is not None:
            for k, v in ifs.items():
                if not (isinstance(v, str) and v.isascii() and v.isdigit()):
                    raise ExtractionError("component_catalog.json: speed of %s/%s is not a decimal string" % (c["Model"], k))
        crow.append(c)

    body = "structure Size where\n  core : Nat\n  ram : Nat\n  disk : Nat\nderiving DecidableEq, Repr\n\n"
    body += "/-- the filter of map_capacities_to_instance: entry `e` is a candidate for request `r` -/\n"
    body += "def fits (e r : Size) : Bool := %s\n\n" % fits
    body += "def instanceCatalog : List (String × Size) := [\n"
    body += ",\n".join("  (%s, ⟨%d, %d, %d⟩)" % (lean_str(n), a, b, c) for n, a, b, c in rows)
    body += "]\n\n"
    body += ("structure CEntry where\n  model : String\n  also : List String\n  type : String\n  details : String\n"
             "  hasIfaces : Bool\n  ifaces : List (String × Nat)\nderiving DecidableEq, Repr\n\n")
    body += "def componentCatalog : List CEntry := [\n"
    ents = []
    for c in crow:
        ifs = c.get("Interfaces")
        ents.append("  { model := %s, also := %s, type := %s, details := %s, hasIfaces := %s, ifaces := %s }" % (
            lean_str(c["Model"]), lean_list([lean_str(a) for a in (c.get("AlsoModels") or [])]), lean_str(c["Type"]),
            lean_str(c["Details"]), "true" if ifs is not None else "false",
            lean_list(["(%s, %d)" % (lean_str(k), int(v)) for k, v in (ifs or {}).items()])))
    body += ",\n".join(ents) + "]\n\n"
    body += "def fpgaSuffix : String := %s\ndef fpgaNsType : String := %s\n" % (lean_str(facts["fpga_suffix"]), lean_str(facts["fpga_nstype"]))
    body += "def otherSuffix : String := %s\ndef otherNsType : String := %s\n" % (lean_str(facts["other_suffix"]), lean_str(facts["other_nstype"]))
    body += "def dedicatedTypes : List String := %s\ndef sharedTypes : List String := %s\n" % (
        lean_list([lean_str(x) for x in facts["dedicated_types"]]), lean_list([lean_str(x) for x in facts["shared_types"]]))
    body += "/-- how `units` is computed from the bdf label: `true` = only a list has a length (a scalar gives 1) -/\n"
    body += "def unitsOnlyFromList : Bool := %s\n" % ("true" if facts["units_mode"] == "listLen" else "false")
    changed = emit("Catalog", body)
    return {"instances": len(rows), "components": len(crow), "fits": fits, "facts": facts, "changed": changed,
            "span": span_hash(src, fn)}
