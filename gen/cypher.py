"""Translate every statement the Neo4j backend hands to the driver into a Lean template (C19).

For each of the five Neo4j modules every call `<x>.run(E, k=v, ...)` (x in session/tx names) is
located; E is evaluated by a small *symbolic* interpreter over the enclosing method body, which
recognises exactly the string-building idioms in use today (anything else that flows into E is an
ExtractionError):

  constants, f-strings (JoinedStr), implicit/explicit concatenation, str(x);
  branch-dependent construction  if C: query = A else: query = B           -> variants;
  accumulate-in-loop             acc = ""; for k, v in M.items(): acc += f"..."; if len(acc) > n: acc = acc[:-d]
  join of a comprehension        SEP.join(f"..." for k, v in M.items())  /  SEP.join([... for x in M.keys()])  (M[x] = row value)
  append-in-loop then join       l = list(); for k, v in M.items(): l.append(E);  SEP.join(l)
  optional items then join       l = list(); if k[i] is not None: l.append(E) (x2);  SEP.join(l)
  dict literal then update       d = {'K': f'{x}', ...}; if P: d.update(P)
  counting map                   c = defaultdict(int); for o in X.list_devices(): c[(o.a, o.b)] = ...   (rows: a, b, count)
  JSON statement table           for r in json.load(open(<.../data/FILE>)): run(r['rule'])  /  for n, cmd in d.items(): run(cmd)

Every interpolated expression is classified by data flow from the method's parameters:
identifier (class / relation / property *name*, closed keyword vocabularies), value (anything a
caller stores or looks up by: ids, names, property values, graph ids), parameter (`$name` in the
text, supplied as keyword to run()).  A method parameter without a role below is an ExtractionError.
"""
import ast
import json
import os

from .common import *

MODULES = [
    "fim/graph/neo4j_property_graph.py",
    "fim/graph/resources/neo4j_cbm.py",
    "fim/graph/resources/neo4j_arm.py",
    "fim/graph/resources/neo4j_adm.py",
    "fim/graph/slices/neo4j_asm.py",
]
RUNNERS = {"session", "tx", "transaction"}

# role of a *scalar* method parameter when it is interpolated into statement text
IDENT_PARAMS = {"label", "rel", "kind", "prop_name", "node_label", "rel1", "rel2", "node1_label", "node2_label"}
VALUE_PARAMS = {"node_id", "node_a", "node_b", "node_z", "prop_val", "name", "node_name", "ntype", "cut_off",
                "graph_id", "graphml_file", "graph_file", "graph_string", "new_graph_id", "adm_id"}
# role of dict parameters: (role of key, role of value); 'ident' for the value = closed keyword vocabulary
MAP_PARAMS = {"props": ("ident", "value"), "merge_properties": ("ident", "ident")}
# attributes: self.graph_id, other_graph.graph_id
ATTR_VALUES = {("self", "graph_id"): "graph_id", ("other_graph", "graph_id"): "other_graph_id"}
# counting-map row fields by attribute name of the counted objects
ATTR_ROLE = {"resource_type": "ident", "resource_model": "value"}


class S:
    """symbolic string: list of pieces (tuples)"""
    def __init__(self, pieces=None):
        self.p = list(pieces or [])

    def __add__(self, o):
        return S(self.p + o.p)


class MapV:
    def __init__(self, name=None, fixed=None, krole="ident", vrole="value", tuple_fields=None):
        self.name = name            # argument map name or None
        self.fixed = fixed or []    # [(key, S)]
        self.krole, self.vrole = krole, vrole
        self.tuple_fields = tuple_fields   # for counting maps: [attr, ...]


class ListV:
    def __init__(self):
        self.opt = []       # [(required row fields, S)]   optional-items form
        self.loop = None    # (MapV, S body)               append-in-loop form


class RowKey:   # loop variable bound to a map key
    def __init__(self, m):
        self.m = m


class RowVal:
    def __init__(self, m):
        self.m = m


class RowField:
    def __init__(self, field, role):
        self.field, self.role = field, role


class Param:
    def __init__(self, name):
        self.name = name


class Table:
    """a statement taken from a JSON file under fim/graph/data"""
    def __init__(self, kind, key=None):
        self.kind, self.key = kind, key    # kind: 'list-of-dicts' / 'dict-values'


class U:
    def __init__(self, why):
        self.why = why


def lit(s):
    return S([("lit", s)] if s != "" else [])


class Fn:
    def __init__(self, rel, cls, fn, src):
        self.rel, self.cls, self.fn, self.src = rel, cls, fn, src
        self.sites = []      # [(site_index, line, conds, S|Table, supplied)]
        self.nsite = 0
        self.site_ids = {}

    def err(self, node, msg):
        raise ExtractionError("%s:%s %s.%s: %s" % (self.rel, getattr(node, "lineno", "?"), self.cls, self.fn.name, msg))

    # ---- expressions -----------------------------------------------------------------
    def to_s(self, v, node):
        if isinstance(v, S):
            return v
        if isinstance(v, Param):
            if v.name in IDENT_PARAMS:
                return S([("ident", v.name)])
            if v.name in VALUE_PARAMS:
                return S([("value", v.name)])
            self.err(node, "parameter %r reaches statement text and has no role (identifier/value) in gen/cypher.py" % v.name)
        if isinstance(v, RowKey):
            return S([("rowIdent" if v.m.krole == "ident" else "rowValue", "k")])
        if isinstance(v, RowVal):
            return S([("rowIdent" if v.m.vrole == "ident" else "rowValue", "v")])
        if isinstance(v, RowField):
            return S([("rowIdent" if v.role == "ident" else "rowValue", v.field)])
        if isinstance(v, U):
            self.err(node, "unresolvable string construction reaches the driver: " + v.why)
        self.err(node, "unresolvable string construction reaches the driver: %s" % type(v).__name__)

    def ev(self, n, env):
        if isinstance(n, ast.Constant):
            if isinstance(n.value, str):
                return lit(n.value)
            return U("constant %r" % (n.value,))
        if isinstance(n, ast.JoinedStr):
            out = S()
            for part in n.values:
                if isinstance(part, ast.Constant):
                    out = out + lit(part.value)
                elif isinstance(part, ast.FormattedValue):
                    if part.conversion != -1 or part.format_spec is not None:
                        return U("f-string conversion/format spec")
                    v = self.ev(part.value, env)
                    if isinstance(v, (U, MapV, ListV, Table)):
                        return U("f-string part: " + (v.why if isinstance(v, U) else type(v).__name__))
                    out = out + self.to_s(v, part)
                else:
                    return U("f-string part")
            return out
        if isinstance(n, ast.BinOp) and isinstance(n.op, ast.Add):
            a, b = self.ev(n.left, env), self.ev(n.right, env)
            for x in (a, b):
                if isinstance(x, (U, MapV, ListV, Table)):
                    return U("concatenation operand: " + (x.why if isinstance(x, U) else type(x).__name__))
            return self.to_s(a, n) + self.to_s(b, n)
        if isinstance(n, ast.Name):
            if n.id in env:
                return env[n.id]
            return U("name %s" % n.id)
        if isinstance(n, ast.Attribute) and isinstance(n.value, ast.Name):
            key = (n.value.id, n.attr)
            if key in ATTR_VALUES and (n.value.id == "self" or isinstance(env.get(n.value.id), Param)):
                return S([("value", ATTR_VALUES[key])])
            return U("attribute %s.%s" % key)
        if isinstance(n, ast.Subscript):
            base = self.ev(n.value, env)
            # M[x] with x the key variable of M
            if isinstance(base, MapV) and isinstance(n.slice, ast.Name) and isinstance(env.get(n.slice.id), RowKey) \
                    and env[n.slice.id].m is base:
                return RowVal(base)
            # k[i] of a tuple-keyed counting map
            if isinstance(base, RowKey) and base.m.tuple_fields and isinstance(n.slice, ast.Constant) \
                    and isinstance(n.slice.value, int) and 0 <= n.slice.value < len(base.m.tuple_fields):
                f = base.m.tuple_fields[n.slice.value]
                return RowField(f, ATTR_ROLE[f])
            if isinstance(base, Table) and base.kind == "list-row" and isinstance(n.slice, ast.Constant):
                return Table("list-of-dicts", n.slice.value)
            return U("subscript")
        if isinstance(n, ast.Call):
            f = n.func
            if isinstance(f, ast.Name) and f.id == "str" and len(n.args) == 1 and not n.keywords:
                v = self.ev(n.args[0], env)
                if isinstance(v, (U, MapV, ListV, Table)):
                    return U("str() of " + (v.why if isinstance(v, U) else type(v).__name__))
                return self.to_s(v, n)
            if isinstance(f, ast.Name) and f.id in ("list", "dict") and not n.args and not n.keywords:
                return ListV() if f.id == "list" else MapV(fixed=[])
            if isinstance(f, ast.Name) and f.id == "defaultdict" and len(n.args) == 1 and getattr(n.args[0], "id", "") == "int":
                return MapV(name=None, tuple_fields=[])      # filled by the counting loop
            if isinstance(f, ast.Attribute) and f.attr == "join" and len(n.args) == 1 and not n.keywords:
                sep = self.ev(f.value, env)
                if not (isinstance(sep, S) and all(p[0] == "lit" for p in sep.p)):
                    return U("join separator")
                sep = "".join(p[1] for p in sep.p)
                return self.join(sep, n.args[0], env, n)
            if isinstance(f, ast.Attribute) and f.attr == "load" and getattr(f.value, "id", "") == "json":
                return Table("json")
            if isinstance(f, ast.Attribute) and f.attr == "format" and not n.args and all(k.arg is not None for k in n.keywords):
                # "...{name}...".format(name=E): the same as the f-string with E in the hole (template: a literal, e.g. a module constant)
                import string
                tpl = self.ev(f.value, env)
                if not (isinstance(tpl, S) and all(p[0] == "lit" for p in tpl.p)):
                    return U("format() of a template that is not a literal")
                kws = {k.arg: k.value for k in n.keywords}
                out = S()
                try:
                    parts = list(string.Formatter().parse("".join(p[1] for p in tpl.p)))
                except ValueError:
                    return U("format() template")
                for text, field, spec, conv in parts:
                    out = out + lit(text)
                    if field is None:
                        continue
                    if field not in kws or spec or conv:
                        return U("format() field {%s}" % field)
                    v = self.ev(kws[field], env)
                    if isinstance(v, (U, MapV, ListV, Table)):
                        return U("format() argument: " + (v.why if isinstance(v, U) else type(v).__name__))
                    out = out + self.to_s(v, n)
                return out
            return U("call %s" % ast.unparse(f)[:40])
        if isinstance(n, ast.Dict):
            fixed = []
            for k, v in zip(n.keys, n.values):
                if not (isinstance(k, ast.Constant) and isinstance(k.value, str)):
                    return U("dict key")
                sv = self.ev(v, env)
                if isinstance(sv, (U, MapV, ListV, Table)):
                    return U("dict value")
                fixed.append((k.value, self.to_s(sv, v)))
            return MapV(fixed=fixed)
        return U(type(n).__name__)

    def loop_header(self, target, it, env):
        """for k, v in M.items()  /  for x in M.keys()  ->  (MapV, {var: binding})"""
        if isinstance(it, ast.Call) and isinstance(it.func, ast.Attribute) and not it.args and it.func.attr in ("items", "keys"):
            m = self.ev(it.func.value, env)
            if isinstance(m, Param) and m.name in MAP_PARAMS:
                m = env[m.name] = MapV(name=m.name, krole=MAP_PARAMS[m.name][0], vrole=MAP_PARAMS[m.name][1])
            if not isinstance(m, MapV):
                return None
            if it.func.attr == "items" and isinstance(target, ast.Tuple) and len(target.elts) == 2 \
                    and all(isinstance(e, ast.Name) for e in target.elts):
                return m, {target.elts[0].id: RowKey(m), target.elts[1].id: RowVal(m)}
            if it.func.attr == "keys" and isinstance(target, ast.Name):
                return m, {target.id: RowKey(m)}
        return None

    def mapsrc(self, m, node):
        if m.tuple_fields is not None and m.name is None:
            self.err(node, "counting map was never filled by a recognised loop")
        return {"fixed": [(k, self.atoms(v, node)) for k, v in m.fixed], "arg": m.name}

    def atoms(self, s, node):
        for p in s.p:
            if p[0] in ("rep", "opt"):
                self.err(node, "nested loop construction")
        return list(s.p)

    def inner(self, s, node):
        for p in s.p:
            if p[0] == "rep":
                self.err(node, "loop nested in a loop body")
        return list(s.p)

    def join(self, sep, arg, env, node):
        if isinstance(arg, (ast.GeneratorExp, ast.ListComp)):
            if len(arg.generators) != 1 or arg.generators[0].ifs or arg.generators[0].is_async:
                return U("comprehension shape")
            g = arg.generators[0]
            h = self.loop_header(g.target, g.iter, env)
            if h is None:
                return U("comprehension does not iterate a property map")
            m, binds = h
            e2 = dict(env)
            e2.update(binds)
            body = self.ev(arg.elt, e2)
            if isinstance(body, (U, MapV, ListV, Table)):
                return U("comprehension element: " + (body.why if isinstance(body, U) else type(body).__name__))
            return S([("rep", self.mapsrc(m, node), ("join", sep), self.inner(self.to_s(body, node), node))])
        v = self.ev(arg, env)
        if isinstance(v, ListV):
            if v.loop is not None and not v.opt:
                m, body = v.loop
                return S([("rep", self.mapsrc(m, node), ("join", sep), self.inner(body, node))])
            if v.loop is None:
                # optional items: a? (sep if both) b?
                if len(v.opt) == 0:
                    return S()
                if len(v.opt) == 1:
                    (fs, s), = v.opt
                    return S([("opt", fs, self.atoms(s, node))] if fs else s.p)
                if len(v.opt) == 2:
                    (f1, s1), (f2, s2) = v.opt
                    out = [("opt", f1, self.atoms(s1, node))] if f1 else list(s1.p)
                    out.append(("opt", f1 + f2, [("lit", sep)]) if (f1 or f2) else ("lit", sep))
                    out += [("opt", f2, self.atoms(s2, node))] if f2 else list(s2.p)
                    return S(out)
                return U("join of more than two optional items")
        return U("join argument")

    # ---- statements ------------------------------------------------------------------
    def run_block(self, stmts, envs):
        """envs: list of (conds, env); returns the same after executing stmts (paths that return/raise are dropped)"""
        for st in stmts:
            nxt = []
            for conds, env in envs:
                nxt.extend(self.step(st, conds, env))
            envs = nxt
        return envs

    def scan_runs(self, node, conds, env):
        for c in ast.walk(node):
            if isinstance(c, ast.Call) and isinstance(c.func, ast.Attribute) and c.func.attr == "run" \
                    and isinstance(c.func.value, ast.Name) and c.func.value.id in RUNNERS:
                if not c.args:
                    self.err(c, "run() without a statement argument")
                supplied = []
                for kw in c.keywords:
                    if kw.arg is None:
                        self.err(c, "run(**kwargs): supplied parameter names are not static")
                    supplied.append(kw.arg)
                if len(c.args) > 2:
                    self.err(c, "run() positional arguments")
                if len(c.args) == 2:
                    d = c.args[1]
                    if not (isinstance(d, ast.Dict) and all(isinstance(k, ast.Constant) for k in d.keys)):
                        self.err(c, "run(text, params): params is not a dict literal")
                    supplied += [k.value for k in d.keys]
                v = self.ev(c.args[0], env)
                if isinstance(v, Table):
                    if v.kind not in ("list-of-dicts", "dict-values"):
                        self.err(c, "statement table shape")
                else:
                    v = self.to_s(v, c)
                    for p in v.p:
                        if p[0] == "opt":
                            self.err(c, "optional item outside a loop")
                key = (c.lineno, c.col_offset)
                if key not in self.site_ids:
                    self.site_ids[key] = len(self.site_ids)
                self.sites.append((self.site_ids[key], c.lineno, list(conds), v, supplied))

    def step(self, st, conds, env):
        if isinstance(st, (ast.Return, ast.Raise)):
            if isinstance(st, ast.Return) and st.value is not None:
                self.scan_runs(st.value, conds, env)
            return []
        if isinstance(st, ast.Assign) and isinstance(st.value, ast.IfExp) and len(st.targets) == 1 and isinstance(st.targets[0], ast.Name):
            # x = A if C else B   ==   if C: x = A  else: x = B   (the branches become variants, as with the statement form)
            mk = lambda v: ast.copy_location(ast.Assign(targets=st.targets, value=v), st)
            return self.step_if(ast.copy_location(ast.If(test=st.value.test, body=[mk(st.value.body)], orelse=[mk(st.value.orelse)]), st),
                                conds, env)
        if isinstance(st, ast.Assign):
            self.scan_runs(st.value, conds, env)
            if len(st.targets) == 1 and isinstance(st.targets[0], ast.Name):
                name = st.targets[0].id
                # acc = acc[:-d] handled in the `if len(acc) > n` idiom; elsewhere it is unknown
                env = dict(env)
                env[name] = self.ev(st.value, env)
                return [(conds, env)]
            if len(st.targets) == 1 and isinstance(st.targets[0], ast.Tuple):
                env = dict(env)
                for e in st.targets[0].elts:
                    if isinstance(e, ast.Name):
                        env[e.id] = U("tuple assignment")
                return [(conds, env)]
            if len(st.targets) == 1 and isinstance(st.targets[0], ast.Subscript) and isinstance(st.targets[0].value, ast.Name):
                # d[k] = ... on a tracked map that is later iterated: only inside the counting idiom (handled in For)
                nm = st.targets[0].value.id
                if isinstance(env.get(nm), MapV):
                    env = dict(env)
                    env[nm] = U("map %s modified by subscript assignment" % nm)
                return [(conds, env)]
            return [(conds, env)]
        if isinstance(st, ast.AugAssign):
            if isinstance(st.target, ast.Name) and st.target.id in env and isinstance(env[st.target.id], (S, U, Param)):
                env = dict(env)
                cur, add = env[st.target.id], self.ev(st.value, env)
                if isinstance(st.op, ast.Add) and isinstance(cur, S) and not isinstance(add, (U, MapV, ListV, Table)):
                    env[st.target.id] = cur + self.to_s(add, st)
                else:
                    env[st.target.id] = U("augmented assignment")
            return [(conds, env)]
        if isinstance(st, ast.Expr):
            self.scan_runs(st.value, conds, env)
            c = st.value
            if isinstance(c, ast.Call) and isinstance(c.func, ast.Attribute) and isinstance(c.func.value, ast.Name):
                tgt, meth = c.func.value.id, c.func.attr
                cur = env.get(tgt)
                if meth == "append" and isinstance(cur, ListV) and len(c.args) == 1:
                    v = self.ev(c.args[0], env)
                    env = dict(env)
                    nl = ListV()
                    nl.opt = list(cur.opt)
                    nl.loop = cur.loop
                    if isinstance(v, (U, MapV, ListV, Table)) or nl.loop is not None:
                        env[tgt] = U("list.append of unresolvable item")
                    else:
                        nl.opt.append(([], self.to_s(v, c)))
                        env[tgt] = nl
                    return [(conds, env)]
                if meth == "update" and isinstance(cur, MapV):
                    env = dict(env)
                    env[tgt] = U("dict.update outside the `if P: d.update(P)` idiom")
                    return [(conds, env)]
            return [(conds, env)]
        if isinstance(st, ast.If):
            return self.step_if(st, conds, env)
        if isinstance(st, ast.For):
            return self.step_for(st, conds, env)
        if isinstance(st, ast.With):
            for it in st.items:
                self.scan_runs(it.context_expr, conds, env)
            return self.run_block(st.body, [(conds, env)])
        if isinstance(st, ast.While):
            self.scan_runs(st.test, conds, env)
            return self.run_block(st.body, [(conds, env)]) + [(conds, env)]
        if isinstance(st, ast.Try):
            out = self.run_block(st.body, [(conds, env)])
            for h in st.handlers:
                out += self.run_block(h.body, [(conds, env)])
            out = out or [(conds, env)]
            if st.finalbody:
                out = self.run_block(st.finalbody, out)
            return self.dedup(out)
        if isinstance(st, (ast.Assert, ast.Pass, ast.Import, ast.ImportFrom, ast.Global, ast.Delete, ast.Continue, ast.Break)):
            return [(conds, env)]
        if isinstance(st, (ast.FunctionDef, ast.ClassDef, ast.AsyncFunctionDef)):
            self.err(st, "nested definition")
        self.err(st, "unrecognised statement %s" % type(st).__name__)

    def dedup(self, envs):
        out, seen = [], []
        for conds, env in envs:
            sig = {k: id(v) for k, v in env.items()}
            if sig in seen:
                continue
            seen.append(sig)
            out.append((conds, env))
        return out

    def step_if(self, st, conds, env):
        self.scan_runs(st.test, conds, env)
        t = st.test
        # if len(acc) > n: acc = acc[:-d]
        if isinstance(t, ast.Compare) and len(t.ops) == 1 and isinstance(t.ops[0], ast.Gt) and isinstance(t.left, ast.Call) \
                and getattr(t.left.func, "id", "") == "len" and len(t.left.args) == 1 and isinstance(t.left.args[0], ast.Name) \
                and isinstance(t.comparators[0], ast.Constant) and isinstance(env.get(t.left.args[0].id), S) \
                and not st.orelse and len(st.body) == 1 and isinstance(st.body[0], ast.Assign):
            name = t.left.args[0].id
            a = st.body[0]
            sl = a.value
            ok = (len(a.targets) == 1 and getattr(a.targets[0], "id", None) == name and isinstance(sl, ast.Subscript)
                  and getattr(sl.value, "id", None) == name and isinstance(sl.slice, ast.Slice) and sl.slice.lower is None
                  and sl.slice.step is None and isinstance(sl.slice.upper, ast.UnaryOp) and isinstance(sl.slice.upper.op, ast.USub)
                  and isinstance(sl.slice.upper.operand, ast.Constant) and isinstance(sl.slice.upper.operand.value, int))
            cur = env[name]
            if ok and len(cur.p) == 1 and cur.p[0][0] == "rep" and cur.p[0][2] == ("acc",):
                env = dict(env)
                rep = cur.p[0]
                env[name] = S([("rep", rep[1], ("accTrim", int(t.comparators[0].value), int(sl.slice.upper.operand.value)), rep[3])])
                return [(conds, env)]
            env = dict(env)
            env[name] = U("trimming of an accumulated string in an unrecognised shape")
            return [(conds, env)]
        # if P: d.update(P)
        if isinstance(t, ast.Name) and isinstance(env.get(t.id), Param) and t.id in MAP_PARAMS and not st.orelse \
                and len(st.body) == 1 and isinstance(st.body[0], ast.Expr) and isinstance(st.body[0].value, ast.Call):
            c = st.body[0].value
            if isinstance(c.func, ast.Attribute) and c.func.attr == "update" and isinstance(c.func.value, ast.Name) \
                    and isinstance(env.get(c.func.value.id), MapV) and len(c.args) == 1 and getattr(c.args[0], "id", None) == t.id:
                d = env[c.func.value.id]
                if d.name is None and d.tuple_fields is None:
                    env = dict(env)
                    env[c.func.value.id] = MapV(name=t.id, fixed=d.fixed, krole=MAP_PARAMS[t.id][0], vrole=MAP_PARAMS[t.id][1])
                    return [(conds, env)]
        # if k[i] is not None: l.append(E)     (optional item; only meaningful inside a row scope)
        if isinstance(t, ast.Compare) and len(t.ops) == 1 and isinstance(t.ops[0], ast.IsNot) \
                and isinstance(t.comparators[0], ast.Constant) and t.comparators[0].value is None and not st.orelse \
                and len(st.body) == 1 and isinstance(st.body[0], ast.Expr) and isinstance(st.body[0].value, ast.Call):
            fld = self.ev(t.left, env)
            c = st.body[0].value
            if isinstance(fld, RowField) and isinstance(c.func, ast.Attribute) and c.func.attr == "append" \
                    and isinstance(c.func.value, ast.Name) and isinstance(env.get(c.func.value.id), ListV) and len(c.args) == 1:
                cur = env[c.func.value.id]
                v = self.ev(c.args[0], env)
                env = dict(env)
                if isinstance(v, (U, MapV, ListV, Table)) or cur.loop is not None:
                    env[c.func.value.id] = U("optional list item")
                else:
                    nl = ListV()
                    nl.opt = list(cur.opt) + [([fld.field], self.to_s(v, c))]
                    env[c.func.value.id] = nl
                return [(conds, env)]
        # if X is not None: <counting loop over X.list_devices()>   (X None = no rows)
        if isinstance(t, ast.Compare) and len(t.ops) == 1 and isinstance(t.ops[0], ast.IsNot) and isinstance(t.left, ast.Name) \
                and isinstance(env.get(t.left.id), Param) and not st.orelse and len(st.body) == 1 and isinstance(st.body[0], ast.For):
            lp = st.body[0]
            if isinstance(lp.iter, ast.Call) and isinstance(lp.iter.func, ast.Attribute) and lp.iter.func.attr == "list_devices" \
                    and getattr(lp.iter.func.value, "id", None) == t.left.id:
                return self.step_for(lp, conds, env)
        # generic fork
        src = ast.unparse(t)
        a = self.run_block(st.body, [(conds + [("if@%d" % st.lineno, src, True)], dict(env))])
        b = self.run_block(st.orelse, [(conds + [("if@%d" % st.lineno, src, False)], dict(env))])
        # merge paths whose tracked environments agree (no string variable was assigned differently)
        if len(a) == 1 and len(b) == 1 and self.same_env(a[0][1], b[0][1]):
            return [(conds, a[0][1])]
        return a + b

    def same_env(self, e1, e2):
        if set(e1) != set(e2):
            return False
        for k in e1:
            if not self.same_val(e1[k], e2[k]):
                return False
        return True

    def same_val(self, a, b):
        if a is b:
            return True
        if type(a) is not type(b):
            return False
        if isinstance(a, S):
            return repr(a.p) == repr(b.p)
        if isinstance(a, U):
            return True
        if isinstance(a, Param):
            return a.name == b.name
        if isinstance(a, ListV):
            return repr([(f, s.p) for f, s in a.opt]) == repr([(f, s.p) for f, s in b.opt]) and \
                ((a.loop is None and b.loop is None) or (a.loop is not None and b.loop is not None
                                                       and a.loop[0] is b.loop[0] and repr(a.loop[1].p) == repr(b.loop[1].p)))
        if isinstance(a, MapV):
            return a.name == b.name and repr([(k, s.p) for k, s in a.fixed]) == repr([(k, s.p) for k, s in b.fixed]) \
                and a.tuple_fields == b.tuple_fields
        if isinstance(a, Table):
            return (a.kind, a.key) == (b.kind, b.key)
        return False

    def step_for(self, st, conds, env):
        self.scan_runs(st.iter, conds, env)
        if st.orelse:
            self.err(st, "for/else")
        # counting map: for o in X.list_devices(): ... c[(o.a, o.b)] = ...
        if isinstance(st.iter, ast.Call) and isinstance(st.iter.func, ast.Attribute) and st.iter.func.attr == "list_devices" \
                and isinstance(st.target, ast.Name):
            ov = st.target.id
            fields, tgt = None, None
            for n in ast.walk(st):
                if isinstance(n, ast.Assign) and isinstance(n.targets[0], ast.Subscript) and isinstance(n.targets[0].value, ast.Name):
                    k = n.targets[0].slice
                    if isinstance(k, ast.Tuple) and all(isinstance(e, ast.Attribute) and getattr(e.value, "id", None) == ov for e in k.elts):
                        f2 = [e.attr for e in k.elts]
                        if fields is not None and (f2 != fields or tgt != n.targets[0].value.id):
                            self.err(st, "counting loop with differing keys")
                        fields, tgt = f2, n.targets[0].value.id
            if fields and isinstance(env.get(tgt), MapV) and env[tgt].tuple_fields == []:
                for f in fields:
                    if f not in ATTR_ROLE:
                        self.err(st, "counted attribute %r has no role in gen/cypher.py" % f)
                env = dict(env)
                env[tgt] = MapV(name=tgt, tuple_fields=fields)
                return [(conds, env)]
            return [(conds, env)]
        # statement table: for r in <json.load(...)>  /  for n, cmd in <json dict>.items()
        itv = self.ev(st.iter, env) if isinstance(st.iter, ast.Name) else None
        if isinstance(itv, Table) and itv.kind == "json" and isinstance(st.target, ast.Name):
            e2 = dict(env)
            e2[st.target.id] = Table("list-row")
            self.run_block(st.body, [(conds, e2)])
            return [(conds, env)]
        if isinstance(st.iter, ast.Call) and isinstance(st.iter.func, ast.Attribute) and st.iter.func.attr == "items" \
                and isinstance(st.iter.func.value, ast.Name) and isinstance(env.get(st.iter.func.value.id), Table) \
                and env[st.iter.func.value.id].kind == "json" and isinstance(st.target, ast.Tuple) and len(st.target.elts) == 2:
            e2 = dict(env)
            e2[st.target.elts[0].id] = U("json key")
            e2[st.target.elts[1].id] = Table("dict-values")
            self.run_block(st.body, [(conds, e2)])
            return [(conds, env)]
        # loop over a property map
        h = self.loop_header(st.target, st.iter, env)
        if h is not None:
            m, binds = h
            if m.tuple_fields:
                binds = dict(binds)
                for k, b in list(binds.items()):
                    if isinstance(b, RowVal):
                        binds[k] = RowField("count", "ident")
            e2 = dict(env)
            e2.update(binds)
            before = dict(e2)
            outs = self.run_block(st.body, [(conds, e2)])
            if len(outs) != 1:
                self.err(st, "branching inside a loop over a property map")
            e3 = outs[0][1]
            env = dict(env)
            for name, cur in env.items():
                new = e3.get(name)
                if new is cur or name in binds:
                    continue
                if isinstance(cur, S) and isinstance(new, S) and new.p[:len(cur.p)] == cur.p:
                    added = S(new.p[len(cur.p):])
                    if not added.p:
                        continue
                    env[name] = cur + S([("rep", self.mapsrc(m, st), ("acc",), self.inner(added, st))])
                elif isinstance(cur, ListV) and isinstance(new, ListV) and cur.loop is None and not cur.opt \
                        and new.loop is None and len(new.opt) == 1 and new.opt[0][0] == []:
                    nl = ListV()
                    nl.loop = (m, new.opt[0][1])
                    env[name] = nl
                elif isinstance(cur, (S, ListV, MapV)) and not self.same_val(cur, new):
                    env[name] = U("variable %s modified in a loop in an unrecognised way" % name)
            return [(conds, env)]
        # any other loop: run the body once for its run() sites; variables assigned inside become unknown
        assigned = {n.id for n in ast.walk(st) if isinstance(n, ast.Name) and isinstance(n.ctx, ast.Store)}
        e2 = dict(env)
        for a in assigned:
            if isinstance(e2.get(a), (S, ListV, MapV)):
                e2[a] = U("assigned in an unrecognised loop")
        for n in ast.walk(st.target):
            if isinstance(n, ast.Name):
                e2[n.id] = U("loop variable")
        self.run_block(st.body, [(conds, e2)])
        env = dict(env)
        for a in assigned:
            if a in env:
                env[a] = U("assigned in an unrecognised loop")
        return [(conds, env)]


def data_file_for(tree, cls, fn):
    """the JSON file under fim/graph/data a statement table comes from: an os.path.join(..., 'data', NAME) in the
    function itself, or in a call of this function elsewhere in the class"""
    def joins(node):
        out = []
        for c in ast.walk(node):
            if isinstance(c, ast.Call) and isinstance(c.func, ast.Attribute) and c.func.attr == "join" and len(c.args) >= 2 \
                    and isinstance(c.args[-1], ast.Constant) and isinstance(c.args[-2], ast.Constant) and c.args[-2].value == "data":
                out.append(c.args[-1].value)
        return out
    own = joins(fn)
    if len(own) == 1:
        return own[0]
    found = []
    for other in cls.body:
        if isinstance(other, ast.FunctionDef):
            for c in ast.walk(other):
                if isinstance(c, ast.Call) and isinstance(c.func, ast.Attribute) and c.func.attr == fn.name:
                    found += joins(c)
    if len(set(found)) == 1:
        return found[0]
    raise ExtractionError("%s.%s: cannot determine the JSON file of its statement table" % (cls.name, fn.name))


def guards_of(conds):
    """branch conditions the model can evaluate on an environment: emptiness of an iterated mapping.  Anything else is
    `any` (the variant is then taken to be reachable in every environment)."""
    import re
    out = []
    maps = set(MAP_PARAMS) | {"component_counts"}
    for _, src, val in conds:
        m = re.fullmatch(r"len\((\w+)(?:\.values\(\)|\.keys\(\)|\.items\(\))?\) == 0", src) or re.fullmatch(r"not (\w+)", src)
        if m and (m.group(1) in maps or ".values()" in src):
            out.append(("mapEmpty" if val else "mapNonEmpty", m.group(1)))
            continue
        # truthiness of a mapping argument (None and {} are both "empty" in the model), len(M) > 0 / != 0
        m = re.fullmatch(r"(\w+)", src) or re.fullmatch(r"len\((\w+)(?:\.values\(\)|\.keys\(\)|\.items\(\))?\) (?:>|!=) 0", src)
        if m and m.group(1) in maps:
            out.append(("mapNonEmpty" if val else "mapEmpty", m.group(1)))
    return out


def split_params(pieces):
    """split `$name` out of literal text into param atoms"""
    import re
    out = []
    for p in pieces:
        if p[0] == "lit":
            pos = 0
            for m in re.finditer(r"\$([A-Za-z_][A-Za-z0-9_]*)", p[1]):
                if m.start() > pos:
                    out.append(("lit", p[1][pos:m.start()]))
                out.append(("param", m.group(1)))
                pos = m.end()
            if pos < len(p[1]):
                out.append(("lit", p[1][pos:]))
        elif p[0] == "rep":
            out.append(("rep", {"fixed": [(k, split_params(v)) for k, v in p[1]["fixed"]], "arg": p[1]["arg"]}, p[2], split_params(p[3])))
        elif p[0] == "opt":
            out.append(("opt", p[1], split_params(p[2])))
        else:
            out.append(p)
    # merge adjacent literals
    merged = []
    for p in out:
        if p[0] == "lit" and merged and merged[-1][0] == "lit":
            merged[-1] = ("lit", merged[-1][1] + p[1])
        else:
            merged.append(p)
    return merged


def extract():
    ops = []
    report = {}
    for rel in MODULES:
        tree, src = parse(rel)
        n_run_text = sum(1 for c in ast.walk(tree) if isinstance(c, ast.Call) and isinstance(c.func, ast.Attribute)
                         and c.func.attr == "run")
        found = 0
        # module-level NAME = "literal" (implicit / explicit concatenation of literals): statement templates hoisted out of the methods
        consts = {}
        C0 = Fn(rel, "<module>", ast.FunctionDef(name="<module>"), src)
        for st in tree.body:
            if isinstance(st, ast.Assign) and len(st.targets) == 1 and isinstance(st.targets[0], ast.Name):
                v = C0.ev(st.value, {})
                if isinstance(v, S) and all(p[0] == "lit" for p in v.p):
                    consts[st.targets[0].id] = v
        for cls in tree.body:
            if not isinstance(cls, ast.ClassDef):
                if isinstance(cls, (ast.FunctionDef,)) and ".run(" in (ast.get_source_segment(src, cls) or ""):
                    raise ExtractionError("%s: run() call in a module-level function %s" % (rel, cls.name))
                continue
            for fn in cls.body:
                if not isinstance(fn, ast.FunctionDef):
                    continue
                seg = ast.get_source_segment(src, fn) or ""
                if ".run(" not in seg:
                    continue
                F = Fn(rel, cls.name, fn, src)
                env = dict(consts)
                a = fn.args
                if a.vararg or a.kwarg:
                    raise ExtractionError("%s.%s: *args/**kwargs" % (cls.name, fn.name))
                for arg in a.posonlyargs + a.args + a.kwonlyargs:
                    env[arg.arg] = Param(arg.arg)
                env.pop("self", None)
                F.run_block(strip_doc(fn.body), [([], env)])
                if not F.sites:
                    raise ExtractionError("%s.%s: contains '.run(' but no driver call was recognised" % (cls.name, fn.name))
                # group by site; distinct templates at one site are variants in path order
                by_site = {}
                for sid, line, conds, v, supplied in F.sites:
                    by_site.setdefault(sid, []).append((line, conds, v, supplied))
                for sid in sorted(by_site):
                    variants = []
                    for line, conds, v, supplied in by_site[sid]:
                        if isinstance(v, Table):
                            fname = data_file_for(tree, cls, fn)
                            with open(os.path.join(REPO, "fim/graph/data", fname)) as f:
                                data = json.load(f)
                            if v.kind == "list-of-dicts":
                                texts = [d[v.key] for d in data]
                            else:
                                texts = list(data.values())
                            for i, t in enumerate(texts):
                                if not isinstance(t, str):
                                    raise ExtractionError("%s: entry %d of %s is not a string" % (fn.name, i, fname))
                                variants.append((line, "%s[%d]" % (fname, i), split_params([("lit", t)]), supplied, []))
                            continue
                        tpl = split_params(v.p)
                        cs = " and ".join(("" if val else "not ") + "(" + c + ")" for _, c, val in conds)
                        if not any(repr(tpl) == repr(x[2]) and supplied == x[3] for x in variants):
                            variants.append((line, cs, tpl, supplied, guards_of(conds)))
                    for vi, (line, cs, tpl, supplied, guards) in enumerate(variants):
                        ops.append({"key": "%s.%s#%d" % (cls.name, fn.name, sid), "variant": vi,
                                    "cond": cs if len(variants) > 1 else "", "line": line, "module": rel,
                                    "tpl": tpl, "supplied": supplied, "guards": guards if len(variants) > 1 else []})
                    found += len({l for l, _, _, _ in by_site[sid]})
        report[rel] = {"run_sites": found, "textual_run_calls": n_run_text, "span": hashlib.sha256(src.encode()).hexdigest()[:12]}
        if found != n_run_text:
            raise ExtractionError("%s: %d '.run(' occurrences in the text but %d driver calls extracted" % (rel, n_run_text, found))
    return ops, report


# ---- emission -----------------------------------------------------------------------------------------------

def lean_atom(p):
    k = p[0]
    if k == "lit":
        return ".lit t!%s" % lean_str(p[1])
    if k == "param":
        return ".param t!%s" % lean_str(p[1])
    if k in ("ident", "value", "rowIdent", "rowValue"):
        return ".%s t!%s" % (k, lean_str(p[1]))
    raise ExtractionError("not an atom: %r" % (p,))


def lean_inner(p):
    if p[0] == "opt":
        return ".opt %s %s" % (lean_list(["t!" + lean_str(f) for f in p[1]]), lean_list([lean_atom(a) for a in p[2]]))
    return ".atom (%s)" % lean_atom(p)


def lean_piece(p):
    if p[0] == "rep":
        src, mode, body = p[1], p[2], p[3]
        fixed = lean_list(["(t!%s, %s)" % (lean_str(k), lean_list([lean_atom(a) for a in v])) for k, v in src["fixed"]])
        arg = "none" if src["arg"] is None else "some t!%s" % lean_str(src["arg"])
        if mode[0] == "join":
            m = ".join t!%s" % lean_str(mode[1])
        elif mode[0] == "accTrim":
            m = ".accTrim %d %d" % (mode[1], mode[2])
        elif mode[0] == "acc":
            m = ".accTrim 0 0"
        else:
            raise ExtractionError("rep mode %r" % (mode,))
        return ".rep ⟨%s, %s⟩ (%s) %s" % (fixed, arg, m, lean_list([lean_inner(x) for x in body]))
    return ".atom (%s)" % lean_atom(p)


def def_name(op):
    k = op["key"].replace(".", "_").replace("#", "_s")
    return "op_%s_v%d" % (k, op["variant"])


def vocab():
    from fim.graph.abc_property_graph_constants import ABCPropertyGraphConstants as C
    classes = [getattr(C, a) for a in sorted(dir(C)) if a.startswith("CLASS_")]
    rels = [getattr(C, a) for a in sorted(dir(C)) if a.startswith("REL_")]
    props = sorted({getattr(C, a) for a in dir(C) if a.startswith("PROP_") and isinstance(getattr(C, a), str)} | {C.GRAPH_ID, C.NODE_ID})
    return {"classes": classes, "rels": rels, "props": props}


def _op_texts(op):
    return ("[" + ",\n            ".join(lean_piece(p) for p in op["tpl"]) + "]",
            lean_list(["t!" + lean_str(s) for s in op["supplied"]]),
            lean_list([".%s t!%s" % (g, lean_str(m)) for g, m in op["guards"]]))


def align_variants(ops):
    """A variant's number is only a name: it follows the order in which the branches appear in the source.  When a call site has the
    same SET of (template, supplied parameters, guards) as in the Generated file of the unchanged tree (gen/baseline/Cypher.lean)
    but the branches come in another order (`A if c else B` for `if not c: B else: A`), the baseline's numbering is kept, so that
    the per-site theorems and the harness keep talking about the same variant."""
    import re
    from core import BASELINE_DIR
    try:
        with open(os.path.join(BASELINE_DIR, "Cypher.lean")) as f:
            txt = f.read()
    except OSError:
        return ops
    base = {}
    for m in re.finditer(r'key := (t!"(?:[^"\\]|\\.)*"), variant := (\d+), line := \d+,\n    tpl := (.*?),\n    supplied := (.*?),\n    guards := (.*?) \}\n',
                         txt, re.S):
        base.setdefault(m.group(1), {})[int(m.group(2))] = (m.group(3), m.group(4), m.group(5))
    by_key = {}
    for op in ops:
        by_key.setdefault(op["key"], []).append(op)
    for key, group in by_key.items():
        b = base.get("t!" + lean_str(key))
        if not b or len(b) != len(group) or len(group) < 2:
            continue
        want = [b[i] for i in sorted(b)]
        cur = [_op_texts(op) for op in group]
        if cur == want or sorted(cur) != sorted(want) or len(set(cur)) != len(cur):
            continue
        for op, t in zip(group, cur):
            op["variant"] = want.index(t)
    order = {}
    for i, op in enumerate(ops):
        order.setdefault(op["key"], i)
    return sorted(ops, key=lambda op: (order[op["key"]], op["variant"]))


def generate():
    ops, report = extract()
    ops = align_variants(ops)
    voc = vocab()
    body = "open FimVerif.Cypher\n\n"
    for k in ("classes", "rels", "props"):
        body += "def %s : List String := %s\n\n" % (k, lean_list([lean_str(x) for x in voc[k]]))
    # the same vocabularies as code-point text: what the identifier holes of the templates are filled with by the library itself
    for k in ("classes", "rels", "props"):
        body += "def %sT : List Text := %s\n\n" % (k, lean_list(["t!" + lean_str(x) for x in voc[k]]))
    names = []
    for op in ops:
        nm = def_name(op)
        names.append(nm)
        body += "/-- %s:%d%s -/\n" % (op["module"], op["line"], ("  when " + op["cond"]) if op["cond"] else "")
        body += "def %s : Op :=\n  { key := t!%s, variant := %d, line := %d,\n    tpl := %s,\n    supplied := %s,\n    guards := %s }\n\n" % (
            nm, lean_str(op["key"]), op["variant"], op["line"],
            "[" + ",\n            ".join(lean_piece(p) for p in op["tpl"]) + "]",
            lean_list(["t!" + lean_str(s) for s in op["supplied"]]),
            lean_list([".%s t!%s" % (g, lean_str(m)) for g, m in op["guards"]]))
    body += "def ops : List Op := %s\n" % ("[" + ",\n  ".join(names) + "]")
    changed = emit("Cypher", body, header="import FimVerif.Model.Cypher\n")
    return {"ops": len(ops), "modules": report, "changed": changed,
            "keys": sorted({o["key"] for o in ops}), "vocab_sizes": {k: len(v) for k, v in voc.items()}}


def table():
    """the extracted operations as Python data (used by the harness to enumerate operations; not a second model)"""
    ops, _ = extract()
    return align_variants(ops)


if __name__ == "__main__":
    import pprint
    ops, rep = extract()
    for o in ops:
        print(o["key"], o["variant"], o["cond"], o["supplied"])
        pprint.pprint(o["tpl"], width=160)
    print(rep)
