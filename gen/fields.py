"""Translate the JSONField family of fim.slivers.capacities_labels (and the tables the other small
codecs depend on) into lean/FimVerif/Generated/Fields.lean.

Per JSONField subclass - every descendant of JSONField in the running module, cross-checked against the class
statements found in the source of every module under /repo/fim (a subclass declared elsewhere is refused):
  fields/defaults : instantiate with no arguments, read __dict__ (defaults must be None / 0 / False)
  guard           : the assert statements at the head of the `for k, v in kwargs.items()` loop of _set_fields
  unknown-key     : try: self.__getattribute__(k) | if k not in self.__dict__: raise AttributeError(k); [validators]; self.__setattr__(k, v)
                    except AttributeError: if forgiving: <log> else: raise <Exc>(report)
  drop rules      : to_json / to_dict resolved through the MRO; recognised bodies
                      d = self.__dict__.copy(); for k in self.__dict__: if <COND>: d.pop(k);
                      if len(d) == 0: return '' | None; return json.dumps(d, skipkeys=True, sort_keys=True) | d
                    with COND one of `d[k] is None or d[k] == 0`, `d[k] is None`,
                    `d[k] is None or d[k] == fresh.get(k)` after `fresh = self.__class__().__dict__`, or
                      d = self.__dict__.copy(); return json.dumps(d, skipkeys=True, sort_keys=True)     (keep all)
  from_json/update: must be the inherited JSONField ones, whose shape is checked statement by statement
                    (from_json: keys not in the fresh instance's __dict__ are filtered out before _set_fields)
  attrs           : dir(instance) minus fields (names for which __getattribute__ succeeds)
Class-level mutable attributes on JSONField / its subclasses (other than the read-only tables UNITS, VALIDATORS,
LAMBDA_VALIDATORS), run-time writes to class attributes, and unknown members of JSONField are refused.
Anything else is an ExtractionError.
Also emitted: NEO4j_NONE, JSONData MAX_SIZEs, typed-tuple type lists, str.isspace() code points,
MaintenanceState names, PathRepresentationType names, MaintenanceEntry field names.
"""
import ast
import importlib
import json
import os

from .common import *

REL = "fim/slivers/capacities_labels.py"


def _src(node):
    return ast.unparse(node)


def _guard(cls_name, fn):
    body = strip_doc(fn.body)
    loops = [s for s in body if isinstance(s, ast.For)]
    if len(loops) != 1:
        raise ExtractionError("%s._set_fields: expected exactly one loop" % cls_name)
    lp = loops[0]
    if _src(lp.target) != "(k, v)" or _src(lp.iter) != "kwargs.items()":
        raise ExtractionError("%s._set_fields: loop header %s in %s" % (cls_name, _src(lp.target), _src(lp.iter)))
    others = [s for s in body if s is not lp]
    if [_src(s) for s in others] not in (["return self"], []):
        raise ExtractionError("%s._set_fields: statements outside the loop: %s" % (cls_name, [_src(s) for s in others]))
    stmts = list(lp.body)
    if not stmts or not isinstance(stmts[-1], ast.Try):
        raise ExtractionError("%s._set_fields: loop does not end in try" % cls_name)
    head, tr = stmts[:-1], stmts[-1]
    hs = [_src(s) for s in head]
    table = {
        ("if v is not None:\n    assert v >= 0\n    assert isinstance(v, int)",): "natOrNone",
        ("assert v is not None", "assert isinstance(v, str)"): "str",
        ("assert v is not None", "assert isinstance(v, str) or isinstance(v, list)"): "strOrList",
        ("assert v is not None", "assert isinstance(v, str) or (isinstance(v, list) and all((isinstance(i, str) for i in v)))"): "strOrStrList",
        ("assert v is not None", "assert isinstance(v, str) or isinstance(v, float)"): "strOrFloat",
        ("assert v is not None", "assert isinstance(v, bool)"): "bool",
    }
    g = table.get(tuple(hs))
    if g is None:
        raise ExtractionError("%s._set_fields: unrecognised guard %r" % (cls_name, hs))
    # try body
    tb = [s for s in tr.body if not (isinstance(s, ast.Expr) and isinstance(s.value, ast.Constant))]
    # the test that k is a field: any attribute (methods and class attributes pass it), or membership in the instance dict
    tests = {"self.__getattribute__(k)": False, "if k not in self.__dict__:\n    raise AttributeError(k)": True}
    if len(tb) < 2 or _src(tb[0]) not in tests or _src(tb[-1]) != "self.__setattr__(k, v)":
        raise ExtractionError("%s._set_fields: try body is not <field test> ... setattr" % cls_name)
    strict = tests[_src(tb[0])]
    validators = []
    for s in tb[1:-1]:
        if isinstance(s, ast.If) and _src(s.test) in ("self.VALIDATORS.get(k, None) is not None",
                                                      "self.LAMBDA_VALIDATORS.get(k, None) is not None"):
            validators.append(_src(s.test).split(".")[1])
        else:
            raise ExtractionError("%s._set_fields: unexpected statement in try: %s" % (cls_name, _src(s)[:80]))
    if len(tr.handlers) != 1 or _src(tr.handlers[0].type) != "AttributeError" or tr.orelse or tr.finalbody:
        raise ExtractionError("%s._set_fields: handler shape" % cls_name)
    hb = tr.handlers[0].body
    if len(hb) != 2 or not isinstance(hb[0], ast.Assign) or not isinstance(hb[1], ast.If) or _src(hb[1].test) != "forgiving":
        raise ExtractionError("%s._set_fields: handler body" % cls_name)
    iff = hb[1]
    if len(iff.body) != 1 or "warning(report)" not in _src(iff.body[0]) or len(iff.orelse) != 1 \
            or not isinstance(iff.orelse[0], ast.Raise) or not isinstance(iff.orelse[0].exc, ast.Call):
        raise ExtractionError("%s._set_fields: forgiving branch" % cls_name)
    exc = _src(iff.orelse[0].exc.func)
    return g, validators, exc, strict


COND = {
    "d[k] is None or d[k] == 0": "noneOrZero",
    "d[k] is None": "noneOnly",
}


def _drop_rule(cls_name, fn, kind):
    """kind: 'json' or 'dict'"""
    body = [_src(s) for s in strip_doc(fn.body)]
    dump = "return json.dumps(d, skipkeys=True, sort_keys=True)"
    if kind == "json" and body == ["d = self.__dict__.copy()", dump]:
        return "keepAll"
    fresh = None
    if len(body) == 5 and body[1] in ("fresh = self.__class__().__dict__", "fresh = type(self)().__dict__"):
        fresh = body.pop(1)
    if len(body) != 4 or body[0] != "d = self.__dict__.copy()":
        raise ExtractionError("%s.%s: unrecognised body %r" % (cls_name, fn.name, body))
    loop = [s for s in strip_doc(fn.body) if isinstance(s, ast.For)]
    if len(loop) != 1 or _src(loop[0].target) != "k" or _src(loop[0].iter) != "self.__dict__" or len(loop[0].body) != 1:
        raise ExtractionError("%s.%s: filter loop shape" % (cls_name, fn.name))
    iff = loop[0].body[0]
    if not isinstance(iff, ast.If) or iff.orelse or [_src(s) for s in iff.body] != ["d.pop(k)"]:
        raise ExtractionError("%s.%s: filter loop body" % (cls_name, fn.name))
    cond = _src(iff.test)
    if fresh is not None:
        if cond not in ("d[k] is None or d[k] == fresh.get(k)", "d[k] is None or d[k] == fresh[k]"):
            raise ExtractionError("%s.%s: condition with fresh instance: %s" % (cls_name, fn.name, cond))
        rule = "noneOrDefault"
    else:
        rule = COND.get(cond)
        if rule is None:
            raise ExtractionError("%s.%s: unrecognised drop condition %s" % (cls_name, fn.name, cond))
    empty = "return ''" if kind == "json" else "return None"
    if body[2] != "if len(d) == 0:\n    %s" % empty:
        raise ExtractionError("%s.%s: empty case %r" % (cls_name, fn.name, body[2]))
    if body[3] != (dump if kind == "json" else "return d"):
        raise ExtractionError("%s.%s: final statement %r" % (cls_name, fn.name, body[3]))
    return rule


FROM_JSON = [
    "if json_string is None or len(json_string) == 0 or json_string == ABCPropertyGraphConstants.NEO4j_NONE:\n    return None",
    "d = json.loads(json_string)", "ret = cls()", "unknown = [k for k in d if k not in ret.__dict__]",
    "if len(unknown) > 0:\n    fl.get_logger().warning(f'Ignoring unknown fields {unknown} of {cls.__name__}')",
    "ret._set_fields(forgiving=True, **{k: v for k, v in d.items() if k in ret.__dict__})", "return ret"]
UPDATE = [
    "assert isinstance(lab, JSONField)", "inst = lab.__class__()",
    "for k, v in lab.__dict__.items():\n    inst.__setattr__(k, %s)", "inst._set_fields(**kwargs)", "return inst"]
# the value expression of the attribute-copy loop of update(): by reference, or with list values copied
UPDATE_VALUE = {"v": False, "v.copy() if isinstance(v, list) else v": True, "list(v) if isinstance(v, list) else v": True,
                "v[:] if isinstance(v, list) else v": True, "copy.copy(v) if isinstance(v, list) else v": True}


def _jval(v):
    if v is None:
        return ".null"
    if v is False:
        return ".bool false"
    if isinstance(v, int) and not isinstance(v, bool) and v == 0:
        return ".int 0"
    raise ExtractionError("default value %r is not None / 0 / False" % (v,))


def _resolve(tree, cls, name):
    """ClassDef + FunctionDef of `name` through the MRO of the running class."""
    for k in cls.__mro__:
        if name in k.__dict__:
            cd = find_class(tree, k.__name__)
            return k.__name__, find_func(cd, name)
    raise ExtractionError("%s has no %s" % (cls.__name__, name))


BASE_MEMBERS = {"update", "_set_fields", "to_json", "from_json", "to_dict", "__repr__", "__str__", "list_fields"}
CONST_TABLES = {"UNITS", "VALIDATORS", "LAMBDA_VALIDATORS"}     # class-level dict literals that are only ever read
MUTATORS = {"update", "setdefault", "pop", "popitem", "clear", "append", "extend", "insert", "remove", "add", "discard", "__setitem__"}


def _no_class_level_state(tree, class_names):
    """A codec whose output depends on what the process did before cannot be modelled as a function of the value:
    refuse class-level mutable attributes on JSONField and its subclasses (other than the constant tables, which
    must never be written), and any member of the base class this translator does not know."""
    for cn in class_names:
        cd = find_class(tree, cn)
        for st in cd.body:
            if isinstance(st, (ast.Assign, ast.AnnAssign)):
                targets = st.targets if isinstance(st, ast.Assign) else [st.target]
                names = [t.id for t in targets if isinstance(t, ast.Name)]
                v = st.value
                mutable = isinstance(v, (ast.Dict, ast.List, ast.Set, ast.ListComp, ast.DictComp, ast.SetComp)) or \
                    (isinstance(v, ast.Call) and getattr(v.func, "id", getattr(v.func, "attr", "")) in
                     ("dict", "list", "set", "defaultdict", "OrderedDict", "Counter", "deque", "bytearray"))
                for n in names:
                    if mutable and n not in CONST_TABLES:
                        raise ExtractionError("class-level mutable attribute %s.%s: the encoding could depend on what the process "
                                              "encoded earlier (hidden state shared by instances/subclasses)" % (cn, n))
            elif isinstance(st, (ast.FunctionDef, ast.AsyncFunctionDef)):
                if cn == "JSONField" and st.name not in BASE_MEMBERS:
                    raise ExtractionError("JSONField has a member this translator does not know: %s" % st.name)
    # nothing writes a class-level table, and nothing assigns cls.X / <Class>.X / self.__class__.X at run time
    for node in ast.walk(tree):
        tgt = None
        if isinstance(node, ast.Call) and isinstance(node.func, ast.Attribute) and node.func.attr in MUTATORS:
            tgt = node.func.value
        elif isinstance(node, (ast.Assign, ast.AugAssign, ast.Delete)):
            ts = node.targets if isinstance(node, (ast.Assign, ast.Delete)) else [node.target]
            for t in ts:
                if isinstance(t, ast.Subscript):
                    tgt = t.value
                elif isinstance(t, ast.Attribute) and isinstance(t.value, ast.Name) and t.value.id in (["cls"] + list(class_names)):
                    raise ExtractionError("class attribute %s.%s is assigned at run time" % (t.value.id, t.attr))
        if isinstance(tgt, ast.Attribute) and tgt.attr in CONST_TABLES | {"_defaults"} or \
                (isinstance(tgt, ast.Attribute) and isinstance(tgt.value, ast.Name) and tgt.value.id == "cls"):
            raise ExtractionError("class-level table %s is modified at run time (line %d)" % (ast.unparse(tgt), node.lineno))


def _family_in_source():
    """{class name: (file, [base names])} of every class under /repo/fim whose bases reach JSONField, found in the
    *source* (AST of every module), so that a subclass added anywhere - also in a module nothing imports yet, or as a
    subclass of a subclass - is seen."""
    classes = {}
    root = os.path.join(REPO, "fim")
    for dp, dn, fn in os.walk(root):
        for f in sorted(fn):
            if not f.endswith(".py"):
                continue
            rel = os.path.relpath(os.path.join(dp, f), REPO)
            try:
                t = ast.parse(read_src(rel))
            except SyntaxError:
                continue
            for n in ast.walk(t):
                if isinstance(n, ast.ClassDef):
                    bases = [b.id if isinstance(b, ast.Name) else b.attr if isinstance(b, ast.Attribute) else "" for b in n.bases]
                    classes.setdefault(n.name, []).append((rel, bases))
    family, member, grew = {"JSONField"}, {}, True
    while grew:                      # a class statement joins when one of its bases is (by name) a member
        grew = False
        for name, defs in classes.items():
            for rel, bases in defs:
                if name != "JSONField" and set(bases) & family and (rel, bases) not in member.get(name, []):
                    member.setdefault(name, []).append((rel, bases))
                    family.add(name)
                    grew = True
    return member


def _descendants(k):
    out = []
    for c in k.__subclasses__():
        out.append(c)
        out.extend(_descendants(c))
    return out


def generate():
    tree, src = parse(REL)
    import fim.slivers.capacities_labels as cl
    importlib.reload(cl) if os.environ.get("VERIF_RELOAD") else None
    from core import err_kind
    base = find_class(tree, "JSONField")
    fj = [_src(s) for s in strip_doc(find_func(base, "from_json").body)]
    if fj != FROM_JSON:
        raise ExtractionError("JSONField.from_json changed shape: %r" % fj)
    up = [_src(s) for s in strip_doc(find_func(base, "update").body)]
    copies = [c for e, c in UPDATE_VALUE.items() if up == [u % e if "%s" in u else u for u in UPDATE]]
    if len(copies) != 1:
        raise ExtractionError("JSONField.update changed shape: %r" % up)
    update_copies_lists = copies[0]
    subs = _descendants(cl.JSONField)
    if not subs:
        raise ExtractionError("no JSONField subclasses")
    # the classes of the running module are exactly the ones the source declares: nothing outside this file, nothing missed
    declared = _family_in_source()
    for n, defs in sorted(declared.items()):
        if len(defs) != 1 or defs[0][0] != REL:
            raise ExtractionError("JSONField subclass %s is declared in %s: outside the module this translator covers" % (n, [d[0] for d in defs]))
    if set(declared) != set(c.__name__ for c in subs if c.__module__ == cl.__name__):
        raise ExtractionError("JSONField subclasses in the source %s differ from those of the running module %s" %
                              (sorted(declared), sorted(c.__name__ for c in subs)))
    _no_class_level_state(tree, ["JSONField"] + [c.__name__ for c in subs if c.__module__ == cl.__name__])
    report = {"classes": {}}
    body = ""
    specs = []
    for c in subs:
        n = c.__name__
        if c.__module__ != cl.__name__:
            continue
        for meth in ("from_json", "update"):
            if _resolve(tree, c, meth)[0] != "JSONField":
                raise ExtractionError("%s overrides %s" % (n, meth))
        inst = c()
        fields = list(inst.__dict__.items())
        g, validators, exc, strict = _guard(n, _resolve(tree, c, "_set_fields")[1])
        jrule = _drop_rule(n, _resolve(tree, c, "to_json")[1], "json")
        drule = _drop_rule(n, _resolve(tree, c, "to_dict")[1], "dict")
        attrs = sorted(a for a in dir(inst) if a not in inst.__dict__)
        excls = getattr(cl, exc, None)
        if excls is None:
            raise ExtractionError("%s: exception %s not found" % (n, exc))
        kind = err_kind(excls("x"))
        vkeys = []
        if validators:
            vkeys = sorted(set(getattr(c, "VALIDATORS", {})) | set(getattr(c, "LAMBDA_VALIDATORS", {})))
            if not set(vkeys) <= set(k for k, _ in fields):
                raise ExtractionError("%s: validator keys that are not fields" % n)
        lname = n[0].lower() + n[1:]
        body += "def %s : ClassSpec where\n" % lname
        body += "  name := %s\n" % lean_str(n)
        body += "  fields := %s\n" % lean_list(["⟨%s, %s⟩" % (lean_str(k), _jval(v)) for k, v in fields])
        body += "  guard := .%s\n  drop := .%s\n  dictDrop := .%s\n" % (g, jrule, drule)
        body += "  attrs := %s\n" % lean_list([lean_str(a) for a in attrs])
        body += "  unknownErr := %s\n" % lean_str(kind)
        body += "  strictFields := %s\n\n" % ("true" if strict else "false")
        if validators:
            body += "/-- fields of %s that have a VALIDATORS / LAMBDA_VALIDATORS entry -/\n" % n
            body += "def %sValidated : List String := %s\n\n" % (lname, lean_list([lean_str(k) for k in vkeys]))
        specs.append(lname)
        report["classes"][n] = {"fields": [k for k, _ in fields], "guard": g, "to_json": jrule, "to_dict": drule,
                                "unknown": kind, "validators": validators, "strict_fields": strict}
    body += "def all : List ClassSpec := %s\n\n" % lean_list(specs)
    body += "/-- `JSONField.update` copies list values into the new instance (it does not share them with the original) -/\n"
    body += "def updateCopiesLists : Bool := %s\n\n" % ("true" if update_copies_lists else "false")
    report["update_copies_lists"] = update_copies_lists

    from fim.graph.abc_property_graph_constants import ABCPropertyGraphConstants as K
    body += "def neo4jNone : String := %s\n\n" % lean_str(K.NEO4j_NONE)

    import fim.slivers.json_data as jd
    sizes = []
    for k in jd.JSONData.__subclasses__():
        sizes.append((k.__name__, int(k.MAX_SIZE)))
    body += "def jsonDataMax : List (String × Nat) := %s\n\n" % lean_list(["(%s, %d)" % (lean_str(a), b) for a, b in sizes])
    report["json_data"] = dict(sizes)

    import fim.graph.typed_tuples as tt
    cats = []
    for k in tt.TypedTuple.__subclasses__():
        probe = object.__new__(k)
        try:
            k.__init__(probe, atype="\x00", aval="")
        except Exception:
            pass
        cat, tf = probe.category, probe.types_file
        with open(os.path.join(REPO, "fim", "graph", "data", tf)) as f:
            types = list(json.load(f).keys())
        for t in types:
            if ":" in t or t != t.strip():
                raise ExtractionError("typed tuple type %r contains ':' or outer blanks" % t)
        cats.append((k.__name__, types))
    if tt.TypedTuple.LABEL_SEPARATOR != ":":
        raise ExtractionError("LABEL_SEPARATOR changed")
    body += "def tupleTypes : List (String × List String) := %s\n\n" % lean_list(
        ["(%s, %s)" % (lean_str(a), lean_list([lean_str(t) for t in ts])) for a, ts in cats])
    report["typed_tuples"] = {a: len(ts) for a, ts in cats}

    ws = [c for c in range(0x110000) if chr(c).isspace()]
    body += "/-- code points with str.isspace() in the running Python (what str.strip() removes) -/\n"
    body += "def whitespace : List Nat := %s\n\n" % lean_list([str(c) for c in ws])

    import fim.slivers.maintenance_mode as mm
    import dataclasses
    body += "def maintenanceStates : List String := %s\n\n" % lean_list([lean_str(s.name) for s in mm.MaintenanceState])
    body += "def maintenanceEntryFields : List String := %s\n\n" % lean_list(
        [lean_str(f.name) for f in dataclasses.fields(mm.MaintenanceEntry)])
    import fim.slivers.path_info as pi
    body += "def pathTypes : List String := %s\n" % lean_list([lean_str(str(t)) for t in pi.PathRepresentationType])

    changed = emit("Fields", body, header="import FimVerif.Model.Codec\nopen FimVerif FimVerif.Codec\n")
    report["changed"] = changed
    report["span"] = span_hash(src, base)
    return report
