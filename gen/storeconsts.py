"""Constants the in-memory stores key on (C04/C05): identity property names, the
no-unset list, the NetworkX label attribute, class and relation vocabularies.

Read by importing fim.graph.abc_property_graph_constants / networkx_mixin from /repo
(plain class attributes; anything that is not a str / list of str is an ExtractionError),
plus an AST check that NO_UNSET_PROPERTIES is still a list display of names.
"""
import ast
import importlib

from .common import *

REL = "fim/graph/abc_property_graph_constants.py"
SCALARS = ["GRAPH_ID", "NODE_ID", "PROP_CLASS", "PROP_TYPE", "PROP_NAME", "PROP_STITCH_NODE"]


def extract():
    tree, src = parse(REL)
    cls = find_class(tree, "ABCPropertyGraphConstants")
    no_unset_names = None
    for n in cls.body:
        if isinstance(n, ast.Assign) and len(n.targets) == 1 and isinstance(n.targets[0], ast.Name) \
                and n.targets[0].id == "NO_UNSET_PROPERTIES":
            if not isinstance(n.value, ast.List) or not all(isinstance(e, ast.Name) for e in n.value.elts):
                raise ExtractionError("NO_UNSET_PROPERTIES is no longer a list of constant names")
            no_unset_names = [e.id for e in n.value.elts]
    if no_unset_names is None:
        raise ExtractionError("NO_UNSET_PROPERTIES not found")
    import fim.graph.abc_property_graph_constants as m
    importlib.reload(m)
    C = m.ABCPropertyGraphConstants
    out = {}
    for k in SCALARS:
        v = getattr(C, k, None)
        if not isinstance(v, str):
            raise ExtractionError("constant %s is not a str" % k)
        out[k] = v
    nu = C.NO_UNSET_PROPERTIES
    if not isinstance(nu, list) or not all(isinstance(x, str) for x in nu):
        raise ExtractionError("NO_UNSET_PROPERTIES is not a list of str")
    if nu != [getattr(C, n) for n in no_unset_names]:
        raise ExtractionError("NO_UNSET_PROPERTIES value differs from its source display")
    out["NO_UNSET"] = nu
    out["CLASSES"] = [getattr(C, k) for k in sorted(vars(C)) if k.startswith("CLASS_")]
    out["RELS"] = [getattr(C, k) for k in sorted(vars(C)) if k.startswith("REL_")]
    from fim.graph.networkx_mixin import NetworkXMixin
    if not isinstance(NetworkXMixin.NETWORKX_LABEL, str):
        raise ExtractionError("NETWORKX_LABEL is not a str")
    out["NETWORKX_LABEL"] = NetworkXMixin.NETWORKX_LABEL
    out["span"] = span_hash(src, cls)
    return out


def generate():
    c = extract()
    body = ""
    body += "def graphId : String := %s\n" % lean_str(c["GRAPH_ID"])
    body += "def nodeId : String := %s\n" % lean_str(c["NODE_ID"])
    body += "def propClass : String := %s\n" % lean_str(c["PROP_CLASS"])
    body += "def propType : String := %s\n" % lean_str(c["PROP_TYPE"])
    body += "def propName : String := %s\n" % lean_str(c["PROP_NAME"])
    body += "def propStitchNode : String := %s\n" % lean_str(c["PROP_STITCH_NODE"])
    body += "/-- NetworkXMixin.NETWORKX_LABEL -/\ndef nxLabel : String := %s\n" % lean_str(c["NETWORKX_LABEL"])
    body += "/-- ABCPropertyGraphConstants.NO_UNSET_PROPERTIES -/\ndef noUnset : List String := %s\n" % lean_list(
        [lean_str(x) for x in c["NO_UNSET"]])
    body += "def classes : List String := %s\n" % lean_list([lean_str(x) for x in c["CLASSES"]])
    body += "def rels : List String := %s\n" % lean_list([lean_str(x) for x in c["RELS"]])
    changed = emit("StoreConsts", body)
    return {"consts": {k: c[k] for k in SCALARS + ["NO_UNSET", "NETWORKX_LABEL"]}, "span": c["span"], "changed": changed}


if __name__ == "__main__":
    print(generate())
