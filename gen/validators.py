"""Translate fim's validators into Lean (Generated/Validators.lean).

What is read from /repo's working tree on every run:
  * Labels.VALIDATORS regex strings, parsed by CPython's own regex parser (re._parser.parse, no flags) and
    translated opcode by opcode into `Re` terms; any opcode outside
    {LITERAL, ANY, IN(LITERAL|RANGE|CATEGORY_DIGIT|CATEGORY_WORD), MAX_REPEAT, SUBPATTERN, BRANCH, AT_BEGINNING (first),
    AT_END (last)} is an ExtractionError;
  * the anchoring idiom of each call site by AST: re.match / re.fullmatch / compiled.match / compiled.fullmatch and the
    pattern expression ('^' + X + '$' or X); match + trailing `$` = Anchor.pyDollar, fullmatch = Anchor.full,
    anything else is an ExtractionError;
  * Labels.LAMBDA_VALIDATORS bodies by AST: `True if <conj of comparison chains> else False` over integer constants
    (incl. -n, a**b), int(arg), int(arg.split(sep)[i]);
  * Tags.TAG_PATTERN, NAME_REGEX of every BaseSliver subclass, MAX_SIZE of the JSONData subclasses and the comparison
    used, BOOST_SCRIPT_SIZE and the comparison used in set_boot_script;
  * from the running interpreter: `\\d` (str.isdecimal, split into decades 0..9), `\\w` (what re matches), the characters
    int() strips, sys.get_int_max_str_digits().
"""
import ast
import re
import sys
import unicodedata

from .common import *

REL_CL = "fim/slivers/capacities_labels.py"
REL_TAGS = "fim/slivers/tags.py"
REL_BASE = "fim/slivers/base_sliver.py"
REL_JSON = "fim/slivers/json_data.py"

try:
    import re._parser as sre_parse
    import re._constants as sre_c
except ImportError:  # pragma: no cover
    import sre_parse
    import sre_constants as sre_c


# ---------------------------------------------------------------- regex -> Re

def _atom_pred(items):
    """items of an IN (or a single op) -> Lean Bool expression over `c : Char`."""
    parts = []
    for op, av in items:
        if op is sre_c.LITERAL:
            parts.append("c.toNat == %d" % av)
        elif op is sre_c.RANGE:
            parts.append("(Nat.ble %d c.toNat && Nat.ble c.toNat %d)" % (av[0], av[1]))
        elif op is sre_c.CATEGORY and av is sre_c.CATEGORY_DIGIT:
            parts.append("isDigit c")
        elif op is sre_c.CATEGORY and av is sre_c.CATEGORY_WORD:
            parts.append("isWord c")
        else:
            raise ExtractionError("regex class item not in the supported subset: %s %s" % (op, av))
    if not parts:
        raise ExtractionError("empty character class")
    return " || ".join(parts)


def _seq(items, pat):
    out = [_node(op, av, pat) for op, av in items]
    if not out:
        return ".eps"
    t = out[-1]
    for x in reversed(out[:-1]):
        t = "(.cat %s %s)" % (x, t)
    return t


def _node(op, av, pat):
    if op is sre_c.LITERAL:
        return "(.chr (fun c => c.toNat == %d))" % av
    if op is sre_c.ANY:
        return "(.chr (fun c => c.toNat != 10))"        # no DOTALL: '.' is anything but "\n"
    if op is sre_c.IN:
        return "(.chr (fun c => %s))" % _atom_pred(av)
    if op is sre_c.CATEGORY:
        return "(.chr (fun c => %s))" % _atom_pred([(op, av)])
    if op is sre_c.MAX_REPEAT:
        lo, hi, sub = av
        s = _seq(list(sub), pat)
        if hi is sre_c.MAXREPEAT:
            if lo == 0:
                return "(.star %s)" % s
            return "(.cat (.rep %s %d %d) (.star %s))" % (s, lo, lo, s)
        return "(.rep %s %d %d)" % (s, lo, hi)
    if op is sre_c.SUBPATTERN:
        group, add_flags, del_flags, sub = av
        if add_flags or del_flags:
            raise ExtractionError("inline flags in %r" % pat)
        return _seq(list(sub), pat)
    if op is sre_c.BRANCH:
        _, alts = av
        out = [_seq(list(a), pat) for a in alts]
        t = out[-1]
        for x in reversed(out[:-1]):
            t = "(.alt %s %s)" % (x, t)
        return t
    raise ExtractionError("regex construct outside the supported subset in %r: %s" % (pat, op))


def regex_to_re(pat):
    """-> (lean term, has_begin_anchor, has_end_anchor)."""
    if not isinstance(pat, str):
        raise ExtractionError("pattern is not a str: %r" % (pat,))
    try:
        p = sre_parse.parse(pat, 0)
    except re.error as e:
        raise ExtractionError("regex %r does not compile: %s" % (pat, e))
    if p.state.flags & ~re.UNICODE:
        raise ExtractionError("regex %r sets flags" % pat)
    items = list(p)
    beg = end = False
    if items and items[0] == (sre_c.AT, sre_c.AT_BEGINNING):
        beg, items = True, items[1:]
    if items and items[-1] == (sre_c.AT, sre_c.AT_END):
        end, items = True, items[:-1]
    return _seq(items, pat), beg, end


def anchor_of(kind, has_end, where):
    if kind == "fullmatch":
        return ".full"
    if kind == "match" and has_end:
        return ".pyDollar"
    raise ExtractionError("%s: anchoring idiom not modelled (call %s, trailing $ %s)" % (where, kind, has_end))


# ---------------------------------------------------------------- call sites

def _is_validators_k0(n):
    # self.VALIDATORS[k][0]
    return (isinstance(n, ast.Subscript) and isinstance(n.slice, ast.Constant) and n.slice.value == 0
            and isinstance(n.value, ast.Subscript) and isinstance(n.value.slice, ast.Name) and n.value.slice.id == "k"
            and isinstance(n.value.value, ast.Attribute) and n.value.value.attr == "VALIDATORS")


def label_call_sites(fn):
    """-> {'i': (kind, prefix, suffix), 'v': (...)} for the regex calls in Labels._set_fields."""
    sites = {}
    for n in ast.walk(fn):
        if isinstance(n, ast.Call) and isinstance(n.func, ast.Attribute) and isinstance(n.func.value, ast.Name) \
                and n.func.value.id == "re":
            kind = n.func.attr
            if kind not in ("match", "fullmatch") or len(n.args) != 2 or n.keywords:
                raise ExtractionError("Labels._set_fields: unrecognised re call %s" % ast.dump(n)[:200])
            pat, subj = n.args
            pre = suf = ""
            if _is_validators_k0(pat):
                pass
            elif (isinstance(pat, ast.BinOp) and isinstance(pat.op, ast.Add) and isinstance(pat.right, ast.Constant)
                  and isinstance(pat.left, ast.BinOp) and isinstance(pat.left.op, ast.Add)
                  and isinstance(pat.left.left, ast.Constant) and _is_validators_k0(pat.left.right)
                  and isinstance(pat.right.value, str) and isinstance(pat.left.left.value, str)):
                pre, suf = pat.left.left.value, pat.right.value
            else:
                raise ExtractionError("Labels._set_fields: unrecognised pattern expression %s" % ast.dump(pat)[:200])
            if not (isinstance(subj, ast.Name) and subj.id in ("i", "v")):
                raise ExtractionError("Labels._set_fields: regex subject is not the value / list element")
            if subj.id in sites:
                raise ExtractionError("Labels._set_fields: more than one regex call on %s" % subj.id)
            sites[subj.id] = (kind, pre, suf)
    if not sites:
        # the regular expression is applied somewhere else (a helper, a normalised one-element list ...): the running class says how
        return label_sites_by_probe()
    if set(sites) != {"i", "v"}:
        raise ExtractionError("Labels._set_fields: expected one regex call for list elements and one for scalars, got %s" % sorted(sites))
    return sites


def label_sites_by_probe():
    """How Labels._set_fields applies VALIDATORS[k][0] to a scalar ('v') and to a list element ('i'), decided on the running class
    when no `re` call is found in the method itself (validation moved into helpers): over every validated field and the candidates
    ex, ex+'\\n', ex+' x', 'x '+ex, '\\n'+ex, ex+'\\n\\n', '' the accept/reject outcome must be exactly that of re.fullmatch(R, c), or exactly
    that of re.match('^'+R+'$', c) (which lets a trailing newline through) - and the candidates must tell the two apart."""
    import importlib
    import re
    try:
        cl = importlib.import_module("fim.slivers.capacities_labels")
        Labels, LE = cl.Labels, cl.LabelException
    except Exception as e:
        raise ExtractionError("Labels._set_fields: no regex call in the method and the class cannot be imported: %s" % e)
    sems = {("fullmatch", "", ""): lambda R, c: re.fullmatch(R, c) is not None,
            ("match", "^", "$"): lambda R, c: re.match("^" + R + "$", c) is not None}

    def accepted(k, arg):
        try:
            Labels()._set_fields(**{k: arg})
            return True
        except LE:
            return False
        except Exception:
            return None
    out = {}
    for form in ("v", "i"):
        alive, told_apart = set(sems), False
        for k, (R, exs) in sorted(Labels.VALIDATORS.items()):
            if k not in Labels().__dict__:
                continue
            ex = exs.split("'")[1] if "'" in exs else exs
            if accepted(k, ex) is not True:
                continue
            lam = Labels.LAMBDA_VALIDATORS.get(k)
            for c in (ex, ex + "\n", ex + " x", "x " + ex, "\n" + ex, ex + "\n\n", ""):
                try:
                    lam_ok = lam is None or lam[0](c) is not False
                except Exception:
                    continue
                acc = accepted(k, c if form == "v" else [ex, c])
                if acc is None:
                    continue
                verdicts = {name: f(R, c) for name, f in sems.items()}
                if len(set(verdicts.values())) > 1:
                    told_apart = True
                for name, vd in verdicts.items():
                    if acc != (vd and lam_ok):
                        alive.discard(name)
        if len(alive) != 1 or not told_apart:
            raise ExtractionError("Labels._set_fields: no regex call in the method and its behaviour on %s is neither fullmatch nor "
                                  "match('^'+R+'$') (%s)" % ("scalars" if form == "v" else "list elements", sorted(alive)))
        out[form] = next(iter(alive))
    return out


# ---------------------------------------------------------------- lambdas

def _int_const(n):
    if isinstance(n, ast.Constant) and isinstance(n.value, int) and not isinstance(n.value, bool):
        return n.value
    if isinstance(n, ast.UnaryOp) and isinstance(n.op, ast.USub):
        v = _int_const(n.operand)
        return None if v is None else -v
    if isinstance(n, ast.BinOp) and isinstance(n.op, ast.Pow):
        a, b = _int_const(n.left), _int_const(n.right)
        if a is not None and b is not None and 0 <= b <= 128:
            return a ** b
    return None


def _int_term(n, arg):
    c = _int_const(n)
    if c is not None:
        return "(.lit (%d))" % c
    if isinstance(n, ast.Call) and isinstance(n.func, ast.Name) and n.func.id == "int" and len(n.args) == 1 and not n.keywords:
        a = n.args[0]
        if isinstance(a, ast.Name) and a.id == arg:
            return ".ofStr"
        # arg.split('-')[i]
        if (isinstance(a, ast.Subscript) and isinstance(a.slice, ast.Constant) and isinstance(a.slice.value, int)
                and a.slice.value >= 0 and isinstance(a.value, ast.Call) and isinstance(a.value.func, ast.Attribute)
                and a.value.func.attr == "split" and isinstance(a.value.func.value, ast.Name)
                and a.value.func.value.id == arg and len(a.value.args) == 1 and not a.value.keywords
                and isinstance(a.value.args[0], ast.Constant) and isinstance(a.value.args[0].value, str)
                and len(a.value.args[0].value) == 1):
            return "(.ofPart (Char.ofNat %d) %d)" % (ord(a.value.args[0].value), a.slice.value)
    raise ExtractionError("range lambda: unrecognised integer term %s" % ast.dump(n)[:200])


def lambda_to_range(lam):
    if not (isinstance(lam, ast.Lambda) and len(lam.args.args) == 1 and not lam.args.defaults):
        raise ExtractionError("range validator is not a one-argument lambda")
    arg = lam.args.args[0].arg
    b = lam.body
    if not (isinstance(b, ast.IfExp) and isinstance(b.body, ast.Constant) and b.body.value is True
            and isinstance(b.orelse, ast.Constant) and b.orelse.value is False):
        raise ExtractionError("range lambda is not `True if C else False`")
    conj = b.test.values if isinstance(b.test, ast.BoolOp) and isinstance(b.test.op, ast.And) else [b.test]
    cmps = []
    for c in conj:
        if not isinstance(c, ast.Compare):
            raise ExtractionError("range lambda: conjunct is not a comparison")
        terms = [c.left] + list(c.comparators)
        for l, op, r in zip(terms, c.ops, terms[1:]):
            o = {ast.LtE: ".le", ast.Lt: ".lt"}.get(type(op))
            if o is None:
                raise ExtractionError("range lambda: comparison operator %s" % type(op).__name__)
            cmps.append("⟨%s, %s, %s⟩" % (_int_term(l, arg), o, _int_term(r, arg)))
    return cmps


def label_tables(tree):
    cls = find_class(tree, "Labels")
    lam = None
    for st in cls.body:
        if isinstance(st, ast.Assign) and getattr(st.targets[0], "id", "") == "LAMBDA_VALIDATORS":
            lam = st.value
    if not isinstance(lam, ast.Dict):
        raise ExtractionError("Labels.LAMBDA_VALIDATORS is not a dict literal")
    ranges = {}
    for k, v in zip(lam.keys, lam.values):
        if not (isinstance(k, ast.Constant) and isinstance(k.value, str) and isinstance(v, ast.Tuple) and len(v.elts) == 2):
            raise ExtractionError("LAMBDA_VALIDATORS entry shape")
        ranges[k.value] = lambda_to_range(v.elts[0])
    return cls, ranges


# ---------------------------------------------------------------- unicode tables from the running interpreter

def _runs(pred):
    out, start = [], None
    for cp in range(0x110000):
        if 0xD800 <= cp <= 0xDFFF:
            ok = False
        else:
            ok = pred(chr(cp))
        if ok and start is None:
            start = cp
        elif not ok and start is not None:
            out.append((start, cp - 1))
            start = None
    if start is not None:
        out.append((start, 0x10FFFF))
    return out


_TABLES = None


def unicode_tables():
    global _TABLES
    if _TABLES is not None:
        return _TABLES
    wre = re.compile(r"\w")
    dre = re.compile(r"\d")
    digits = _runs(lambda ch: dre.fullmatch(ch) is not None)
    decades = []
    for lo, hi in digits:
        if (hi - lo + 1) % 10:
            raise ExtractionError("\\d run %x-%x is not a whole number of decades" % (lo, hi))
        for d in range(lo, hi + 1, 10):
            for j in range(10):
                if unicodedata.decimal(chr(d + j), None) != j or int(chr(d + j)) != j:
                    raise ExtractionError("digit U+%04X does not have value %d" % (d + j, j))
            decades.append((d, d + 9))
    words = _runs(lambda ch: wre.fullmatch(ch) is not None)

    def stripped(ch):
        try:
            return int(ch + "1") == 1 and int("1" + ch) == 1 and ch not in "+-_" and not dre.fullmatch(ch)
        except ValueError:
            return False
    spaces = _runs(stripped)
    _TABLES = (decades, words, spaces)
    return _TABLES


def _pairs(rs):
    lines, cur = [], []
    for lo, hi in rs:
        cur.append("(%d, %d)" % (lo, hi))
        if len(cur) == 8:
            lines.append(", ".join(cur))
            cur = []
    if cur:
        lines.append(", ".join(cur))
    return "[\n  " + ",\n  ".join(lines) + "]"


# ---------------------------------------------------------------- other call sites

def tags_site(tree):
    cls = find_class(tree, "Tags")
    comp = None
    for st in cls.body:
        if isinstance(st, ast.Assign) and getattr(st.targets[0], "id", "") == "compiled_pattern":
            v = st.value
            if not (isinstance(v, ast.Call) and isinstance(v.func, ast.Attribute) and v.func.attr == "compile"
                    and getattr(v.func.value, "id", "") == "re" and len(v.args) == 1 and not v.keywords
                    and getattr(v.args[0], "id", "") == "TAG_PATTERN"):
                raise ExtractionError("Tags.compiled_pattern is not re.compile(TAG_PATTERN)")
            comp = True
    if not comp:
        raise ExtractionError("Tags.compiled_pattern not found")
    fn = find_func(cls, "_check")
    body = strip_doc(fn.body)
    if len(body) != 1 or not isinstance(body[0], ast.If) or body[0].orelse or not isinstance(body[0].body[0], ast.Raise):
        raise ExtractionError("Tags._check: shape")
    t = body[0].test
    # not isinstance(tag, str) or Tags.compiled_pattern.<kind>(tag) is None
    if not (isinstance(t, ast.BoolOp) and isinstance(t.op, ast.Or) and len(t.values) == 2):
        raise ExtractionError("Tags._check: condition shape")
    a, b = t.values
    if not (isinstance(a, ast.UnaryOp) and isinstance(a.op, ast.Not) and isinstance(a.operand, ast.Call)
            and getattr(a.operand.func, "id", "") == "isinstance" and getattr(a.operand.args[1], "id", "") == "str"):
        raise ExtractionError("Tags._check: first disjunct is not `not isinstance(tag, str)`")
    if not (isinstance(b, ast.Compare) and len(b.ops) == 1 and isinstance(b.ops[0], ast.Is)
            and isinstance(b.comparators[0], ast.Constant) and b.comparators[0].value is None
            and isinstance(b.left, ast.Call) and isinstance(b.left.func, ast.Attribute)
            and isinstance(b.left.func.value, ast.Attribute) and b.left.func.value.attr == "compiled_pattern"
            and len(b.left.args) == 1 and not b.left.keywords):
        raise ExtractionError("Tags._check: second disjunct is not `Tags.compiled_pattern.<m>(tag) is None`")
    kind = b.left.func.attr
    if kind not in ("match", "fullmatch"):
        raise ExtractionError("Tags._check: pattern method %s" % kind)
    return kind


def name_site(tree):
    cls = find_class(tree, "BaseSliver")
    fn = find_func(cls, "set_name")
    calls = [n for n in ast.walk(fn) if isinstance(n, ast.Call) and isinstance(n.func, ast.Attribute)
             and getattr(n.func.value, "id", "") == "re"]
    if len(calls) != 1:
        raise ExtractionError("BaseSliver.set_name: expected exactly one re call")
    c = calls[0]
    if c.func.attr not in ("match", "fullmatch") or len(c.args) != 2 or c.keywords:
        raise ExtractionError("BaseSliver.set_name: unrecognised re call")
    p, s = c.args
    if not (isinstance(p, ast.Attribute) and p.attr == "NAME_REGEX" and getattr(p.value, "id", "") == "self"
            and isinstance(s, ast.Name) and s.id == fn.args.args[1].arg):
        raise ExtractionError("BaseSliver.set_name: arguments of the re call")
    # the only statements: assert, m = re..., if not m: raise ValueError, self.resource_name = resource_name
    body = strip_doc(fn.body)
    kinds = [type(x).__name__ for x in body]
    if kinds != ["Assert", "Assign", "If", "Assign"]:
        raise ExtractionError("BaseSliver.set_name: statement sequence %s" % kinds)
    # boot script
    fb = find_func(cls, "set_boot_script")
    bb = strip_doc(fb.body)
    if [type(x).__name__ for x in bb] != ["Assert", "Assign"]:
        raise ExtractionError("BaseSliver.set_boot_script: statement sequence")
    cmpn = [n for n in ast.walk(bb[0]) if isinstance(n, ast.Compare) and isinstance(n.left, ast.Call)
            and getattr(n.left.func, "id", "") == "len"]
    if len(cmpn) != 1 or len(cmpn[0].ops) != 1 or not (isinstance(cmpn[0].comparators[0], ast.Attribute)
                                                       and cmpn[0].comparators[0].attr == "BOOST_SCRIPT_SIZE"):
        raise ExtractionError("BaseSliver.set_boot_script: length comparison")
    bop = {ast.Lt: "<", ast.LtE: "≤"}.get(type(cmpn[0].ops[0]))
    if bop is None:
        raise ExtractionError("BaseSliver.set_boot_script: comparison operator")
    return c.func.attr, bop


def json_site(tree):
    cls = find_class(tree, "JSONData")
    fn = find_func(cls, "__init__")
    cmps = [n for n in ast.walk(fn) if isinstance(n, ast.Compare) and isinstance(n.comparators[0], ast.Attribute)
            and n.comparators[0].attr == "MAX_SIZE"]
    if len(cmps) != 2:
        raise ExtractionError("JSONData.__init__: expected two comparisons with MAX_SIZE, got %d" % len(cmps))
    ops = set()
    for c in cmps:
        if not (len(c.ops) == 1 and isinstance(c.left, ast.Call) and getattr(c.left.func, "id", "") == "len"):
            raise ExtractionError("JSONData.__init__: comparison is not len(..) OP self.MAX_SIZE")
        ops.add(type(c.ops[0]))
    if len(ops) != 1:
        raise ExtractionError("JSONData.__init__: the two size comparisons differ")
    op = {ast.Gt: ">", ast.GtE: "≥"}.get(ops.pop())
    if op is None:
        raise ExtractionError("JSONData.__init__: comparison operator")
    return op


def from_json_filters(tree):
    """JSONField.from_json: does it drop unknown keys before calling _set_fields(forgiving=True, ...)?"""
    fn = find_func(find_class(tree, "JSONField"), "from_json")
    calls = [n for n in ast.walk(fn) if isinstance(n, ast.Call) and isinstance(n.func, ast.Attribute) and n.func.attr == "_set_fields"]
    if len(calls) != 1:
        raise ExtractionError("JSONField.from_json: expected one _set_fields call")
    c = calls[0]
    forgiving = [k for k in c.keywords if k.arg == "forgiving"]
    star = [k for k in c.keywords if k.arg is None]
    if c.args or len(forgiving) != 1 or not (isinstance(forgiving[0].value, ast.Constant) and forgiving[0].value.value is True) or len(star) != 1:
        raise ExtractionError("JSONField.from_json: _set_fields is not called as (forgiving=True, **mapping)")
    v = star[0].value
    if isinstance(v, ast.Name) and v.id == "d":
        return False
    # {k: v for k, v in d.items() if k in ret.__dict__}
    if (isinstance(v, ast.DictComp) and len(v.generators) == 1 and len(v.generators[0].ifs) == 1
            and isinstance(v.key, ast.Name) and isinstance(v.value, ast.Name)):
        g = v.generators[0]
        t = g.ifs[0]
        if (isinstance(g.target, ast.Tuple) and [e.id for e in g.target.elts] == [v.key.id, v.value.id]
                and isinstance(g.iter, ast.Call) and getattr(g.iter.func, "attr", "") == "items" and getattr(g.iter.func.value, "id", "") == "d"
                and isinstance(t, ast.Compare) and isinstance(t.ops[0], ast.In) and getattr(t.left, "id", "") == v.key.id
                and isinstance(t.comparators[0], ast.Attribute) and t.comparators[0].attr == "__dict__"
                and getattr(t.comparators[0].value, "id", "") == "ret"):
            return True
    raise ExtractionError("JSONField.from_json: unrecognised mapping passed to _set_fields")


# ---------------------------------------------------------------- who writes validated properties into the graph

USER_FILES = ["model_element", "node", "component", "interface", "network_service", "link", "composite_node", "topology"]
VALIDATED_PROPS = {"PROP_NAME": "name", "PROP_LABELS": "labels", "PROP_TAGS": "tags", "PROP_BOOT_SCRIPT": "boot_script",
                   "PROP_USER_DATA": "user_data", "PROP_MEAS_DATA": "mf_data", "PROP_LAYOUT_DATA": "layout_data",
                   "PROP_PEER_LABELS": "peer_labels", "PROP_LABEL_ALLOCATIONS": "label_allocations"}
GRAPH_WRITE_CALLS = {"update_node_property", "update_node_properties", "update_nodes_property", "update_link_property",
                     "update_link_properties"}
# public methods of fim.user classes that take a name (or one of the validated values) and create / rewrite an element:
# every one of them has a driver in harness/props/c16.py or is listed there as constructed-through-__init__
EXPECTED_ENTRY_POINTS = {
    "ModelElement.rename", "ModelElement.update_labels",
    "Node.__init__", "Component.__init__", "Interface.__init__", "NetworkService.__init__", "Link.__init__",
    "CompositeNode.__init__", "PortMirrorService.__init__", "ModelElement.__init__",
    "Node.add_component", "Node.add_network_service", "Node.add_storage", "NetworkService.add_interface",
    "Interface.add_child_interface", "Topology.add_node", "Topology.add_facility", "Topology.add_switch", "Topology.add_link",
    "Topology.add_network_service", "ExperimentTopology.add_port_mirror_service", "AdvertizedTopology.add_node",
    "AdvertizedTopology.add_link"}
ENTRY_PARAMS = {"name", "new_name", "labels", "tags", "boot_script", "user_data", "mf_data", "layout_data"}


def _setter_backed_attrs(me_cls):
    """properties of ModelElement whose setter hands the value to self.set_property('<attr>', value) unconditionally
    (possibly after storing it in a private field / under `if topo is not None`)"""
    out = set()
    for fn in me_cls.body:
        if not isinstance(fn, ast.FunctionDef):
            continue
        for d in fn.decorator_list:
            if isinstance(d, ast.Attribute) and d.attr == "setter" and len(fn.args.args) == 2:
                val = fn.args.args[1].arg
                for n in ast.walk(fn):
                    if (isinstance(n, ast.Call) and isinstance(n.func, ast.Attribute) and n.func.attr == "set_property"
                            and len(n.args) == 2 and isinstance(n.args[0], ast.Constant) and n.args[0].value == fn.name
                            and isinstance(n.args[1], ast.Name) and n.args[1].id == val):
                        out.add(fn.name)
    return out


def graph_writers():
    """-> (raw writers [(Class.method, prop, guard)], entry points set)"""
    raw, entries = [], set()
    me_tree, _ = parse("fim/user/model_element.py")
    backed = _setter_backed_attrs(find_class(me_tree, "ModelElement"))
    for f in USER_FILES:
        tree, src = parse("fim/user/%s.py" % f)
        for cls in [n for n in tree.body if isinstance(n, ast.ClassDef)]:
            for fn in [n for n in cls.body if isinstance(n, ast.FunctionDef)]:
                where = "%s.%s" % (cls.name, fn.name)
                is_prop = any(isinstance(d, ast.Attribute) or (isinstance(d, ast.Name) and d.id == "property") for d in fn.decorator_list)
                params = {a.arg for a in fn.args.args + fn.args.kwonlyargs}
                public = not fn.name.startswith("_") or fn.name == "__init__"
                if public and not is_prop and not fn.name.startswith(("remove_", "get_")) and \
                        (params & ENTRY_PARAMS or fn.name == "update_labels"):
                    entries.add(where)
                stmts = list(ast.walk(fn))
                for n in stmts:
                    if not (isinstance(n, ast.Call) and isinstance(n.func, ast.Attribute) and n.func.attr in GRAPH_WRITE_CALLS):
                        continue
                    kw = {k.arg: k.value for k in n.keywords}
                    if n.func.attr == "update_node_properties":
                        d = kw.get("props")
                        ok = False
                        if isinstance(d, ast.Name):
                            for a in stmts:
                                if (isinstance(a, ast.Assign) and getattr(a.targets[0], "id", None) == d.id and isinstance(a.value, ast.Call)
                                        and isinstance(a.value.func, ast.Attribute) and a.value.func.attr.endswith("sliver_to_graph_properties_dict")):
                                    ok = True
                        if not ok:
                            raise ExtractionError("%s writes a property dict that does not come from a sliver" % where)
                        continue                         # validated by the sliver setters (modelled: set_name, set_boot_script, ...)
                    pn = kw.get("prop_name")
                    if not (isinstance(pn, ast.Attribute) and pn.attr.startswith("PROP_")):
                        raise ExtractionError("%s: graph write with a property name that is not a PROP_ constant" % where)
                    if pn.attr not in VALIDATED_PROPS:
                        continue
                    attr = VALIDATED_PROPS[pn.attr]
                    pv = kw.get("prop_val")
                    guard = "unguarded"
                    if isinstance(pv, ast.Name):
                        for st in fn.body:               # a top-level statement before the write: self.<attr> = <same value>
                            if st.lineno >= n.lineno:
                                break
                            if (isinstance(st, ast.Assign) and isinstance(st.targets[0], ast.Attribute) and getattr(st.targets[0].value, "id", "") == "self"
                                    and st.targets[0].attr == attr and attr in backed and isinstance(st.value, ast.Name) and st.value.id == pv.id):
                                guard = "setter:" + attr
                    raw.append((where, attr, guard))
    return sorted(raw), entries


def _doc(rx):
    return rx.replace("-/", "- /").replace("/-", "/ -")


def _all_subclasses(c):
    out = []
    for s in c.__subclasses__():
        out.append(s)
        out.extend(_all_subclasses(s))
    return out


# ---------------------------------------------------------------- main


def kept_probe(nlist):
    """Behavioural probes of the RUNNING classes (no source shape involved):
    write_first   - setters of a validated scalar that leave a refused value in the object they were called on (a valid value is
                    stored first; the refused one arrives through the setter, set_property and the bulk set_properties with other
                    keywords before and after it);
    decode_alters - member words (the sentinel look-alikes of harness/lib_c16: spellings of null / true / empty in Python, JSON,
                    Cypher and every short string constant of ABCPropertyGraphConstants) that the property-dictionary decoder
                    set_base_sliver_properties_from_graph_properties_dict does not hand back as the name / boot script it was given."""
    try:
        import lib_c16
        words = lib_c16.sentinel_words()
    except ImportError as e:
        raise ExtractionError("harness/lib_c16.py (sentinel pool) cannot be imported: %s" % e)
    from fim.graph.abc_property_graph import ABCPropertyGraph as G
    import fim.slivers.base_sliver as bs
    subs = {c.__name__: c for c in _all_subclasses(bs.BaseSliver)}
    limit = bs.BaseSliver.BOOST_SCRIPT_SIZE
    write_first, alters = set(), set()
    routes = {"direct": lambda s, m, k, v: getattr(s, m)(v), "set_property": lambda s, m, k, v: s.set_property(k, v),
              "set_properties": lambda s, m, k, v: s.set_properties(details="d", **{k: v}, model="m")}
    for cname in nlist:
        c = subs[cname]
        try:
            c()
        except TypeError:
            continue                         # abstract
        for meth, key, field, good, bads in (("set_name", "name", "resource_name", "ab", ["ab\n!", "", 7]),
                                             ("set_boot_script", "boot_script", "boot_script", "echo", ["x" * limit, "x" * (limit + 1), 7, ["x"]])):
            for rname, route in routes.items():
                for bad in bads:
                    s = c()
                    try:
                        getattr(s, meth)(good)
                    except Exception as e:
                        raise ExtractionError("%s.%s(%r) raises %s" % (cname, meth, good, type(e).__name__))
                    try:
                        route(s, meth, key, bad)
                        continue             # accepted: judged by the oracle, not a write-before-check
                    except Exception:
                        pass
                    if getattr(s, field) != good:
                        write_first.add("%s" % meth)
        for w in words:
            for prop, field, ok in ((G.PROP_NAME, "resource_name", re.fullmatch(c.NAME_REGEX, w) is not None),
                                    (G.PROP_BOOT_SCRIPT, "boot_script", len(w) < limit)):
                if not ok:
                    continue
                d = {G.PROP_NAME: "ab"}
                d[prop] = w
                s = c()
                try:
                    G.set_base_sliver_properties_from_graph_properties_dict(s, d)
                    got = getattr(s, field)
                except Exception:
                    got = None
                if got != w:
                    alters.add(w)
    return sorted(write_first), sorted(alters), len(words)


def generate():
    tree, src = parse(REL_CL)
    cls, ranges = label_tables(tree)
    sites = label_call_sites(find_func(cls, "_set_fields"))
    import fim.slivers.capacities_labels as cl
    import fim.slivers.tags as tg
    import fim.slivers.json_data as jd
    import fim.slivers.base_sliver as bs
    import importlib
    import pkgutil
    import fim.slivers as _sl
    for m in sorted(x.name for x in pkgutil.iter_modules(_sl.__path__)):   # every sliver class there is
        try:
            importlib.import_module("fim.slivers." + m)
        except ImportError:
            pass

    fields = list(cl.Labels().__dict__.keys())
    if any(v is not None for v in cl.Labels().__dict__.values()):
        raise ExtractionError("Labels default is not all-None")
    validators = cl.Labels.VALIDATORS
    if set(ranges) != set(cl.Labels.LAMBDA_VALIDATORS):
        raise ExtractionError("LAMBDA_VALIDATORS at run time differs from the literal")
    for k in list(validators) + list(ranges):
        if k not in fields:
            raise ExtractionError("validator for unknown field %s" % k)

    body = "open FimVerif.Regex\n\n"
    decades, words, spaces = unicode_tables()
    body += "/-- `\\d` of a str pattern = str.isdecimal, as decades [zero, zero+9]; the digit value is the offset. -/\n"
    body += "def digitDecades : List (Nat × Nat) := %s\n\n" % _pairs(decades)
    body += "/-- `\\w` of a str pattern as matched by the running interpreter's re. -/\n"
    body += "def wordRanges : List (Nat × Nat) := %s\n\n" % _pairs(words)
    body += "/-- characters int() strips at both ends. -/\n"
    body += "def spaceRanges : List (Nat × Nat) := %s\n\n" % _pairs(spaces)
    body += "def intMaxStrDigits : Nat := %d\n\n" % sys.get_int_max_str_digits()
    body += "def isDigit (c : Char) : Bool := inRanges digitDecades c.toNat\n"
    body += "def isWord (c : Char) : Bool := inRanges wordRanges c.toNat\n"
    body += "def isSpace (c : Char) : Bool := inRanges spaceRanges c.toNat\n\n"

    report = {"fields": fields, "regex": {}, "ranges": {}, "anchors": {}}
    anchors = {}
    for which, nm in (("i", "List"), ("v", "Scalar")):
        kind, pre, suf = sites[which]
        modes = set()
        for k, (rx, _ex) in validators.items():
            _t, beg, end = regex_to_re(pre + rx + suf)
            modes.add(anchor_of(kind, end, "Labels._set_fields(%s) %s" % (nm, k)))
        if len(modes) != 1:
            raise ExtractionError("label validators anchor differently: %s" % modes)
        anchors[nm] = modes.pop()
    filt = from_json_filters(tree)
    body += "/-- JSONField.from_json drops keys that are not fields before calling the setter -/\n"
    body += "def fromJsonFiltersUnknown : Bool := %s\n\n" % ("true" if filt else "false")
    report["from_json_filters_unknown"] = filt
    body += "def labelFields : List String := %s\n\n" % lean_list([lean_str(f) for f in fields])
    body += "def labelAnchorList : Anchor := %s\n" % anchors["List"]
    body += "def labelAnchorScalar : Anchor := %s\n\n" % anchors["Scalar"]
    names = []
    for k, (rx, _ex) in validators.items():
        # the body is what stands between the call site's prefix and suffix; parse the whole pattern of the scalar site
        kind, pre, suf = sites["v"]
        term, _, _ = regex_to_re(pre + rx + suf)
        kind2, pre2, suf2 = sites["i"]
        term2, _, _ = regex_to_re(pre2 + rx + suf2)
        if term != term2:
            raise ExtractionError("list and scalar call sites build different patterns for %s" % k)
        body += "/-- %s : %s -/\ndef re_%s : Re := %s\n\n" % (k, _doc(rx), k, term)
        names.append(k)
        report["regex"][k] = rx
    body += "def labelRegex : List (String × Re) := %s\n\n" % lean_list(["(%s, re_%s)" % (lean_str(k), k) for k in names])
    body += "def labelRange : List (String × List Cmp) := %s\n\n" % lean_list(
        ["(%s, %s)" % (lean_str(k), lean_list(ranges[k])) for k in ranges])
    report["ranges"] = {k: len(v) for k, v in ranges.items()}

    # tags
    ttree, tsrc = parse(REL_TAGS)
    tkind = tags_site(ttree)
    tterm, tb, te = regex_to_re(tg.Tags.TAG_PATTERN)
    if tg.Tags.compiled_pattern.pattern != tg.Tags.TAG_PATTERN or tg.Tags.compiled_pattern.flags & ~re.UNICODE:
        raise ExtractionError("Tags.compiled_pattern is not TAG_PATTERN without flags")
    body += "/-- Tags.TAG_PATTERN : %s -/\ndef tagRe : Re := %s\n" % (_doc(tg.Tags.TAG_PATTERN), tterm)
    body += "def tagAnchor : Anchor := %s\n\n" % anchor_of(tkind, te, "Tags._check")

    # names
    btree, bsrc = parse(REL_BASE)
    nkind, bop = name_site(btree)
    subs = sorted({c.__name__: c for c in _all_subclasses(bs.BaseSliver)}.items())
    nmodes = set()
    nlist = []
    for cname, c in subs:
        rx = getattr(c, "NAME_REGEX", None)
        if rx is None:
            continue
        term, b, e = regex_to_re(rx)
        nmodes.add(anchor_of(nkind, e, "set_name of %s" % cname))
        body += "/-- %s.NAME_REGEX : %s -/\ndef nameRe_%s : Re := %s\n\n" % (cname, _doc(rx), cname, term)
        nlist.append(cname)
        report["regex"]["name:" + cname] = rx
    if len(nmodes) != 1:
        raise ExtractionError("name regexes anchor differently: %s" % nmodes)
    body += "def nameRe : List (String × Re) := %s\n" % lean_list(["(%s, nameRe_%s)" % (lean_str(c), c) for c in nlist])
    body += "def nameAnchor : Anchor := %s\n\n" % nmodes.pop()
    body += "def bootScriptSize : Nat := %d\n" % bs.BaseSliver.BOOST_SCRIPT_SIZE
    body += "def bootOk (n : Nat) : Bool := decide (n %s bootScriptSize)\n\n" % bop

    # json data
    jtree, jsrc = parse(REL_JSON)
    jop = json_site(jtree)
    jl = []
    for cname, c in sorted({c.__name__: c for c in _all_subclasses(jd.JSONData)}.items()):
        jl.append((cname, int(c.MAX_SIZE)))
    body += "def jsonMax : List (String × Nat) := %s\n" % lean_list(["(%s, %d)" % (lean_str(c), m) for c, m in jl])
    body += "def jsonTooLong (n max : Nat) : Bool := decide (n %s max)\n" % jop

    wf, alters, nwords = kept_probe(nlist)
    body += "\n/-- setters of a validated scalar that leave a REFUSED value in the object they were called on (behavioural probe of every\n"
    body += "    sliver class: a valid value first, then a refused one through the setter, set_property and set_properties) -/\n"
    body += "def writeFirst : List String := %s\n" % lean_list([lean_str(x) for x in wf])
    body += "/-- member words (out of %d sentinel look-alikes: None, null, NaN, '', property and class names of the graph layer ...) that the\n" % nwords
    body += "    property-dictionary decoder does not hand back as the name / boot script it was given (behavioural probe) -/\n"
    body += "def decodeAlters : List String := %s\n" % lean_list([lean_str(x) for x in alters])
    report["kept_probe"] = {"write_first": wf, "decode_alters": alters, "words": nwords}
    raw, entries = graph_writers()       # the set of entry points is pinned by gen/entrypoints.py (probe registry of the harness)
    body += "\n/-- methods of fim.user that write a validated property straight into the graph (not through a sliver), and what\n"
    body += "    routes the value through the validator before the write (\"unguarded\" = nothing does) -/\n"
    body += "def rawWriters : List (String × String × String) := %s\n" % lean_list(
        ["(%s, %s, %s)" % (lean_str(a), lean_str(b), lean_str(c)) for a, b, c in raw])
    report["raw_writers"] = raw
    report["entry_points"] = sorted(entries)
    report["anchors"] = {"labels.list": anchors["List"], "labels.scalar": anchors["Scalar"],
                         "tags": anchor_of(tkind, te, "Tags"), "names": "see nameAnchor"}
    report["names"] = nlist
    report["json"] = dict(jl)
    report["boot"] = [bop, bs.BaseSliver.BOOST_SCRIPT_SIZE]
    changed = emit("Validators", body, header="import FimVerif.Model.Regex\n")
    report["changed"] = changed
    report["span"] = span_hash(src, cls)
    return report
