"""C08: which helper every removal call invokes, in which order (the *plan* of the call).

Read from the AST of /repo's fim/user/{topology,node,network_service,interface}.py and
fim/graph/abc_property_graph.py on every run and written to lean/FimVerif/Generated/RemovalPlan.lean.
The executable model (`Model/RemovePlan.lean`) interprets these plans; `Proofs/Lemmas/C08Plan.lean` proves that the
interpreted calls are the calls the theorems are about - for the plans as they are today.  A dropped or re-ordered helper
call, a changed `delete_parent`, a changed length test in `remove_cp_and_links`, an unguarded `prune` loop … changes the
generated table, hence the model the driver runs, and breaks those bridge proofs.

What is extracted, per function: the tracked helper calls in evaluation order (sorted by the end position of the call
expression, which orders nested and sequential calls correctly), each tagged with whether it sits inside a `for` loop;
for `_disconnect_interfaces(...)` the *shape* of its argument; for `remove_cp_and_links` the two length tests;
for `prune` the order of the deletion loops and whether each is guarded by `still_present`.
Untracked calls (look-ups, logging, constructors) are ignored, so harmless rewrites do not move the table; a tracked
call in an unrecognised position (inside `try`/`except`, a `while`, a comprehension) or an unrecognised argument shape is an
ExtractionError.
"""
import ast

from .common import *

TOPO = "fim/user/topology.py"
NODE = "fim/user/node.py"
NS = "fim/user/network_service.py"
IFACE = "fim/user/interface.py"
GRAPH = "fim/graph/abc_property_graph.py"

# tracked callee name -> step constructor
TRACKED = {
    "_disconnect_interfaces": "disc",
    "remove_network_node_with_components_nss_cps_and_links": "gnode",
    "remove_component_with_nss_cps_and_links": "gcomp",
    "remove_ns_with_cps_and_links": "gns",
    "remove_cp_and_links": "gcp",
    "remove_network_link": "glink",
    "delete_node": "del",
    "disconnect_interface": "dconn",
    "remove_node": "callRemoveNode",
    "remove_component": "callRemoveComponent",
    "_prune_node": "pruneNode",
    "_prune_components": "pruneComp",
    "_prune_ns": "pruneNs",
    "_prune_interface": "pruneIface",
    "get_first_neighbor": "query",
    "node_exists": "nodeExists",
    "get_peers": "getPeers",
    "get_parent_element": "getParent",
}

# (file, class, function) -> Lean name
FUNCS = [
    (TOPO, "Topology", "remove_node", "removeNode"),
    (TOPO, "Topology", "remove_facility", "removeFacility"),
    (TOPO, "Topology", "remove_switch", "removeSwitch"),
    (TOPO, "Topology", "remove_link", "removeLink"),
    (TOPO, "Topology", "remove_network_service", "removeNetworkService"),
    (TOPO, "Topology", "_disconnect_interfaces", "disconnectInterfaces"),
    (TOPO, "ExperimentTopology", "_prune_node", "pruneNodeFn"),
    (TOPO, "ExperimentTopology", "_prune_ns", "pruneNsFn"),
    (TOPO, "ExperimentTopology", "_prune_components", "pruneComponentsFn"),
    (TOPO, "ExperimentTopology", "_prune_interface", "pruneInterfaceFn"),
    (NODE, "Node", "remove_component", "nodeRemoveComponent"),
    (NODE, "Node", "remove_network_service", "nodeRemoveNetworkService"),
    (NODE, "Node", "remove_storage", "nodeRemoveStorage"),
    (NS, "NetworkService", "disconnect_interface", "disconnectInterface"),
    (NS, "NetworkService", "unpeer", "unpeer"),
    (NS, "NetworkService", "remove_interface", "removeInterface"),
    (IFACE, "Interface", "remove_child_interface", "removeChildInterface"),
    (GRAPH, "ABCPropertyGraph", "remove_network_node_with_components_nss_cps_and_links", "gRemoveNode"),
    (GRAPH, "ABCPropertyGraph", "remove_component_with_nss_cps_and_links", "gRemoveComp"),
    (GRAPH, "ABCPropertyGraph", "remove_ns_with_cps_and_links", "gRemoveNs"),
    (GRAPH, "ABCPropertyGraph", "remove_network_link", "gRemoveLink"),
    (GRAPH, "ABCPropertyGraph", "remove_cp_and_links", "gRemoveCp"),
]

QUERY = {("REL_HAS", "CLASS_Component"): "qComps", ("REL_HAS", "CLASS_NetworkService"): "qNss",
         ("REL_CONNECTS", "CLASS_ConnectionPoint"): "qCps", ("REL_CONNECTS", "CLASS_Link"): "qLinks"}


def callee_name(call):
    f = call.func
    if isinstance(f, ast.Attribute):
        return f.attr
    if isinstance(f, ast.Name):
        return f.id
    return None


def const_name(e):
    """ABCPropertyGraph.REL_HAS -> 'REL_HAS'"""
    if isinstance(e, ast.Attribute):
        return e.attr
    if isinstance(e, ast.Name):
        return e.id
    return None


def kw(call, name):
    for k in call.keywords:
        if k.arg == name:
            return k.value
    return None


def disc_arg_shape(call, fn, fnode=None):
    """Shape of the argument of _disconnect_interfaces(...)."""
    if len(call.args) != 1 or call.keywords:
        raise ExtractionError("%s: _disconnect_interfaces is no longer called with one positional argument" % fn)
    a = call.args[0]
    # [Interface(...)]
    if isinstance(a, ast.List) and len(a.elts) == 1 and isinstance(a.elts[0], ast.Call) and callee_name(a.elts[0]) == "Interface":
        return "ifsSingleton"
    # [<local holding the handle>]
    if isinstance(a, ast.List) and len(a.elts) == 1 and isinstance(a.elts[0], ast.Name) and a.elts[0].id not in ("self", "cls"):
        return "ifsSingleton"
    if isinstance(a, ast.Attribute) and a.attr == "interface_list":
        v = a.value
        # self.nodes[name] / self.facilities[name] / self.components[name]
        if isinstance(v, ast.Subscript) and isinstance(v.value, ast.Attribute) and isinstance(v.value.value, ast.Name) \
                and v.value.value.id == "self" and isinstance(v.slice, ast.Name) and v.slice.id == "name":
            d = {"nodes": "ifsNodesDict", "facilities": "ifsFacilitiesDict", "components": "ifsComponentsDict"}.get(v.value.attr)
            if d:
                return d
        # <local variable holding the looked-up service>.interface_list
        # (whatever the local is called)
        if isinstance(v, ast.Name) and v.id not in ("self", "cls"):
            # a temporary naming a handle constructed on the spot is that construction
            for n in (ast.walk(fnode) if fnode is not None else []):
                if isinstance(n, ast.Assign) and any(isinstance(t, ast.Name) and t.id == v.id for t in n.targets) \
                        and isinstance(n.value, ast.Call) and callee_name(n.value) in ("NetworkService", "_get_ns_by_id"):
                    return "ifsOfFreshHandle"
            return "ifsOfLookedUp"
        # self._get_component_by_id(<resolved id>).interface_list / Component(name=.., node_id=.., topo=..).interface_list: the interface
        # list of the component's handle, as self.components[name].interface_list is (the plan works on ids: which component a NAME
        # denotes is Model/RemoveNames.lean's, hand-mirrored and compared by the by-name requests of the correspondence)
        if isinstance(v, ast.Call) and callee_name(v) in ("_get_component_by_id", "Component"):
            return "ifsComponentsDict"
        # NetworkService(name=.., node_id=.., topo=..).interface_list / self._get_ns_by_id(..).interface_list : a fresh handle
        if isinstance(v, ast.Call) and callee_name(v) in ("NetworkService", "_get_ns_by_id", "_get_ns_by_name"):
            return "ifsOfFreshHandle"
    raise ExtractionError("%s: unrecognised argument of _disconnect_interfaces: %s" % (fn, ast.dump(a)[:160]))


def steps_of(fn, name):
    """[(step constructor text, in_loop)] in evaluation order."""
    # parent map for context
    parents = {}
    for n in ast.walk(fn):
        for c in ast.iter_child_nodes(n):
            parents[c] = n
    calls = [n for n in ast.walk(fn) if isinstance(n, ast.Call) and callee_name(n) in TRACKED]
    calls.sort(key=lambda c: (c.end_lineno, c.end_col_offset))
    out, shapes = [], []
    for c in calls:
        code = TRACKED[callee_name(c)]
        # a nested def (still_present in prune) is not part of the body's plan
        in_loop = False
        p = c
        skip = False
        while p in parents and parents[p] is not fn:
            p = parents[p]
            if isinstance(p, (ast.For,)):
                in_loop = True
            elif isinstance(p, (ast.FunctionDef, ast.Lambda)):
                skip = True
            elif isinstance(p, (ast.Try, ast.While, ast.ListComp, ast.GeneratorExp, ast.SetComp, ast.DictComp, ast.With)):
                raise ExtractionError("%s: %s is called inside a %s" % (name, callee_name(c), type(p).__name__))
        if skip:
            continue
        if code == "gcp":
            dp = kw(c, "delete_parent")
            if dp is None:
                txt = ".gcp none"
            elif isinstance(dp, ast.Constant) and isinstance(dp.value, bool):
                txt = ".gcp (some %s)" % ("true" if dp.value else "false")
            else:
                raise ExtractionError("%s: delete_parent of remove_cp_and_links is not a literal" % name)
        elif code == "query":
            r, l = const_name(kw(c, "rel")), const_name(kw(c, "node_label"))
            q = QUERY.get((r, l))
            if q is None:
                raise ExtractionError("%s: get_first_neighbor(rel=%s, node_label=%s) is not a known query" % (name, r, l))
            txt = "." + q
        elif code == "disc":
            shapes.append(disc_arg_shape(c, name, fn))
            txt = ".disc"
        elif code in ("callRemoveNode", "callRemoveComponent"):
            # only calls on self / the parent handle count (not graph_model.remove_node of networkx)
            f = c.func
            if not (isinstance(f, ast.Attribute) and isinstance(f.value, ast.Name) and f.value.id in ("self", "parent")):
                continue
            txt = "." + code
        else:
            txt = "." + code
        out.append((txt, in_loop))
    return out, shapes


def len_tests(fn):
    """The `len(x) == k` tests of remove_cp_and_links: {variable: (op, k)}."""
    out = {}
    for n in ast.walk(fn):
        if isinstance(n, ast.Compare) and len(n.ops) == 1 and isinstance(n.left, ast.Call) and callee_name(n.left) == "len" \
                and n.left.args and isinstance(n.left.args[0], ast.Name) and isinstance(n.comparators[0], ast.Constant):
            out[n.left.args[0].id] = (type(n.ops[0]).__name__, n.comparators[0].value)
    return out


def prune_loops(fn):
    """The deletion loops of prune: [(callee, guarded by still_present)] in source order."""
    out = []
    for st in fn.body:
        if not isinstance(st, ast.For):
            continue
        calls = [c for c in ast.walk(st) if isinstance(c, ast.Call) and callee_name(c) in ("_prune_node", "_prune_components", "_prune_ns", "_prune_interface")]
        if not calls:
            continue            # a collection loop
        if len(calls) != 1:
            raise ExtractionError("prune: a deletion loop with %d prune calls" % len(calls))
        body = st.body
        guarded = False
        if len(body) == 1 and isinstance(body[0], ast.If) and isinstance(body[0].test, ast.Call) \
                and callee_name(body[0].test) == "still_present" and not body[0].orelse:
            guarded = True
        elif not (len(body) == 1 and isinstance(body[0], ast.Expr) and body[0].value is calls[0]):
            raise ExtractionError("prune: unrecognised body of the %s loop" % callee_name(calls[0]))
        out.append((TRACKED[callee_name(calls[0])], guarded))
    return out


def peer_count(di):
    """How many ServicePort peers `_disconnect_interfaces` insists on: `if len(P) == k: disconnect else: raise`, or the guard
    clauses `if not P: continue` / `if len(P) > k: raise` / disconnect, or `if len(P) != k: raise`; P any local holding the
    result of get_peers(...)."""
    names = {t.id for n in ast.walk(di) if isinstance(n, ast.Assign) and isinstance(n.value, ast.Call) and callee_name(n.value) == "get_peers"
             for t in n.targets if isinstance(t, ast.Name)}
    for n in ast.walk(di):
        if not (isinstance(n, ast.If) and isinstance(n.test, ast.Compare) and len(n.test.ops) == 1):
            continue
        c = n.test
        if not (isinstance(c.left, ast.Call) and callee_name(c.left) == "len" and c.left.args and isinstance(c.left.args[0], ast.Name)
                and c.left.args[0].id in names and isinstance(c.comparators[0], ast.Constant) and isinstance(c.comparators[0].value, int)):
            continue
        op, k = type(c.ops[0]).__name__, c.comparators[0].value
        raises = any(isinstance(b, ast.Raise) for b in n.body)
        if op == "Eq" and not raises:
            return k
        if op in ("Gt", "NotEq") and raises:
            return k
    raise ExtractionError("_disconnect_interfaces: no `len(peers) == k` test (nor an equivalent guard clause)")


def extract():
    trees = {}
    plans, shapes, spans = {}, {}, {}
    for rel, cls, fname, lean in FUNCS:
        if rel not in trees:
            trees[rel] = parse(rel)
        tree, src = trees[rel]
        fn = find_func(find_class(tree, cls), fname)
        plans[lean], shapes[lean] = steps_of(fn, fname)
        spans[lean] = span_hash(src, fn)
    tree, src = trees[GRAPH]
    cp = find_func(find_class(tree, "ABCPropertyGraph"), "remove_cp_and_links")
    tests = len_tests(cp)
    for var in ("children", "connected_interfaces"):
        if var not in tests:
            raise ExtractionError("remove_cp_and_links: no `len(%s) <op> <constant>` test" % var)
        if tests[var][0] != "Eq" or not isinstance(tests[var][1], int):
            raise ExtractionError("remove_cp_and_links: the test on len(%s) is %s %r, not an equality with an integer" % ((var,) + tests[var]))
    # default of delete_parent
    dflt = None
    args = cp.args
    names = [a.arg for a in args.args]
    if "delete_parent" in names:
        k = names.index("delete_parent") - (len(names) - len(args.defaults))
        if k >= 0 and isinstance(args.defaults[k], ast.Constant) and isinstance(args.defaults[k].value, bool):
            dflt = args.defaults[k].value
    if dflt is None:
        raise ExtractionError("remove_cp_and_links: delete_parent has no literal boolean default")
    # `len(children) == 1 and delete_parent`: the flag must take part in the test
    uses_flag = any(isinstance(n, ast.BoolOp) and isinstance(n.op, ast.And) and any(isinstance(v, ast.Name) and v.id == "delete_parent" for v in n.values)
                    and any(isinstance(v, ast.Compare) for v in n.values) for n in ast.walk(cp))
    if not uses_flag:
        raise ExtractionError("remove_cp_and_links: `len(children) == k and delete_parent` not found")
    ttree, _ = trees[TOPO]
    prune = find_func(find_class(ttree, "ExperimentTopology"), "prune")
    loops = prune_loops(prune)
    # _disconnect_interfaces: len(peers) == 1
    di = find_func(find_class(ttree, "Topology"), "_disconnect_interfaces")
    pc = peer_count(di)
    return {"plans": plans, "shapes": shapes, "spans": spans, "onlyChild": tests["children"][1],
            "linkEnds": tests["connected_interfaces"][1], "dpDefault": dflt, "pruneLoops": loops, "peerCount": pc}


HEADER_TYPES = '''/-- a tracked helper call; `gcp none` = `remove_cp_and_links` with the default `delete_parent` -/
inductive Step
  | disc | gnode | gcomp | gns | gcp (dp : Option Bool) | glink | del | dconn
  | callRemoveNode | callRemoveComponent | pruneNode | pruneComp | pruneNs | pruneIface
  | qComps | qNss | qCps | qLinks | nodeExists | getPeers | getParent
  deriving DecidableEq, Repr

/-- shape of the argument of `_disconnect_interfaces(...)` -/
inductive IfsArg
  | ifsNodesDict | ifsFacilitiesDict | ifsComponentsDict | ifsOfLookedUp | ifsOfFreshHandle | ifsSingleton
  deriving DecidableEq, Repr

/-- a step and whether it sits inside a `for` loop -/
structure S where
  step : Step
  loop : Bool
  deriving DecidableEq, Repr

'''


def generate():
    c = extract()
    body = HEADER_TYPES
    for _, _, fname, lean in FUNCS:
        steps = c["plans"][lean]
        body += "/-- `%s` -/\ndef %s : List S := [%s]\n" % (fname, lean, ", ".join("⟨%s, %s⟩" % (t, "true" if l else "false") for t, l in steps))
        if c["shapes"][lean]:
            body += "def %sIfs : List IfsArg := [%s]\n" % (lean, ", ".join("." + s for s in c["shapes"][lean]))
    body += "\n/-- `remove_cp_and_links`: `len(children) == %d and delete_parent`, `len(connected_interfaces) == %d`, default of `delete_parent` -/\n" % (
        c["onlyChild"], c["linkEnds"])
    body += "def cpOnlyChild : Nat := %d\ndef cpLinkEnds : Nat := %d\ndef cpDeleteParentDefault : Bool := %s\n" % (
        c["onlyChild"], c["linkEnds"], "true" if c["dpDefault"] else "false")
    body += "/-- `_disconnect_interfaces`: `len(peers) == %d` -/\ndef discPeerCount : Nat := %d\n" % (c["peerCount"], c["peerCount"])
    body += "/-- the deletion loops of `ExperimentTopology.prune`, in order, with `still_present` guard or not -/\n"
    body += "def pruneLoops : List (Step × Bool) := [%s]\n" % ", ".join("(.%s, %s)" % (s, "true" if g else "false") for s, g in c["pruneLoops"])
    changed = emit("RemovalPlan", body)
    return {"plans": {k: [t + ("@loop" if l else "") for t, l in v] for k, v in c["plans"].items()},
            "shapes": {k: v for k, v in c["shapes"].items() if v}, "cp": [c["onlyChild"], c["linkEnds"], c["dpDefault"]],
            "pruneLoops": c["pruneLoops"], "peerCount": c["peerCount"], "spans": c["spans"], "changed": changed}


# --------------------------------------------------------------------------
# behavioural probe: the removal entry points on every model of the component catalog


def probe_catalog():
    """[(entry point, model, ports, interfaces connected, clean)]: a node with one component of the model, every port of it
    (and a sub-interface of a dedicated port) connected to a service that also holds a port of another node; after the call
    the service holds that other port alone and one link is left.  Nothing here names a component type: what a model brings
    with it is read off the component the library builds."""
    import fim.user as fu
    from fim.user.topology import ExperimentTopology
    from fim.slivers.capacities_labels import Labels
    rows = []
    for m in fu.ComponentModelType:
        for entry in ("remove_component", "remove_storage", "remove_node"):
            t = ExperimentTopology()
            nports = nconn = 0
            try:
                n1 = t.add_node(name="n1", site="RENC")
                n2 = t.add_node(name="n2", site="RENC")
                c = n1.add_component(name="x1", model_type=m)
                far = n2.add_component(name="nic1", model_type=fu.ComponentModelType.SmartNIC_ConnectX_6).interface_list[0]
                conn = list(c.interface_list)
                nports = len(conn)
                if conn and str(conn[0].type) == "DedicatedPort":
                    conn.append(conn[0].add_child_interface(name="ch0", labels=Labels(vlan="100")))
                nconn = len(conn)
                t.add_network_service(name="s0", nstype=fu.ServiceType.L2Bridge, interfaces=conn + [far])
                if entry == "remove_node":
                    t.remove_node(name="n1")
                else:
                    getattr(t.nodes["n1"], entry)(name="x1")
                left = sorted(i.name for i in t.network_services["s0"].interface_list)
                # (the order of interface_list is not fixed: the far port is whichever came first)
                clean = left == ["n2-" + far.name] and sorted(t.links.keys()) == ["n2-" + far.name + "-link"]
            except Exception:
                clean = False
            finally:
                try:
                    t.graph_model.delete_graph()
                except Exception:
                    pass
            rows.append((entry, m.name, nports, nconn, clean))
    return rows


def probe_service_types():
    """[(entry point, service type, site came from, kept)]: a service of every ServiceType with a Site - given at creation
    or written by Topology.validate() - whose only interface goes away (disconnected through the handle, or with its
    component / node): the property dictionary of the surviving service is what it was."""
    import fim.user as fu
    from fim.user.topology import ExperimentTopology
    rows = []
    for st in fu.ServiceType:
        for src in ("given", "validate"):
            for entry in ("disconnect_interface", "remove_component", "remove_node"):
                t = ExperimentTopology()
                try:
                    n1 = t.add_node(name="n1", site="RENC")
                    i1 = n1.add_component(name="nic1", model_type=fu.ComponentModelType.SmartNIC_ConnectX_6).interface_list[0]
                    kw = {"site": "RENC"} if src == "given" else {}
                    s = t.add_network_service(name="s0", nstype=st, interfaces=[i1], **kw)
                    if src == "validate":
                        try:
                            t.validate()
                        except Exception:
                            pass
                    before = dict(t.graph_model.get_node_properties(node_id=s.node_id)[1])
                    if entry == "disconnect_interface":
                        s.disconnect_interface(i1)
                    elif entry == "remove_component":
                        n1.remove_component(name="nic1")
                    else:
                        t.remove_node(name="n1")
                    kept = dict(t.graph_model.get_node_properties(node_id=s.node_id)[1]) == before
                except Exception:
                    kept = False
                finally:
                    try:
                        t.graph_model.delete_graph()
                    except Exception:
                        pass
                rows.append((entry, st.name, src, kept))
    return rows


def probe_own_services():
    """[(entry point, host, services, clean)]: a node / a switch that owns `services` network services directly, each with
    an interface of the SAME name p1 (interface names are unique per service only), every one of them connected to a service
    of its own that also holds a port of another node; after the call every one of those services holds that other port alone
    and there is one link per service left.  Before the call the node lists every one of its interfaces."""
    import fim.user as fu
    from fim.user.topology import ExperimentTopology
    rows = []
    for host, entry in (("node", "remove_node"), ("node", "prune"), ("switch", "remove_node"), ("switch", "remove_switch"), ("switch", "prune")):
        for k in (1, 2, 3):
            t = ExperimentTopology()
            try:
                if host == "node":
                    h = t.add_node(name="h1", site="RENC")
                else:
                    h = t.add_switch(name="h1", site="RENC", nports=1)
                own = len(h.interface_list)
                n2 = t.add_node(name="n2", site="RENC")
                fars = []
                for j in range(k):
                    ns = h.add_network_service(name="ns%d" % j, nstype=fu.ServiceType.MPLS)
                    i = ns.add_interface(name="p1", itype=fu.InterfaceType.TrunkPort)
                    far = n2.add_component(name="nic%d" % j, model_type=fu.ComponentModelType.SmartNIC_ConnectX_6).interface_list[0]
                    fars.append(far.name)
                    t.add_network_service(name="s%d" % j, nstype=fu.ServiceType.L2Bridge, interfaces=[i, far])
                listed = len({i.node_id for i in t.nodes["h1"].interface_list}) == own + k
                if entry == "prune":
                    from fim.slivers.capacities_labels import ReservationInfo
                    t.nodes["h1"].reservation_info = ReservationInfo(reservation_state="Failed")
                    t.prune(reservation_state="Failed")
                else:
                    getattr(t, entry)(name="h1")
                clean = listed and all([i.name for i in t.network_services["s%d" % j].interface_list] == ["n2-" + fars[j]] for j in range(k)) \
                    and sorted(t.links.keys()) == sorted("n2-" + f + "-link" for f in fars)
            except Exception:
                clean = False
            finally:
                try:
                    t.graph_model.delete_graph()
                except Exception:
                    pass
            rows.append((entry, host, k, clean))
    return rows


def generate_probe():
    rows = probe_catalog()
    if not any(r[2] > 0 for r in rows):
        raise ExtractionError("no model of the component catalog has ports")
    srows = probe_service_types()
    body = ("/-- behavioural probe of `Node.remove_component` / `Node.remove_storage` / `Topology.remove_node` on every model of the\n"
            "component catalog: (entry point, model, ports of the component, interfaces connected to a service - the ports and a\n"
            "sub-interface of a dedicated port -, after the call the service holds the port of the other node alone and one link is left) -/\n")
    body += "def catalogRemoval : List (String × String × Nat × Nat × Bool) := [\n%s]\n" % ",\n".join(
        '  ("%s", "%s", %d, %d, %s)' % (e, m, p, c, "true" if ok else "false") for e, m, p, c, ok in rows)
    body += ("\n/-- behavioural probe on a service of every ServiceType that carries a Site (given at creation / written by\n"
             "`Topology.validate()`) and loses its only interface: (entry point, service type, where the Site came from, the property\n"
             "dictionary of the surviving service is unchanged) -/\n")
    body += "def serviceKept : List (String × String × String × Bool) := [\n%s]\n" % ",\n".join(
        '  ("%s", "%s", "%s", %s)' % (e, t, src, "true" if ok else "false") for e, t, src, ok in srows)
    orows = probe_own_services()
    body += ("\n/-- behavioural probe on a node / a switch that owns several services directly, each with a connected interface of the\n"
             "same name `p1`: (entry point, host, number of such services, the node listed all of them and after the call every\n"
             "connecting service holds the far port alone, one link each) -/\n")
    body += "def ownServicesRemoval : List (String × String × Nat × Bool) := [\n%s]\n" % ",\n".join(
        '  ("%s", "%s", %d, %s)' % (e, h, k, "true" if ok else "false") for e, h, k, ok in orows)
    changed = emit("RemovalProbe", body)
    return {"own_service_rows": len(orows), "own_services_dirty": [list(r[:3]) for r in orows if not r[3]], "rows": len(rows), "service_rows": len(srows), "service_changed": [list(r[:3]) for r in srows if not r[3]], "with_ports": sorted({r[1] for r in rows if r[2] > 0}), "dirty": [list(r[:2]) for r in rows if not r[4]], "changed": changed}


if __name__ == "__main__":
    import json
    print(json.dumps(generate(), indent=1))
