"""C01 translator: the regular-shaped parts of the serializer / importers / Topology.load.

Extracted on every run from /repo's *current* source into lean/FimVerif/Generated/Serial.lean:

* identity property names GraphID / NodeID / Class and JSON_PROPERTY_NAMES (import of the constants module);
* the label markup GraphML.networkx_to_neo4j adds (behavioural probe: which attribute appears on a node / an
  edge element and which prefix precedes the Class text);
* the reserved keys of the node-link JSON objects (behavioural probe through serialize_graph on a fresh store:
  keys of the emitted node / edge objects that are not attributes of the stored node / edge);
* READ_FORMATS (the order in which _read_from_file sniffs formats);
* first_label of convert_node_labels_to_integers in add_graph / add_graph_direct of both stores (AST) and
  the initial start_id, cross-checked by a behavioural probe (internal ids of two imports in a row);
* the *load plan* of Topology.load and AdvertizedTopology.load (AST, symbolically executed per argument shape):
  which importer entry point each argument shape reaches and the program order of the store- /
  topology-affecting statements (import, rebind of self.graph_model, remembering the held model, delete_graph
  calls and their `ids differ` guard). Statements that touch neither self, the imported graph nor a remembered
  model (logging, plain locals) are ignored; any other unrecognised statement is an ExtractionError.
"""
import ast
import importlib
import json

from .common import *

TOPO = "fim/user/topology.py"
NXPG = "fim/graph/networkx_property_graph.py"
NXPGD = "fim/graph/networkx_property_graph_disjoint.py"

ENTRY = {"import_graph_from_file": "file", "import_graph_from_file_direct": "fileDirect",
         "import_graph_from_string": "string", "import_graph_from_string_direct": "stringDirect"}
ENTRY_KW = {"file": {"graph_file": "file_name", "graph_id": "new_graph_id"}, "fileDirect": {"graph_file": "file_name"},
            "string": {"graph_string": "graph_string", "graph_id": "new_graph_id"}, "stringDirect": {"graph_string": "graph_string"}}
SCENARIOS = [("onFile", {"file_name": "F", "graph_string": None, "new_graph_id": None}),
             ("onString", {"file_name": None, "graph_string": "S", "new_graph_id": None}),
             ("onStringNewId", {"file_name": None, "graph_string": "S", "new_graph_id": "N"})]


# --------------------------------------------------------------------------
# load plans

def _is_self_attr(node, attr):
    return isinstance(node, ast.Attribute) and node.attr == attr and isinstance(node.value, ast.Name) and node.value.id == "self"


def _root_name(node):
    while isinstance(node, (ast.Attribute, ast.Call, ast.Subscript)):
        node = node.func if isinstance(node, ast.Call) else node.value
    return node.id if isinstance(node, ast.Name) else None


class _Plan:
    def __init__(self, fn, where):
        self.fn = fn
        self.where = where
        a = fn.args
        self.params = [x.arg for x in a.args + a.kwonlyargs if x.arg != "self"]

    def fail(self, node, why):
        raise ExtractionError("%s line %d: %s" % (self.where, getattr(node, "lineno", 0), why))

    def relevant(self, st, tracked):
        """does the statement touch self / a tracked local through a call or an attribute store?"""
        for n in ast.walk(st):
            if isinstance(n, ast.Call) and _root_name(n.func) in tracked | {"self"}:
                return True
            if isinstance(n, (ast.Assign, ast.AugAssign, ast.AnnAssign, ast.Delete)):
                tg = n.targets if isinstance(n, (ast.Assign, ast.Delete)) else [n.target]
                for t in tg:
                    if isinstance(t, (ast.Attribute, ast.Subscript)) and _root_name(t) in tracked | {"self"}:
                        return True
        return False

    def param_test(self, test, env):
        """value of an `if` test that only mentions parameters, else None"""
        names = {n.id for n in ast.walk(test) if isinstance(n, ast.Name)}
        if not names <= set(self.params) or any(isinstance(n, (ast.Call, ast.Attribute, ast.Subscript)) for n in ast.walk(test)):
            return None
        try:
            return bool(eval(compile(ast.Expression(test), "<load-test>", "eval"), {"__builtins__": {}}, dict(env)))
        except Exception as e:
            self.fail(test, "cannot evaluate the test on the argument shape: %s" % e)

    def run(self, stmts, env, st):
        """symbolic execution of one argument shape; st = {"steps", "entry", "imported", "remembered", "stop"}"""
        for s in strip_doc(stmts):
            if st["stop"]:
                return
            if isinstance(s, ast.Assign) and isinstance(s.value, ast.IfExp):
                # `x = a if t else b`  ==  `if t: x = a` / `else: x = b`
                mk = lambda v: ast.copy_location(ast.Assign(targets=s.targets, value=v, lineno=s.lineno), s)
                s = ast.copy_location(ast.If(test=s.value.test, body=[mk(s.value.body)], orelse=[mk(s.value.orelse)]), s)
            if isinstance(s, ast.If):
                v = self.param_test(s.test, env)
                if v is not None:
                    self.run(s.body if v else s.orelse, env, st)
                    continue
                g = self.guarded_delete(s, st)
                if g is not None:
                    st["steps"].append(g)
                    continue
                # a test on something else (isinstance of the importer ...): both arms must do the same
                a, b = self.fork(st), self.fork(st)
                self.run(s.body, env, a)
                self.run(s.orelse, env, b)
                if a["steps"] != b["steps"] or a["stop"] != b["stop"] or a["entry"] != b["entry"]:
                    if not (self.relevant(s, self.tracked(st))):
                        continue
                    self.fail(s, "the two arms of an `if` on a non-argument condition differ in their store effects")
                st.update(a)
                continue
            if isinstance(s, ast.Raise):
                st["stop"] = "raise"
                return
            if isinstance(s, ast.Return):
                st["stop"] = "return"
                return
            step = self.classify(s, st)
            if step is not None:
                st["steps"].append(step)

    def fork(self, st):
        return {"steps": list(st["steps"]), "entry": st["entry"], "imported": st["imported"],
                "remembered": set(st["remembered"]), "stop": st["stop"]}

    def tracked(self, st):
        return set(st["remembered"]) | ({st["imported"]} if st["imported"] else set())

    def which(self, node, st):
        if isinstance(node, ast.Name) and node.id in st["remembered"]:
            return "remembered"
        if isinstance(node, ast.Name) and node.id == st["imported"]:
            return "imported"
        if _is_self_attr(node, "graph_model"):
            return "held"
        return None

    def delete_call(self, s, st):
        """`<w>.delete_graph()` -> w"""
        if isinstance(s, ast.Expr) and isinstance(s.value, ast.Call) and isinstance(s.value.func, ast.Attribute) \
                and s.value.func.attr == "delete_graph" and not s.value.args and not s.value.keywords:
            return self.which(s.value.func.value, st)
        return None

    def guarded_delete(self, s, st):
        """`if <w>.graph_id != <imported>.graph_id: <w>.delete_graph()`"""
        if s.orelse or len(s.body) != 1:
            return None
        w = self.delete_call(s.body[0], st)
        t = s.test
        if w is None or not (isinstance(t, ast.Compare) and len(t.ops) == 1 and isinstance(t.ops[0], ast.NotEq)):
            return None
        sides = []
        for x in (t.left, t.comparators[0]):
            if isinstance(x, ast.Attribute) and x.attr == "graph_id":
                sides.append(self.which(x.value, st))
            else:
                return None
        if sorted(map(str, sides)) != sorted([w, "imported"]) or w == "imported":
            return None
        return ("delete", w, True)

    def classify(self, s, st):
        # x = <...>.import_graph_from_*(...)
        if isinstance(s, ast.Assign) and isinstance(s.value, ast.Call) and isinstance(s.value.func, ast.Attribute) \
                and s.value.func.attr in ENTRY:
            if len(s.targets) != 1 or not isinstance(s.targets[0], ast.Name):
                self.fail(s, "import result is not bound to a plain local")
            if st["imported"] is not None:
                self.fail(s, "a second import call on one path")
            entry = ENTRY[s.value.func.attr]
            kws = {k.arg: k.value for k in s.value.keywords}
            if s.value.args or set(kws) != set(ENTRY_KW[entry]):
                self.fail(s, "unexpected arguments of %s" % s.value.func.attr)
            for k, p in ENTRY_KW[entry].items():
                if not (isinstance(kws[k], ast.Name) and kws[k].id == p):
                    self.fail(s, "%s=%s is not the parameter %s" % (k, ast.unparse(kws[k]), p))
            st["imported"], st["entry"] = s.targets[0].id, entry
            return ("importDoc",)
        # self.graph_model = <Model>(graph_id=x.graph_id, ...) | <Factory>.create(x)
        if isinstance(s, ast.Assign) and len(s.targets) == 1 and _is_self_attr(s.targets[0], "graph_model"):
            v = s.value
            ok = False
            if isinstance(v, ast.Call) and st["imported"]:
                for k in v.keywords:
                    if k.arg == "graph_id" and isinstance(k.value, ast.Attribute) and k.value.attr == "graph_id" \
                            and isinstance(k.value.value, ast.Name) and k.value.value.id == st["imported"]:
                        ok = True
                if len(v.args) == 1 and isinstance(v.args[0], ast.Name) and v.args[0].id == st["imported"] \
                        and isinstance(v.func, ast.Attribute) and v.func.attr == "create":
                    ok = True
            if not ok:
                self.fail(s, "self.graph_model is rebound to something that is not the imported graph's id")
            return ("rebind",)
        # prev = self.graph_model
        if isinstance(s, ast.Assign) and len(s.targets) == 1 and isinstance(s.targets[0], ast.Name) \
                and _is_self_attr(s.value, "graph_model"):
            st["remembered"].add(s.targets[0].id)
            return ("remember",)
        w = self.delete_call(s, st)
        if w is not None:
            return ("delete", w, False)
        if self.relevant(s, self.tracked(st)):
            self.fail(s, "unrecognised store-affecting statement: %s" % ast.unparse(s)[:120])
        return None

    def extract(self):
        out = {}
        steps = None
        for name, env in SCENARIOS:
            if not set(k for k, v in env.items() if v is not None) <= set(self.params):
                out[name] = None
                continue
            st = {"steps": [], "entry": None, "imported": None, "remembered": set(), "stop": None}
            self.run(self.fn.body, {k: v for k, v in env.items() if k in self.params}, st)
            if st["stop"] == "raise" and st["imported"] is None:
                out[name] = None
                continue
            if st["entry"] is None:
                self.fail(self.fn, "argument shape %s reaches no import call" % name)
            if st["remembered"] and len(st["remembered"]) > 1:
                self.fail(self.fn, "more than one remembered model")
            out[name] = st["entry"]
            if steps is not None and steps != st["steps"]:
                self.fail(self.fn, "argument shapes differ in their steps: %s vs %s" % (steps, st["steps"]))
            steps = st["steps"]
        if steps is None:
            self.fail(self.fn, "no argument shape is accepted")
        out["steps"] = steps
        return out


def extract_load(tree, cls):
    fn = find_func(find_class(tree, cls), "load")
    return _Plan(fn, "%s.load" % cls).extract()


def extract_ctor_loads(tree, cls):
    """does __init__ hand graph_file / graph_string to self.load(file_name=graph_file, graph_string=graph_string)?"""
    fn = find_func(find_class(tree, cls), "__init__")
    for n in ast.walk(fn):
        if isinstance(n, ast.Call) and isinstance(n.func, ast.Attribute) and n.func.attr == "load" \
                and isinstance(n.func.value, ast.Name) and n.func.value.id == "self":
            kws = {k.arg: (k.value.id if isinstance(k.value, ast.Name) else None) for k in n.keywords}
            if kws == {"file_name": "graph_file", "graph_string": "graph_string"} and not n.args:
                return True
            raise ExtractionError("%s.__init__ calls self.load with unexpected arguments" % cls)
    return False


# --------------------------------------------------------------------------
# first labels

def _relabel_calls(fn, cls, depth=0, seen=None):
    """convert_node_labels_to_integers calls in `fn` or in the methods of the same class it calls (helpers extracted by a
    refactoring are followed up to three levels)"""
    seen = seen if seen is not None else set()
    out = []
    for n in ast.walk(fn):
        if isinstance(n, ast.Call) and isinstance(n.func, ast.Attribute):
            if n.func.attr == "convert_node_labels_to_integers":
                out.append(n)
            elif depth < 3 and isinstance(n.func.value, ast.Name) and n.func.value.id in ("self", "cls", cls.name) \
                    and n.func.attr not in seen:
                for m in cls.body:
                    if isinstance(m, ast.FunctionDef) and m.name == n.func.attr:
                        seen.add(m.name)
                        out.extend(_relabel_calls(m, cls, depth + 1, seen))
    return out


def _first_label(fn, where, cls=None):
    """first_label read from the source, or None when the source has no shape we can read it from
    (the behavioural probe then decides alone)"""
    calls = _relabel_calls(fn, cls) if cls is not None else [
        n for n in ast.walk(fn) if isinstance(n, ast.Call) and isinstance(n.func, ast.Attribute)
        and n.func.attr == "convert_node_labels_to_integers"]
    vals = set()
    for c in calls:
        e = None
        for k in c.keywords:
            if k.arg == "first_label":
                e = k.value
        if e is None and len(c.args) >= 2:
            e = c.args[1]
        if e is None:
            vals.add(("const", 0))
        elif _is_self_attr(e, "start_id"):
            vals.add(("startId",))
        elif isinstance(e, ast.Constant) and isinstance(e.value, int) and not isinstance(e.value, bool) and e.value >= 0:
            vals.add(("const", e.value))
        else:
            return None
    return vals.pop() if len(vals) == 1 else None


def _inner_store(tree, outer):
    oc = find_class(tree, outer)
    inner = [n for n in oc.body if isinstance(n, ast.ClassDef)]
    if len(inner) != 1:
        raise ExtractionError("%s: expected one inner storage class" % outer)
    return inner[0]


def extract_first_labels():
    """AST reading of first_label per store (None where the source shape is not readable) and the initial start_id"""
    out = {}
    t1, _ = parse(NXPG)
    t2, _ = parse(NXPGD)
    s1 = _inner_store(t1, "NetworkXGraphStorage")
    s2 = _inner_store(t2, "NetworkXGraphStorageDisjoint")
    for key, cls in (("shared", s1), ("disjoint", s2)):
        a = _first_label(find_func(cls, "add_graph"), key + ".add_graph", cls)
        b = _first_label(find_func(cls, "add_graph_direct"), key + ".add_graph_direct", cls)
        if a is not None and b is not None and a != b:
            raise ExtractionError("%s store: add_graph and add_graph_direct number nodes differently (%s vs %s)" % (key, a, b))
        out[key] = a if a is not None else b
    v = None
    for n in ast.walk(s1):
        if isinstance(n, ast.Assign) and len(n.targets) == 1 and _is_self_attr(n.targets[0], "start_id") \
                and isinstance(n.value, ast.Constant) and isinstance(n.value.value, int) and not isinstance(n.value.value, bool):
            v = n.value.value if v is None else v
    out["initial"] = v
    return out


def first_labels_from_probe(ids):
    """classify the observed numbering of two imports in a row (2-node graphs): the same ids twice = a constant first
    label, consecutive blocks = the store-wide counter"""
    a, b = ids[1], ids[2]
    if len(a) != 2 or len(b) != 2 or a[1] != a[0] + 1 or b[1] != b[0] + 1:
        return None
    if a == b:
        return ("const", a[0])
    if b[0] == a[0] + 2:
        return ("startId",)
    return None


# --------------------------------------------------------------------------
# behavioural probes

def probe_markup(cls_name):
    import networkx as nx
    from lxml import etree
    import fim.graph.graph_util as gu
    importlib.reload(gu)
    g = nx.Graph()
    g.add_node("p", **{cls_name: "Zq1"})
    g.add_node("q", **{cls_name: "Zq1"})
    g.add_edge("p", "q", **{cls_name: "Yq2"})
    before = "\n".join(nx.generate_graphml(g))
    try:
        after = gu.GraphML.networkx_to_neo4j(before)
    except Exception as e:
        raise ExtractionError("networkx_to_neo4j fails on a two-node probe: %s: %s" % (type(e).__name__, e))
    ns = "{http://graphml.graphdrawing.org/xmlns}"

    def attrs(text, tag):
        root = etree.fromstring(text.encode("utf-8"))
        return [dict(e.attrib) for e in root.iter(ns + tag)]
    res = {}
    for tag, cls_text in (("node", "Zq1"), ("edge", "Yq2")):
        b, a = attrs(before, tag), attrs(after, tag)
        if len(a) != len(b) or not a:
            raise ExtractionError("networkx_to_neo4j changed the number of %s elements" % tag)
        added = [{k: v for k, v in x.items() if k not in y} for x, y in zip(a, b)]
        if any(len(d) != 1 for d in added) or len({canon_pair(d) for d in added}) != 1:
            raise ExtractionError("networkx_to_neo4j adds %s to a %s element, expected exactly one attribute" % (added, tag))
        (name, value), = added[0].items()
        if not value.endswith(cls_text):
            raise ExtractionError("%s markup %r does not end with the Class text" % (tag, value))
        res[tag] = (name, value[:len(value) - len(cls_text)])
    return res


def canon_pair(d):
    return tuple(sorted(d.items()))


def probe_store():
    """reserved node-link keys and node numbering, observed on a fresh shared and a fresh disjoint store"""
    import fim.graph.networkx_property_graph as m
    import fim.graph.networkx_property_graph_disjoint as md
    from fim.graph.abc_property_graph import GraphFormat
    out = {}
    old = m.NetworkXGraphStorage.storage_instance
    oldd = md.NetworkXGraphStorageDisjoint.storage_instance
    try:
        for key, mod, stor, impc, gc in (("shared", m, "NetworkXGraphStorage", "NetworkXGraphImporter", "NetworkXPropertyGraph"),
                                         ("disjoint", md, "NetworkXGraphStorageDisjoint", "NetworkXGraphImporterDisjoint",
                                          "NetworkXPropertyGraphDisjoint")):
            getattr(mod, stor).storage_instance = None
            imp = getattr(mod, impc)()
            g = getattr(mod, gc)(graph_id="probe-1", importer=imp)
            g.add_node(node_id="a", label="NetworkNode", props={"Name": "x"})
            g.add_node(node_id="b", label="Component", props={"Name": "y"})
            g.add_link(node_a="a", rel="has", node_b="b", props={"w": 1})
            text = g.serialize_graph(format=GraphFormat.JSON_NODELINK)
            o = json.loads(text)
            raw = imp.storage.extract_graph("probe-1")
            nkeys = set().union(*[set(d) for _, d in raw.nodes(data=True)])
            ekeys = set().union(*[set(d) for _, _, d in raw.edges(data=True)])
            # the name of the node / link lists: the two list-valued top-level entries whose items carry the attributes
            lists = {k: v for k, v in o.items() if isinstance(v, list) and v and all(isinstance(x, dict) for x in v)}
            nlist = [k for k, v in lists.items() if len(v) == 2 and all(nkeys <= set(x) for x in v)]
            elist = [k for k, v in lists.items() if len(v) == 1 and all(ekeys <= set(x) for x in v) and k not in nlist]
            if len(nlist) != 1 or len(elist) != 1:
                raise ExtractionError("%s store: cannot find the node / link lists in the node-link JSON (%s)" % (key, sorted(o)))
            nres = sorted(set().union(*[set(x) for x in o[nlist[0]]]) - nkeys)
            eres = sorted(set().union(*[set(x) for x in o[elist[0]]]) - ekeys)
            top = {k: v for k, v in o.items() if not isinstance(v, list)}
            # roles: the node key carries the internal node id, the two link keys the endpoints in G.edges() order
            (u, v, _), = list(raw.edges(data=True))
            link = o[elist[0]][0]
            idk = [k for k in nres if sorted(x[k] for x in o[nlist[0]]) == sorted(raw.nodes())]
            srck = [k for k in eres if link[k] == u]
            tgtk = [k for k in eres if link[k] == v]
            if u == v or len(idk) != 1 or len(srck) != 1 or len(tgtk) != 1 or set(idk) != set(nres) or set(srck + tgtk) != set(eres):
                raise ExtractionError("%s store: cannot assign roles to the reserved node-link keys %s / %s" % (key, nres, eres))
            out[key] = {"node_reserved": nres, "edge_reserved": eres, "nodes_key": nlist[0], "edges_key": elist[0], "top": top,
                        "roles": {"id": idk[0], "source": srck[0], "target": tgtk[0]}}
            # numbering: import the text twice under fresh ids
            imp.import_graph_from_string(graph_string=text, graph_id="probe-2")
            imp.import_graph_from_string(graph_string=text, graph_id="probe-3")
            ids = []
            for gid in ("probe-1", "probe-2", "probe-3"):
                ids.append(sorted(imp.storage.extract_graph(gid).nodes()))
            out[key]["ids"] = ids
    finally:
        m.NetworkXGraphStorage.storage_instance = old
        md.NetworkXGraphStorageDisjoint.storage_instance = oldd
    return out


def probe_history():
    """behaviour that must not depend on what the process did before (observed on fresh stores, both importers):
    (1) get_graph_id(graph_file=P), and with it the id-keeping file import, answers for the text that is in P NOW: P is
        written with a model of graph a, asked, imported, written again with a model of graph b, asked and imported again;
    (2) an import that is refused under an id nobody holds - at each stage at which the importers refuse: a node without NodeID
        after complete ones, an empty NodeID, mixed GraphIDs, no GraphID - leaves the store exactly as it was (nodes, links,
        the next internal id), observed by the numbering and the content of the next import"""
    import os
    import shutil
    import tempfile
    import fim.graph.networkx_property_graph as m
    import fim.graph.networkx_property_graph_disjoint as md
    from fim.graph.abc_property_graph import ABCPropertyGraph, GraphFormat
    old, oldd = m.NetworkXGraphStorage.storage_instance, md.NetworkXGraphStorageDisjoint.storage_instance
    tmp = tempfile.mkdtemp(prefix="c01-gen-")
    follows, clean = True, True
    why = []
    try:
        for key, mod, cls, icls, scls in (("shared", m, m.NetworkXPropertyGraph, m.NetworkXGraphImporter, m.NetworkXGraphStorage),
                                          ("disjoint", md, md.NetworkXPropertyGraphDisjoint, md.NetworkXGraphImporterDisjoint,
                                           md.NetworkXGraphStorageDisjoint)):
            for fmt in (GraphFormat.GRAPHML, GraphFormat.JSON_NODELINK):
                scls.storage_instance = None
                imp = icls()

                def model(gid, names):
                    g = cls(graph_id=gid, importer=imp)
                    for i, nm in enumerate(names):
                        g.add_node(node_id="%s-%d" % (gid, i), label="NetworkNode" if i == 0 else "Component", props={"Name": nm})
                    for i in range(1, len(names)):
                        g.add_link(node_a="%s-0" % gid, rel="has", node_b="%s-%d" % (gid, i))
                    return g.serialize_graph(format=fmt)

                def content(gid):
                    g = imp.storage.extract_graph(gid)
                    if g is None or len(g) == 0:
                        return None
                    return (sorted((canon_pair({k: v for k, v in d.items() if k != ABCPropertyGraph.GRAPH_ID}) for _, d in g.nodes(data=True))),
                            sorted({str(d.get(ABCPropertyGraph.GRAPH_ID)) for _, d in g.nodes(data=True)}), g.number_of_edges())
                ta, tb = model("probe-a", ["a0", "a1"]), model("probe-b", ["b0", "b1", "b2"])
                want_a, want_b = content("probe-a"), content("probe-b")
                path = os.path.join(tmp, "probe-%s-%s.txt" % (key, fmt.name))
                seen = []
                for text, gid, want in ((ta, "probe-a", want_a), (tb, "probe-b", want_b), (ta, "probe-a", want_a)):
                    with open(path, "w") as f:
                        f.write(text)
                    a1 = icls.get_graph_id(graph_file=path)
                    g = imp.import_graph_from_file_direct(graph_file=path)
                    seen.append((a1, g.graph_id, content(gid) == want))
                if seen != [("probe-a", "probe-a", True), ("probe-b", "probe-b", True), ("probe-a", "probe-a", True)]:
                    follows = False
                    why.append("%s/%s: a file rewritten with other models was read as %s" % (key, fmt.name, seen))
                # (2) refused imports under free ids, then the same good text under a fresh id
                import json as _json
                from lxml import etree
                scls.storage_instance = None
                imp = icls()
                ta, tb = model("probe-a", ["a0", "a1"]), model("probe-b", ["b0", "b1", "b2"])

                def damaged(text, how):
                    if fmt == GraphFormat.JSON_NODELINK:
                        o = _json.loads(text)
                        nodes = [x for k, v in o.items() if isinstance(v, list) for x in v if ABCPropertyGraph.NODE_ID in x]
                        for x in nodes:
                            x["Residue"] = "left"
                        if how == "nonid":
                            del nodes[-1][ABCPropertyGraph.NODE_ID]
                        elif how == "emptynid":
                            nodes[-1][ABCPropertyGraph.NODE_ID] = ""
                        elif how == "mixed":
                            nodes[-1][ABCPropertyGraph.GRAPH_ID] = "probe-other"
                        else:
                            del nodes[-1][ABCPropertyGraph.GRAPH_ID]
                        return _json.dumps(o)
                    root = etree.fromstring(text.encode("utf-8"))
                    ns = "{http://graphml.graphdrawing.org/xmlns}"
                    kid = {k.get("attr.name"): k.get("id") for k in root.iter(ns + "key") if k.get("for") == "node"}
                    nodes = list(root.iter(ns + "node"))
                    last = nodes[-1]
                    name = ABCPropertyGraph.NODE_ID if how in ("nonid", "emptynid") else ABCPropertyGraph.GRAPH_ID
                    d = [x for x in last.iter(ns + "data") if x.get("key") == kid[name]][0]
                    if how in ("nonid", "nogid"):
                        last.remove(d)
                    elif how == "emptynid":
                        d.text = None
                    else:
                        d.text = "probe-other"
                    for x in nodes:
                        # the Name key exists for nodes: overwrite it, so that whatever is left behind is told apart
                        for y in x.iter(ns + "data"):
                            if y.get("key") == kid["Name"]:
                                y.text = "left"
                    return etree.tostring(root).decode("utf-8")

                def dump():
                    st = imp.storage
                    if key == "shared":
                        return (sorted((n, canon_pair(d)) for n, d in st.graphs.nodes(data=True)), st.graphs.number_of_edges(), st.start_id)
                    return (sorted((str(k), sorted((n, canon_pair(d)) for n, d in g.nodes(data=True)), g.number_of_edges())
                                   for k, g in st.graphs.items() if len(g)), sorted((str(k), v) for k, v in st.graph_node_ids.items() if v))
                k = 0
                for entry, how in (("string", "nonid"), ("file", "nonid"), ("string", "emptynid"), ("string_direct", "mixed"), ("file_direct", "nogid")):
                    k += 1
                    before = dump()
                    t2 = damaged(tb, how)
                    p2 = os.path.join(tmp, "refused-%d.txt" % k)
                    with open(p2, "w") as f:
                        f.write(t2)
                    try:
                        if entry == "string":
                            imp.import_graph_from_string(graph_string=t2, graph_id="probe-draft-%d" % k)
                        elif entry == "file":
                            imp.import_graph_from_file(graph_file=p2, graph_id="probe-draft-%d" % k)
                        elif entry == "string_direct":
                            imp.import_graph_from_string_direct(graph_string=t2)
                        else:
                            imp.import_graph_from_file_direct(graph_file=p2)
                        continue          # accepted: nothing to observe about a refusal
                    except Exception:
                        pass
                    after = dump()
                    imp.import_graph_from_string(graph_string=ta, graph_id="probe-copy-%d" % k)
                    if after != before or content("probe-copy-%d" % k) != want_a[:1] + (["probe-copy-%d" % k],) + want_a[2:]:
                        clean = False
                        why.append("%s/%s: an import refused through %s (%s) under a free id changed the store" % (key, fmt.name, entry, how))
    finally:
        m.NetworkXGraphStorage.storage_instance = old
        md.NetworkXGraphStorageDisjoint.storage_instance = oldd
        shutil.rmtree(tmp, ignore_errors=True)
    return {"graph_id_follows_file": follows, "refused_import_leaves_store": clean, "why": why}


def extract():
    import fim.graph.abc_property_graph_constants as cm
    importlib.reload(cm)
    C = cm.ABCPropertyGraphConstants
    c = {}
    for k in ("GRAPH_ID", "NODE_ID", "PROP_CLASS"):
        v = getattr(C, k, None)
        if not isinstance(v, str) or not v:
            raise ExtractionError("constant %s is not a non-empty str" % k)
        c[k] = v
    names = C.JSON_PROPERTY_NAMES
    if not isinstance(names, (list, tuple)) or not all(isinstance(x, str) for x in names):
        raise ExtractionError("JSON_PROPERTY_NAMES is not a list of str")
    c["JSON_PROPERTY_NAMES"] = list(names)
    c["markup"] = probe_markup(c["PROP_CLASS"])
    import fim.graph.networkx_property_graph as m
    rf = m.NetworkXGraphImporter.READ_FORMATS
    fm = {"json_nodelink": "json", "graphml": "graphml"}
    if not isinstance(rf, (list, tuple)) or not all(x in fm for x in rf) or len(set(rf)) != len(rf):
        raise ExtractionError("READ_FORMATS %r is not a list of the known formats" % (rf,))
    for x in rf:
        if not callable(getattr(m.NetworkXGraphImporter, "_read_from_file_" + x, None)):
            raise ExtractionError("READ_FORMATS names %s but there is no _read_from_file_%s" % (x, x))
    c["READ_FORMATS"] = [fm[x] for x in rf]
    c["first"] = extract_first_labels()
    p = probe_store()
    if p["shared"]["node_reserved"] != p["disjoint"]["node_reserved"] or p["shared"]["edge_reserved"] != p["disjoint"]["edge_reserved"]:
        raise ExtractionError("the two stores emit different reserved node-link keys")
    c["node_reserved"], c["edge_reserved"] = p["shared"]["node_reserved"], p["shared"]["edge_reserved"]
    if p["shared"]["roles"] != p["disjoint"]["roles"]:
        raise ExtractionError("the two stores use the reserved node-link keys differently")
    c["roles"] = p["shared"]["roles"]
    c["json_top"] = p["shared"]["top"]
    # first_label: the AST reading (where the source shape is readable) must agree with the observed numbering; where it is
    # not readable the observation decides. The first graph of the probe is built by add_node (same counter), the two
    # others are imports.
    for key in ("shared", "disjoint"):
        seen = first_labels_from_probe(p[key]["ids"])
        if seen is None:
            raise ExtractionError("%s store: node numbering %s of two imports in a row is neither constant nor consecutive" % (
                key, p[key]["ids"]))
        if c["first"][key] is not None and c["first"][key] != seen:
            raise ExtractionError("%s store: observed node numbering %s contradicts first_label %s read from the source" % (
                key, p[key]["ids"], c["first"][key]))
        c["first"][key] = seen
    init = p["shared"]["ids"][0][0] if c["first"]["shared"] == ("startId",) else None
    if c["first"]["initial"] is None:
        c["first"]["initial"] = init if init is not None else 1
    elif init is not None and init != c["first"]["initial"]:
        raise ExtractionError("initial start_id %s read from the source, but the first node of a fresh store is %s" % (
            c["first"]["initial"], init))
    c["history"] = probe_history()
    tree, src = parse(TOPO)
    c["load"] = {"Topology": extract_load(tree, "Topology"), "AdvertizedTopology": extract_load(tree, "AdvertizedTopology")}
    c["ctor_loads"] = {k: extract_ctor_loads(tree, k) for k in ("Topology", "AdvertizedTopology")}
    for k in ("ExperimentTopology", "SubstrateTopology"):
        cls = find_class(tree, k)
        if "load" in [n.name for n in cls.body if isinstance(n, ast.FunctionDef)]:
            raise ExtractionError("%s overrides load" % k)
        bases = [ast.unparse(b) for b in cls.bases]
        if bases != ["Topology"]:
            raise ExtractionError("%s no longer derives from Topology only" % k)
    return c


def _opt(x):
    return "none" if x is None else "(some .%s)" % x


def _step(s):
    if s[0] == "delete":
        return "(.delete .%s %s)" % (s[1], "true" if s[2] else "false")
    return "." + s[0]


def _first(f):
    return ".startId" if f == ("startId",) else "(.const %d)" % f[1]


def _loadspec(d):
    return "{ onFile := %s, onString := %s, onStringNewId := %s,\n    steps := %s }" % (
        _opt(d["onFile"]), _opt(d["onString"]), _opt(d["onStringNewId"]), lean_list([_step(s) for s in d["steps"]]))


def generate():
    c = extract()
    b = "open FimVerif.SerialSpec\n\n"
    b += "/-- ABCPropertyGraphConstants.GRAPH_ID / NODE_ID / PROP_CLASS -/\n"
    b += "def graphId : String := %s\ndef nodeId : String := %s\ndef propClass : String := %s\n\n" % (
        lean_str(c["GRAPH_ID"]), lean_str(c["NODE_ID"]), lean_str(c["PROP_CLASS"]))
    b += "/-- ABCPropertyGraphConstants.JSON_PROPERTY_NAMES (validated by validate_graph) -/\n"
    b += "def jsonPropertyNames : List String := %s\n\n" % lean_list([lean_str(x) for x in c["JSON_PROPERTY_NAMES"]])
    b += "/-- observed on GraphML.networkx_to_neo4j: attribute added to a node element and the prefix before the Class text -/\n"
    b += "def nodeLabelAttr : String := %s\ndef nodeLabelPrefix : String := %s\n" % (
        lean_str(c["markup"]["node"][0]), lean_str(c["markup"]["node"][1]))
    b += "def edgeLabelAttr : String := %s\ndef edgeLabelPrefix : String := %s\n\n" % (
        lean_str(c["markup"]["edge"][0]), lean_str(c["markup"]["edge"][1]))
    b += "/-- keys of the node-link JSON node / link objects that are not attributes (observed on serialize_graph) -/\n"
    b += "def jsonNodeReserved : List String := %s\ndef jsonEdgeReserved : List String := %s\n\n" % (
        lean_list([lean_str(x) for x in c["node_reserved"]]), lean_list([lean_str(x) for x in c["edge_reserved"]]))
    b += "/-- their roles: the key carrying the node key, the link's first and second endpoint -/\n"
    b += "def jsonIdKey : String := %s\ndef jsonSourceKey : String := %s\ndef jsonTargetKey : String := %s\n\n" % (
        lean_str(c["roles"]["id"]), lean_str(c["roles"]["source"]), lean_str(c["roles"]["target"]))
    b += "/-- NetworkXGraphImporter.READ_FORMATS: the order in which _read_from_file tries the readers (true = JSON) -/\n"
    b += "def readFormatsJsonFirst : Bool := %s\n" % ("true" if c["READ_FORMATS"][:1] == ["json"] else "false")
    b += "def readFormats : List String := %s\n\n" % lean_list([lean_str(x) for x in c["READ_FORMATS"]])
    b += "/-- first_label of convert_node_labels_to_integers in add_graph / add_graph_direct; initial start_id -/\n"
    b += "def sharedFirstLabel : FirstLabel := %s\ndef disjointFirstLabel : FirstLabel := %s\ndef initialStartId : Nat := %d\n\n" % (
        _first(c["first"]["shared"]), _first(c["first"]["disjoint"]), c["first"]["initial"])
    b += "/-- Topology.load (ExperimentTopology / SubstrateTopology inherit it) -/\n"
    b += "def topologyLoad : LoadSpec :=\n  %s\n\n" % _loadspec(c["load"]["Topology"])
    b += "/-- AdvertizedTopology.load -/\n"
    b += "def advertizedLoad : LoadSpec :=\n  %s\n\n" % _loadspec(c["load"]["AdvertizedTopology"])
    b += "/-- do the constructors pass graph_file / graph_string on to load? -/\n"
    b += "def topologyCtorLoads : Bool := %s\ndef advertizedCtorLoads : Bool := %s\n" % (
        "true" if c["ctor_loads"]["Topology"] else "false", "true" if c["ctor_loads"]["AdvertizedTopology"] else "false")
    b += "\n/-- observed (both importers, both formats): get_graph_id(graph_file=) / import_graph_from_file_direct read the text that is in the\n"
    b += "    file at the time of the call - a file written again with another model is read as that model -/\n"
    b += "def graphIdFollowsFile : Bool := %s\n\n" % ("true" if c["history"]["graph_id_follows_file"] else "false")
    b += "/-- observed (both stores, both formats, every stage at which an import is refused): a refused import under an id nobody\n"
    b += "    holds leaves nodes, links and the next internal id as they were -/\n"
    b += "def refusedImportLeavesStore : Bool := %s\n" % ("true" if c["history"]["refused_import_leaves_store"] else "false")
    changed = emit("Serial", b, header="import FimVerif.Model.SerialSpec\n")
    rep = {k: c[k] for k in ("GRAPH_ID", "NODE_ID", "PROP_CLASS", "READ_FORMATS", "node_reserved", "edge_reserved", "roles", "load", "ctor_loads")}
    rep["json_property_names"] = len(c["JSON_PROPERTY_NAMES"])
    rep["markup"] = {k: list(v) for k, v in c["markup"].items()}
    rep["first_label"] = {k: list(v) if isinstance(v, tuple) else v for k, v in c["first"].items()}
    rep["history"] = c["history"]
    rep["changed"] = changed
    return rep


if __name__ == "__main__":
    print(json.dumps(generate(), indent=1, default=str))
