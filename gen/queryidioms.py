"""Read the drop-list / iterate-and-remove idioms of the NetworkX neighbour and path queries (C06).

Recognised shapes (anything else is an ExtractionError):

  drop-list loop (in `_get_first_neighbors_via` and twice in `get_first_and_second_neighbor`):
      for V in S:
          if graph.edges[(A, V)].get(<label>, None) != R:
              neighbor_drop_list.append(W)
    reported per loop: the loop variable V, the edge looked up (A, V), the relation name R and
    the appended variable W; `W is V` is what makes the filter effective.

  `_drop_edges_not_of_type`:
      for e in ITER:
          if e[2].get(<label>, None) != rel:
              graph.remove_edge(e[0], e[1])
    ITER is either the live view `graph.edges(data=True)` or a snapshot `list(graph.edges(data=True))`
    (also accepted: `tuple(...)`, `[... for ...]` is not).

  replacement test of `get_nodes_on_path_with_hops`:
      if not len(result) or len(result) > len(path_node_ids):   (strict)

  derived helpers of `ABCPropertyGraph` (`get_all_ns_or_link_connection_points`, `get_all_child_connection_points`,
  `get_all_node_or_component_connection_points`, `find_peer_connection_points`):
      labels, _ = self.get_node_properties(node_id=<param>)
      if ABCPropertyGraph.CLASS_X not in labels [and ABCPropertyGraph.CLASS_Y not in labels ...]:
          raise PropertyGraphQueryException(...)
      ... self.get_first_neighbor(node_id=<param>, rel=ABCPropertyGraph.REL_r, node_label=ABCPropertyGraph.CLASS_c)
        | self.get_first_and_second_neighbor(node_id=<param>, rel1=..., node1_label=..., rel2=..., node2_label=...)
    reported: the admitted classes of the gate (values of the constants, read from abc_property_graph_constants.py)
    and the relation / class constants the query is asked with.  `labels` must be the first component of
    `get_node_properties` (a *list* of labels: `not in` is list membership).
"""
import ast
from .common import *

PG = "fim/graph/networkx_property_graph.py"
MX = "fim/graph/networkx_mixin.py"
ABCPG = "fim/graph/abc_property_graph.py"
CONSTS = "fim/graph/abc_property_graph_constants.py"


def _constants():
    """CLASS_* / REL_* string constants of ABCPropertyGraphConstants"""
    tree, _ = parse(CONSTS)
    cls = find_class(tree, "ABCPropertyGraphConstants")
    out = {}
    for st in cls.body:
        if (isinstance(st, ast.Assign) and len(st.targets) == 1 and isinstance(st.targets[0], ast.Name)
                and isinstance(st.value, ast.Constant) and isinstance(st.value.value, str)):
            out[st.targets[0].id] = st.value.value
    if not any(k.startswith("CLASS_") for k in out) or not any(k.startswith("REL_") for k in out):
        raise ExtractionError("no CLASS_*/REL_* string constants in ABCPropertyGraphConstants")
    return out


def _const(node, consts, who):
    # ABCPropertyGraph.CLASS_Link / self.REL_HAS / ABCPropertyGraphConstants.CLASS_Link
    if isinstance(node, ast.Attribute) and node.attr in consts:
        return consts[node.attr]
    if isinstance(node, ast.Constant) and isinstance(node.value, str):
        return node.value
    raise ExtractionError("%s: %s is not a CLASS_*/REL_* constant" % (who, ast.unparse(node)))


def _helper(cls, name, call_name, kws, consts, gated):
    fn = find_func(cls, name)
    params = [a.arg for a in fn.args.args + fn.args.kwonlyargs if a.arg != "self"]
    if len(params) != 1:
        raise ExtractionError("%s: expected one parameter, found %s" % (name, params))
    par = params[0]
    gate = None
    if gated:
        # labels, _ = self.get_node_properties(node_id=par)
        lab = None
        for n in ast.walk(fn):
            if (isinstance(n, ast.Assign) and len(n.targets) == 1 and isinstance(n.targets[0], ast.Tuple)
                    and len(n.targets[0].elts) == 2 and isinstance(n.targets[0].elts[0], ast.Name)
                    and isinstance(n.value, ast.Call) and isinstance(n.value.func, ast.Attribute)
                    and n.value.func.attr == "get_node_properties"
                    and [(k.arg, ast.unparse(k.value)) for k in n.value.keywords] == [("node_id", par)] and not n.value.args):
                lab = n.targets[0].elts[0].id
        if lab is None:
            raise ExtractionError("%s: labels are not taken from get_node_properties(node_id=%s)" % (name, par))
        ifs = [n for n in strip_doc(fn.body) if isinstance(n, ast.If)]
        ifs = [n for n in ifs if len(n.body) == 1 and isinstance(n.body[0], ast.Raise) and not n.orelse]
        if len(ifs) != 1:
            raise ExtractionError("%s: expected one class gate (if ... not in labels: raise), found %d" % (name, len(ifs)))
        t = ifs[0].test
        parts = t.values if isinstance(t, ast.BoolOp) and isinstance(t.op, ast.And) else [t]
        gate = []
        for c in parts:
            if not (isinstance(c, ast.Compare) and len(c.ops) == 1 and isinstance(c.ops[0], ast.NotIn)
                    and isinstance(c.comparators[0], ast.Name) and c.comparators[0].id == lab):
                raise ExtractionError("%s: gate condition %s is not `CLASS_X not in %s`" % (name, ast.unparse(c), lab))
            gate.append(_const(c.left, consts, name))
        exc = ifs[0].body[0].exc
        if not (isinstance(exc, ast.Call) and ast.unparse(exc.func) == "PropertyGraphQueryException"):
            raise ExtractionError("%s: the gate raises %s" % (name, ast.unparse(exc) if exc else None))
    calls = [n for n in ast.walk(fn) if isinstance(n, ast.Call) and isinstance(n.func, ast.Attribute)
             and n.func.attr == call_name and isinstance(n.func.value, ast.Name) and n.func.value.id == "self"]
    if len(calls) != 1 or calls[0].args:
        raise ExtractionError("%s: expected one keyword call of self.%s" % (name, call_name))
    kw = {k.arg: k.value for k in calls[0].keywords}
    if sorted(kw) != sorted(["node_id"] + kws) or ast.unparse(kw["node_id"]) != par:
        raise ExtractionError("%s: unexpected arguments of %s: %s" % (name, call_name, sorted(kw)))
    return gate, [_const(kw[k], consts, name) for k in kws], fn


def _is_label(node):
    # self.NETWORKX_LABEL / NetworkXMixin.NETWORKX_LABEL
    return isinstance(node, ast.Attribute) and node.attr == "NETWORKX_LABEL"


def _drop_loop(loop):
    """for V in S: if graph.edges[(A, V)].get(LABEL, None) != R: neighbor_drop_list.append(W)"""
    if not (isinstance(loop, ast.For) and isinstance(loop.target, ast.Name) and len(loop.body) == 1 and not loop.orelse):
        return None
    st = loop.body[0]
    if not (isinstance(st, ast.If) and not st.orelse and len(st.body) == 1):
        return None
    t = st.test
    if not (isinstance(t, ast.Compare) and len(t.ops) == 1 and isinstance(t.ops[0], ast.NotEq)
            and isinstance(t.comparators[0], ast.Name)):
        return None
    c = t.left
    if not (isinstance(c, ast.Call) and isinstance(c.func, ast.Attribute) and c.func.attr == "get"
            and len(c.args) == 2 and _is_label(c.args[0])
            and isinstance(c.args[1], ast.Constant) and c.args[1].value is None):
        return None
    sub = c.func.value
    if not (isinstance(sub, ast.Subscript) and isinstance(sub.value, ast.Attribute) and sub.value.attr == "edges"
            and isinstance(sub.slice, ast.Tuple) and len(sub.slice.elts) == 2
            and all(isinstance(e, ast.Name) for e in sub.slice.elts)):
        return None
    ap = st.body[0]
    if not (isinstance(ap, ast.Expr) and isinstance(ap.value, ast.Call) and isinstance(ap.value.func, ast.Attribute)
            and ap.value.func.attr == "append" and isinstance(ap.value.func.value, ast.Name)
            and len(ap.value.args) == 1 and isinstance(ap.value.args[0], ast.Name)):
        return None
    return {"loop_var": loop.target.id, "edge": [e.id for e in sub.slice.elts], "rel": t.comparators[0].id,
            "droplist": ap.value.func.value.id, "appended": ap.value.args[0].id,
            "iter": ast.unparse(loop.iter)}


def _drop_loops(fn):
    out = []
    for n in ast.walk(fn):
        if isinstance(n, ast.For):
            d = _drop_loop(n)
            if d:
                d["line"] = n.lineno
                out.append(d)
    out.sort(key=lambda d: d["line"])
    return out


def _check_loop(d, who, a, rel):
    if d["edge"] != [a, d["loop_var"]]:
        raise ExtractionError("%s: edge looked up is %s, expected (%s, %s)" % (who, d["edge"], a, d["loop_var"]))
    if d["rel"] != rel:
        raise ExtractionError("%s: compares against %s, expected %s" % (who, d["rel"], rel))
    if d["appended"] == d["loop_var"]:
        return True
    if d["appended"] == a:
        return False
    raise ExtractionError("%s: appends %s, which is neither the loop variable nor the near end" % (who, d["appended"]))


def _edges_view(node):
    # graph.edges(data=True)
    return (isinstance(node, ast.Call) and isinstance(node.func, ast.Attribute) and node.func.attr == "edges"
            and isinstance(node.func.value, ast.Name) and not node.args and len(node.keywords) == 1
            and node.keywords[0].arg == "data" and isinstance(node.keywords[0].value, ast.Constant)
            and node.keywords[0].value.value is True)


def generate():
    ptree, psrc = parse(PG)
    mtree, msrc = parse(MX)
    pg = find_class(ptree, "NetworkXPropertyGraph")
    mx = find_class(mtree, "NetworkXMixin")

    # --- _get_first_neighbors_via
    f1 = find_func(mx, "_get_first_neighbors_via")
    l1 = _drop_loops(f1)
    if len(l1) != 1:
        raise ExtractionError("_get_first_neighbors_via: expected one drop-list loop, found %d" % len(l1))
    first_ok = _check_loop(l1[0], "_get_first_neighbors_via", "real_node", "rel")

    # --- get_first_and_second_neighbor
    f2 = find_func(pg, "get_first_and_second_neighbor")
    l2 = _drop_loops(f2)
    if len(l2) != 2:
        raise ExtractionError("get_first_and_second_neighbor: expected two drop-list loops, found %d" % len(l2))
    hop1_ok = _check_loop(l2[0], "get_first_and_second_neighbor first hop", "real_node", "rel1")
    # second loop is nested in `for n in first_neighbors`
    outer = None
    for n in ast.walk(f2):
        if isinstance(n, ast.For) and any(isinstance(c, ast.For) and c.lineno == l2[1]["line"] for c in n.body):
            outer = n
    if outer is None or not isinstance(outer.target, ast.Name):
        raise ExtractionError("get_first_and_second_neighbor: second drop-list loop is not nested in a for loop")
    hop2_ok = _check_loop(l2[1], "get_first_and_second_neighbor second hop", outer.target.id, "rel2")

    # --- _drop_edges_not_of_type
    f3 = find_func(mx, "_drop_edges_not_of_type")
    body = strip_doc(f3.body)
    if not (len(body) == 1 and isinstance(body[0], ast.For) and isinstance(body[0].target, ast.Name)):
        raise ExtractionError("_drop_edges_not_of_type: body is not a single for loop")
    loop = body[0]
    e = loop.target.id
    it = loop.iter
    if _edges_view(it):
        snapshot = False
    elif (isinstance(it, ast.Call) and isinstance(it.func, ast.Name) and it.func.id in ("list", "tuple")
          and len(it.args) == 1 and not it.keywords and _edges_view(it.args[0])):
        snapshot = True
    else:
        raise ExtractionError("_drop_edges_not_of_type: unrecognised iterable %s" % ast.unparse(it))
    want = ("if %s[2].get(NetworkXMixin.NETWORKX_LABEL, None) != rel:\n    graph.remove_edge(%s[0], %s[1])" % (e, e, e))
    if not (len(loop.body) == 1 and not loop.orelse and ast.unparse(loop.body[0]) == want):
        raise ExtractionError("_drop_edges_not_of_type: unrecognised loop body %s" % ast.unparse(loop.body[0])[:200])

    # --- replacement test of get_nodes_on_path_with_hops
    f4 = find_func(pg, "get_nodes_on_path_with_hops")
    tests = [ast.unparse(n.test) for n in ast.walk(f4) if isinstance(n, ast.If)]
    if "not len(result) or len(result) > len(path_node_ids)" in tests:
        strict = True
    elif "not len(result) or len(result) >= len(path_node_ids)" in tests:
        strict = False
    else:
        raise ExtractionError("get_nodes_on_path_with_hops: replacement test not recognised: %s" % tests)

    # --- derived helpers of ABCPropertyGraph
    atree, asrc = parse(ABCPG)
    apg = find_class(atree, "ABCPropertyGraph")
    consts = _constants()
    two = ["rel1", "node1_label", "rel2", "node2_label"]
    link_gate, link_q, h1 = _helper(apg, "get_all_ns_or_link_connection_points", "get_first_neighbor", ["rel", "node_label"], consts, True)
    child_gate, child_q, h2 = _helper(apg, "get_all_child_connection_points", "get_first_neighbor", ["rel", "node_label"], consts, True)
    node_gate, node_q, h3 = _helper(apg, "get_all_node_or_component_connection_points", "get_first_and_second_neighbor", two, consts, True)
    _, peer_q, h4 = _helper(apg, "find_peer_connection_points", "get_first_and_second_neighbor", two, consts, False)

    def strs(l):
        return lean_list([lean_str(x) for x in l])

    def b(x):
        return "true" if x else "false"
    lean = (
        "/-- `_get_first_neighbors_via`: the drop list receives the loop variable (the neighbour). -/\n"
        "def firstViaDropsNeighbour : Bool := %s\n\n"
        "/-- `get_first_and_second_neighbor`, first hop: the drop list receives the loop variable. -/\n"
        "def hop1DropsNeighbour : Bool := %s\n\n"
        "/-- `get_first_and_second_neighbor`, second hop: the drop list receives the inner loop variable\n"
        "    (`false`: it receives the first-hop node instead, so the relation filter has no effect). -/\n"
        "def hop2DropsNeighbour : Bool := %s\n\n"
        "/-- `_drop_edges_not_of_type` iterates over a snapshot of the edges (`false`: over the live view\n"
        "    while removing from it, which raises RuntimeError at the first removal). -/\n"
        "def dropIteratesSnapshot : Bool := %s\n\n"
        "/-- `get_nodes_on_path_with_hops` replaces the kept path only by a strictly shorter one. -/\n"
        "def hopsReplaceStrict : Bool := %s\n" % (b(first_ok), b(hop1_ok), b(hop2_ok), b(snapshot), b(strict)))
    lean += (
        "\n/-! derived helpers of `ABCPropertyGraph`: admitted classes of the node (`CLASS_X not in labels ... raise`) and the\n"
        "    relation / class names (values of the `REL_*` / `CLASS_*` constants) the underlying query is asked with -/\n\n"
        "def linkCpsGate : List String := %s\ndef linkCpsQuery : List String := %s\n"
        "def childCpsGate : List String := %s\ndef childCpsQuery : List String := %s\n"
        "def nodeCpsGate : List String := %s\ndef nodeCpsQuery : List String := %s\n"
        "def peerQuery : List String := %s\n"
        % (strs(link_gate), strs(link_q), strs(child_gate), strs(child_q), strs(node_gate), strs(node_q), strs(peer_q)))
    emit("QueryIdioms", lean)
    return {"first_via": l1[0], "hop1": l2[0], "hop2": l2[1], "hop2_outer_var": outer.target.id,
            "drop_iter": ast.unparse(it), "snapshot": snapshot, "hops_replace_strict": strict,
            "flags": {"firstViaDropsNeighbour": first_ok, "hop1DropsNeighbour": hop1_ok,
                      "hop2DropsNeighbour": hop2_ok, "dropIteratesSnapshot": snapshot, "hopsReplaceStrict": strict},
            "helpers": {"linkcps": [link_gate, link_q], "childcps": [child_gate, child_q], "nodecps": [node_gate, node_q], "peer": [None, peer_q]},
            "span_hashes": {"_get_first_neighbors_via": span_hash(msrc, f1), "get_first_and_second_neighbor": span_hash(psrc, f2),
                            "_drop_edges_not_of_type": span_hash(msrc, f3), "get_nodes_on_path_with_hops": span_hash(psrc, f4)}}
