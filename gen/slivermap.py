"""Translate the sliver <-> graph-property mapping of fim.graph.abc_property_graph into Lean tables.

Recognised idioms (anything else in the mapping functions is an ExtractionError):

  to-graph (`*_sliver_to_graph_properties_dict`):
      prop_dict = dict()  |  prop_dict = ABCPropertyGraph.base_sliver_to_graph_properties_dict(sliver)
      if hasattr(sliver, 'A') and sliver.A is not None:  prop_dict[ABCPropertyGraph.PROP_X] = ENC(sliver.A)
      if hasattr(sliver, 'A'):                           prop_dict[...] = json.dumps(sliver.A)      (always written)
      if hasattr(sliver,'A') and hasattr(sliver,'B') and sliver.A is not None and sliver.B is not None:
                                                         prop_dict[...] = sliver.A + ',' + str(sliver.B)
      return prop_dict
      ENC ::= sliver.A | str(sliver.A) | sliver.A.to_json() | json.dumps(sliver.A) | sliver.A.json

  from-graph (`set_base_sliver_properties_from_graph_properties_dict`, `*_sliver_from_graph_properties_dict`):
      sliver.node_id = d.get(ABCPropertyGraph.NODE_ID, None)
      X = Cls()
      if d.get(P, None) is None: a = None; b = None  else: a, b = d[P].split(',') | d[P].rsplit(',', 1)
      ABCPropertyGraph.set_base_sliver_properties_from_graph_properties_dict(X, d)
      X.set_properties(k=DEC, ...)
      (interface only) the recursive 'interfaces' block
      return X
      DEC ::= d.get(P[, None]) | sliver.type_from_str(d.get(P, None)) | Cls.from_json(d.get(P, None))
            | Delegations.from_json(atype=DelegationType.T, json_str=d.get(P, None)) | Enum.from_string(d.get(P[, None]))
            | json.loads(d[P]) if d.get(P, None) is not None else None|False
            | Cls(d[P]) if d.get(P, None) is not None else None | <name bound by the split block>

  setters (`set_<k>` of the sliver classes, following the MRO): exactly one instance attribute is assigned; the
  assigned value is the parameter, `tuple(param)`, `ipaddress.ip_address(param)` or None; everything else in the
  setter (asserts, validation raising ValueError, `finalize()`) is a guard, probed dynamically with None.

Dynamic probes (the module is imported): values of the PROP_* constants, `list_properties()` of every class,
what each decoder returns for an absent property, whether each setter accepts None.

Behavioural cross-check / stand-in (`probe_kind`): the same to- and from-tables are *observed* - a sample value per
setter (chosen by the setter's annotation, must survive to -> from), the graph property it makes appear, the encoder
that yields exactly the written text, the decoder by what comes back, the falsy-but-valid values of the same type, the
comma-joined pair - and compared with the AST reading on every run.  When a mapping function does not have the
recognised shape (renamed locals, reshaped conditions, a helper), the observed table is used and the fact is noted in
the evidence (`ast_fallback`); it is an extraction error only when the *behaviour* is not expressible in the table
language (e.g. a row written for True but not for False).

Element routes (`element_routes`): every python `property` of every element class of `fim.user` by introspection,
classified by probes on a recording stub (no source text matched).
"""
import ast
import inspect
import textwrap

from .common import *

REL = "fim/graph/abc_property_graph.py"

KINDS = [  # (kind, to-function, from-function, sliver class name)
    ("node", "node_sliver_to_graph_properties_dict", "node_sliver_from_graph_properties_dict", "NodeSliver"),
    ("component", "component_sliver_to_graph_properties_dict", "component_sliver_from_graph_properties_dict", "ComponentSliver"),
    ("service", "network_service_sliver_to_graph_properties_dict", "network_service_sliver_from_graph_properties_dict", "NetworkServiceSliver"),
    ("interface", "interface_sliver_to_graph_properties_dict", "interface_sliver_from_graph_properties_dict", "InterfaceSliver"),
    ("link", "link_sliver_to_graph_properties_dict", "link_sliver_from_graph_properties_dict", "NetworkLinkSliver"),
]
BASE_TO = "base_sliver_to_graph_properties_dict"
BASE_FROM = "set_base_sliver_properties_from_graph_properties_dict"


def _dump(n):
    return ast.dump(n)[:160]


def _const(node, consts):
    """ABCPropertyGraph.PROP_X / ABCPropertyGraphConstants.PROP_X / 'literal' -> string value"""
    if isinstance(node, ast.Constant) and isinstance(node.value, str):
        return node.value
    if isinstance(node, ast.Attribute) and isinstance(node.value, ast.Name) and \
            node.value.id in ("ABCPropertyGraph", "ABCPropertyGraphConstants"):
        if node.attr not in consts:
            raise ExtractionError("unknown graph constant %s" % node.attr)
        return consts[node.attr]
    raise ExtractionError("not a graph property constant: %s" % _dump(node))


def _is_sliver_attr(node, var="sliver"):
    if isinstance(node, ast.Attribute) and isinstance(node.value, ast.Name) and node.value.id == var:
        return node.attr
    return None


def _enc(node):
    """encoder expression -> (enc kind, [attrs])"""
    a = _is_sliver_attr(node)
    if a:
        return "ident", [a]
    if isinstance(node, ast.Call) and isinstance(node.func, ast.Name) and node.func.id == "str" and len(node.args) == 1 \
            and not node.keywords and _is_sliver_attr(node.args[0]):
        return "str", [_is_sliver_attr(node.args[0])]
    if isinstance(node, ast.Call) and isinstance(node.func, ast.Attribute) and node.func.attr == "to_json" \
            and not node.args and not node.keywords and _is_sliver_attr(node.func.value):
        return "toJson", [_is_sliver_attr(node.func.value)]
    if isinstance(node, ast.Call) and isinstance(node.func, ast.Attribute) and node.func.attr == "dumps" \
            and isinstance(node.func.value, ast.Name) and node.func.value.id == "json" and len(node.args) == 1 \
            and not node.keywords and _is_sliver_attr(node.args[0]):
        return "jsonDumps", [_is_sliver_attr(node.args[0])]
    if isinstance(node, ast.Attribute) and node.attr == "json" and _is_sliver_attr(node.value):
        return "jsonData", [_is_sliver_attr(node.value)]
    # sliver.A + ',' + str(sliver.B)
    if isinstance(node, ast.BinOp) and isinstance(node.op, ast.Add) and isinstance(node.left, ast.BinOp) \
            and isinstance(node.left.op, ast.Add) and _is_sliver_attr(node.left.left) \
            and isinstance(node.left.right, ast.Constant) and node.left.right.value == "," \
            and isinstance(node.right, ast.Call) and getattr(node.right.func, "id", "") == "str" \
            and len(node.right.args) == 1 and _is_sliver_attr(node.right.args[0]):
        return "commaJoin", [_is_sliver_attr(node.left.left), _is_sliver_attr(node.right.args[0])]
    raise ExtractionError("unrecognised encoder expression: %s" % _dump(node))


def _test_parts(test):
    """condition of a to-graph `if` -> (set of hasattr attrs, set of `is not None` attrs)"""
    parts = test.values if isinstance(test, ast.BoolOp) and isinstance(test.op, ast.And) else [test]
    has, notnone = [], []
    for p in parts:
        if isinstance(p, ast.Call) and getattr(p.func, "id", "") == "hasattr" and len(p.args) == 2 \
                and getattr(p.args[0], "id", "") == "sliver" and isinstance(p.args[1], ast.Constant):
            has.append(p.args[1].value)
        elif isinstance(p, ast.Compare) and len(p.ops) == 1 and isinstance(p.ops[0], ast.IsNot) \
                and isinstance(p.comparators[0], ast.Constant) and p.comparators[0].value is None and _is_sliver_attr(p.left):
            notnone.append(_is_sliver_attr(p.left))
        else:
            raise ExtractionError("unrecognised to-graph condition part: %s" % _dump(p))
    return has, notnone


def to_rows(fn, consts):
    """-> (inherits_base, [ (attrs, gprop, enc, always) ])"""
    body = strip_doc(fn.body)
    if len(body) < 2:
        raise ExtractionError("%s: too short" % fn.name)
    first, last = body[0], body[-1]
    if not (isinstance(first, ast.Assign) and len(first.targets) == 1 and getattr(first.targets[0], "id", "") == "prop_dict"
            and isinstance(first.value, ast.Call)):
        raise ExtractionError("%s: first statement is not prop_dict = ..." % fn.name)
    f = first.value.func
    if isinstance(f, ast.Name) and f.id == "dict" and not first.value.args:
        base = False
    elif isinstance(f, ast.Attribute) and f.attr == BASE_TO and len(first.value.args) == 1 \
            and getattr(first.value.args[0], "id", "") == "sliver":
        base = True
    else:
        raise ExtractionError("%s: prop_dict initialiser not recognised" % fn.name)
    if not (isinstance(last, ast.Return) and getattr(last.value, "id", "") == "prop_dict"):
        raise ExtractionError("%s: does not end with return prop_dict" % fn.name)
    rows = []
    for st in body[1:-1]:
        if not (isinstance(st, ast.If) and not st.orelse and len(st.body) == 1):
            raise ExtractionError("%s: unrecognised statement %s" % (fn.name, _dump(st)))
        asg = st.body[0]
        if not (isinstance(asg, ast.Assign) and len(asg.targets) == 1 and isinstance(asg.targets[0], ast.Subscript)
                and getattr(asg.targets[0].value, "id", "") == "prop_dict"):
            raise ExtractionError("%s: if-body is not prop_dict[P] = ...: %s" % (fn.name, _dump(asg)))
        gprop = _const(asg.targets[0].slice, consts)
        enc, attrs = _enc(asg.value)
        has, notnone = _test_parts(st.test)
        if sorted(has) != sorted(attrs):
            raise ExtractionError("%s: hasattr checks %s do not cover encoder attributes %s" % (fn.name, has, attrs))
        if sorted(notnone) == sorted(attrs):
            always = False
        elif not notnone and enc == "jsonDumps":
            always = True
        else:
            raise ExtractionError("%s: None checks %s do not match encoder attributes %s" % (fn.name, notnone, attrs))
        rows.append((attrs, gprop, enc, always))
    return base, rows


def _dget(node, consts, dvar="d"):
    """d.get(P) / d.get(P, None) -> P"""
    if isinstance(node, ast.Call) and isinstance(node.func, ast.Attribute) and node.func.attr == "get" \
            and getattr(node.func.value, "id", "") == dvar and not node.keywords and len(node.args) in (1, 2):
        if len(node.args) == 2 and not (isinstance(node.args[1], ast.Constant) and node.args[1].value is None):
            return None
        return _const(node.args[0], consts)
    return None


def _dsub(node, consts, dvar="d"):
    if isinstance(node, ast.Subscript) and getattr(node.value, "id", "") == dvar:
        return _const(node.slice, consts)
    return None


def _dec(node, consts, bound, slvar):
    """decoder expression -> (gprop, dec kind, class-or-arg string, else-constant for the conditional forms)"""
    g = _dget(node, consts)
    if g:
        return g, "ident", "", None
    if isinstance(node, ast.Name) and node.id in bound:
        g, idx, how = bound[node.id]
        return g, how, str(idx), None
    if isinstance(node, ast.Call) and isinstance(node.func, ast.Attribute):
        f = node.func
        owner = getattr(f.value, "id", None)
        if f.attr == "type_from_str" and owner == slvar and len(node.args) == 1 and _dget(node.args[0], consts):
            return _dget(node.args[0], consts), "typeFromStr", "", None
        if f.attr == "from_string" and owner and len(node.args) == 1 and not node.keywords and _dget(node.args[0], consts):
            return _dget(node.args[0], consts), "fromString", owner, None
        if f.attr == "from_json" and owner:
            if len(node.args) == 1 and not node.keywords and _dget(node.args[0], consts):
                return _dget(node.args[0], consts), "fromJson", owner, None
            kws = {k.arg: k.value for k in node.keywords}
            if not node.args and set(kws) == {"atype", "json_str"} and _dget(kws["json_str"], consts) \
                    and isinstance(kws["atype"], ast.Attribute) and getattr(kws["atype"].value, "id", "") == "DelegationType":
                return _dget(kws["json_str"], consts), "fromJson", owner + "." + kws["atype"].attr, None
    if isinstance(node, ast.IfExp):
        t = node.test
        if isinstance(t, ast.Compare) and len(t.ops) == 1 and isinstance(t.ops[0], ast.IsNot) \
                and isinstance(t.comparators[0], ast.Constant) and t.comparators[0].value is None and _dget(t.left, consts) \
                and isinstance(node.orelse, ast.Constant) and node.orelse.value in (None, False):
            g = _dget(t.left, consts)
            b = node.body
            if isinstance(b, ast.Call) and len(b.args) == 1 and not b.keywords and _dsub(b.args[0], consts) == g:
                if isinstance(b.func, ast.Attribute) and b.func.attr == "loads" and getattr(b.func.value, "id", "") == "json":
                    return g, "jsonLoads", "", node.orelse.value
                if isinstance(b.func, ast.Name) and node.orelse.value is None:
                    return g, "jsonDataCtor", b.func.id, None
    raise ExtractionError("unrecognised decoder expression: %s" % _dump(node))


def _split_block(st, consts):
    """if d.get(P, None) is None: a = None; b = None  else: a, b = d[P].split(',')  -> {name: (P, idx, how)}"""
    if not (isinstance(st, ast.If) and isinstance(st.test, ast.Compare) and len(st.test.ops) == 1
            and isinstance(st.test.ops[0], ast.Is) and isinstance(st.test.comparators[0], ast.Constant)
            and st.test.comparators[0].value is None and _dget(st.test.left, consts)):
        return None
    g = _dget(st.test.left, consts)
    names = []
    for a in st.body:
        if not (isinstance(a, ast.Assign) and len(a.targets) == 1 and isinstance(a.targets[0], ast.Name)
                and isinstance(a.value, ast.Constant) and a.value.value is None):
            raise ExtractionError("split block: then-branch is not `x = None`")
        names.append(a.targets[0].id)
    if len(st.orelse) != 1 or not isinstance(st.orelse[0], ast.Assign) or not isinstance(st.orelse[0].targets[0], ast.Tuple):
        raise ExtractionError("split block: else-branch is not `a, b = ...`")
    tgt = [e.id for e in st.orelse[0].targets[0].elts]
    if tgt != names or len(tgt) != 2:
        raise ExtractionError("split block: names differ between branches")
    v = st.orelse[0].value
    if not (isinstance(v, ast.Call) and isinstance(v.func, ast.Attribute) and _dsub(v.func.value, consts) == g
            and v.args and isinstance(v.args[0], ast.Constant) and v.args[0].value == ","):
        raise ExtractionError("split block: not a split on ','")
    if v.func.attr == "split" and len(v.args) == 1:
        how = "commaSplit"
    elif v.func.attr == "rsplit" and len(v.args) == 2 and isinstance(v.args[1], ast.Constant) and v.args[1].value == 1:
        how = "commaRSplit"
    else:
        raise ExtractionError("split block: unrecognised split call %s" % _dump(v))
    return {n: (g, i, how) for i, n in enumerate(tgt)}


def _set_properties_rows(call, consts, bound, slvar):
    if call.args:
        raise ExtractionError("set_properties with positional arguments")
    rows = []
    for kw in call.keywords:
        if kw.arg is None:
            raise ExtractionError("set_properties(**x) not recognised")
        g, dec, arg, dflt = _dec(kw.value, consts, bound, slvar)
        rows.append((kw.arg, g, dec, arg, dflt))
    return rows


def from_base(fn, consts):
    body = strip_doc(fn.body)
    if len(body) != 2:
        raise ExtractionError("%s: expected node_id assignment + set_properties" % fn.name)
    a, c = body
    if not (isinstance(a, ast.Assign) and _is_sliver_attr(a.targets[0]) == "node_id" and _dget(a.value, consts) == consts["NODE_ID"]):
        raise ExtractionError("%s: first statement is not sliver.node_id = d.get(NODE_ID, None)" % fn.name)
    if not (isinstance(c, ast.Expr) and isinstance(c.value, ast.Call) and isinstance(c.value.func, ast.Attribute)
            and c.value.func.attr == "set_properties" and getattr(c.value.func.value, "id", "") == "sliver"):
        raise ExtractionError("%s: second statement is not sliver.set_properties(...)" % fn.name)
    return _set_properties_rows(c.value, consts, {}, "sliver")


def from_kind(fn, consts, clsname):
    """-> (rows, has_children_block)"""
    body = strip_doc(fn.body)
    var = None
    bound = {}
    rows = []
    seen_base = False
    children = False
    i = 0
    while i < len(body):
        st = body[i]
        if isinstance(st, ast.Assign) and isinstance(st.value, ast.Call) and getattr(st.value.func, "id", "") == clsname \
                and not st.value.args and var is None:
            var = st.targets[0].id
        elif isinstance(st, ast.If) and _split_block(st, consts) is not None and not seen_base:
            bound.update(_split_block(st, consts))
        elif isinstance(st, ast.Expr) and isinstance(st.value, ast.Call) and isinstance(st.value.func, ast.Attribute) \
                and st.value.func.attr == BASE_FROM and [getattr(a, "id", None) for a in st.value.args] == [var, "d"]:
            seen_base = True
        elif isinstance(st, ast.Expr) and isinstance(st.value, ast.Call) and isinstance(st.value.func, ast.Attribute) \
                and st.value.func.attr == "set_properties" and getattr(st.value.func.value, "id", "") == var and seen_base:
            rows += _set_properties_rows(st.value, consts, bound, var)
        elif clsname == "InterfaceSliver" and isinstance(st, ast.Assign) and getattr(st.targets[0], "id", "") == "ifs" \
                and i + 1 < len(body) and isinstance(body[i + 1], ast.If):
            # ifs = d.get('interfaces', None); if ifs is not None and len(ifs) > 0: <rebuild children recursively>
            src = ast.unparse(st) + "\n" + ast.unparse(body[i + 1])
            want = ("ifs = d.get('interfaces', None)\nif ifs is not None and len(ifs) > 0:\n    ifi = InterfaceInfo()\n"
                    "    for i in ifs:\n        ifsl = ABCPropertyGraph.interface_sliver_from_graph_properties_dict(i)\n"
                    "        ifi.add_interface(ifsl)\n    %s.interface_info = ifi" % var)
            if src != want:
                raise ExtractionError("%s: child-interface block changed:\n%s" % (fn.name, src))
            children = True
            i += 1
        elif isinstance(st, ast.Return) and getattr(st.value, "id", "") == var and i == len(body) - 1:
            pass
        else:
            raise ExtractionError("%s: unrecognised statement %s" % (fn.name, _dump(st)))
        i += 1
    if var is None or not seen_base:
        raise ExtractionError("%s: constructor or base call missing" % fn.name)
    return rows, children


def setter_info(cls, key):
    """cls.set_<key> (resolved through the MRO): -> (attribute assigned, normaliser).  Read from the AST of the setter;
    where a rewrite leaves the recognised shapes the setter is probed instead (`_setter_probe`)."""
    try:
        return _setter_info_ast(cls, key)
    except ExtractionError as e:
        got = _setter_probe(cls, key)
        if got is None:
            raise e
        return got


def _setter_probe(cls, key):
    """the setter called on fresh objects with candidate values: which ONE attribute changes, and whether it holds the
    argument itself (`ident`), the tuple of a list argument (`tuple`) or the ip address object of a text (`ipAddress`);
    None where no candidate decides it"""
    import ipaddress
    cands = [(["pa", "pb"], None)] + [(v, None) for v, _ in _candidates()]
    seen = set()
    for c, _ in cands:
        o = cls()
        before = dict(vars(o))
        try:
            getattr(o, "set_" + key)(c)
        except Exception:
            continue
        changed = [a for a, v in vars(o).items() if a not in before or before[a] is not v]
        if len(changed) != 1:
            continue
        v = getattr(o, changed[0])
        if isinstance(c, tuple) and v is c:
            continue        # (tuple(t) is t for a tuple: says nothing)
        if v is c:
            seen.add((changed[0], "ident"))
        elif isinstance(c, list) and isinstance(v, tuple) and v == tuple(c):
            seen.add((changed[0], "tuple"))
        elif isinstance(c, tuple) and isinstance(v, tuple) and v == c:
            seen.add((changed[0], "tuple"))
        elif isinstance(c, str) and isinstance(v, (ipaddress.IPv4Address, ipaddress.IPv6Address)) and str(v) == c:
            seen.add((changed[0], "ipAddress"))
    # (a `tuple(...)` setter also returns an equal tuple for a tuple argument: `tuple` wins over nothing else)
    if len({a for a, _ in seen}) == 1:
        norms = {n for _, n in seen}
        if norms == {"ident"} or norms == {"tuple"} or norms == {"ipAddress"}:
            return seen.pop()
        if norms == {"ident", "ipAddress"}:        # an ip address object passes through, a text is converted
            return (next(iter(seen))[0], "ipAddress")
    return None


def _setter_info_ast(cls, key):
    fn = getattr(cls, "set_" + key)
    src = textwrap.dedent(inspect.getsource(fn))
    node = ast.parse(src).body[0]
    params = [a.arg for a in node.args.args]
    if len(params) != 2 or params[0] != "self":
        raise ExtractionError("setter set_%s: unexpected signature" % key)
    p = params[1]
    attrs, norms = set(), set()
    for st in ast.walk(node):
        if isinstance(st, ast.Assign):
            for t in st.targets:
                if isinstance(t, ast.Attribute) and getattr(t.value, "id", "") == "self":
                    attrs.add(t.attr)
                    v = st.value
                    if isinstance(v, ast.Name) and v.id == p:
                        norms.add("ident")
                    elif isinstance(v, ast.Constant) and v.value is None:
                        pass
                    elif isinstance(v, ast.Call) and getattr(v.func, "id", "") == "tuple" and getattr(v.args[0], "id", "") == p:
                        norms.add("tuple")
                    elif isinstance(v, ast.Call) and isinstance(v.func, ast.Attribute) and v.func.attr == "ip_address" \
                            and getattr(v.args[0], "id", "") == p:
                        norms.add("ipAddress")
                    else:
                        raise ExtractionError("setter set_%s: unrecognised assigned value %s" % (key, _dump(v)))
                elif isinstance(t, ast.Name):
                    pass    # local variable of a guard (e.g. m = re.match(...))
                else:
                    raise ExtractionError("setter set_%s assigns to something that is not self.<attr>" % key)
    if len(attrs) != 1 or len(norms) != 1:
        raise ExtractionError("setter set_%s: attrs=%s normalisers=%s" % (key, sorted(attrs), sorted(norms)))
    return attrs.pop(), norms.pop()



# --------------------------------------------------------------------------
# element routes: the attribute-style interface (python `property` objects) and the set / get / unset methods of every
# element class of fim.user, enumerated by introspection (so inheritance and overrides are what python resolves) and
# classified by *behavioural probes* on a stub instance whose set_property / set_properties / unset_property /
# get_property (and graph model) only record what they are called with.  No source text is matched: any rewrite that
# routes the same calls yields the same table; a rewrite that changes what reaches the store changes the table, and the
# theorems over it (`Proofs/C02.lean`, `routes_ok`) are re-checked.

SLIVER_FAMILY = {"node_sliver": "node", "component_sliver": "component", "network_service_sliver": "service",
                 "interface_sliver": "interface", "link_sliver": "link"}
PROBE_TEXT = '{"probe": [1, "x"]}'          # a str that is also a JSON text: every setter accepts it


class _Sentinel:
    """what the stub's get_property returns"""
    def __init__(self):
        self.data = object()


def element_classes():
    """every concrete subclass of ModelElement defined in a module of the fim.user package, in a stable order"""
    import importlib
    import pkgutil
    import fim.user as fu
    from fim.user.model_element import ModelElement
    found = {}
    for mi in sorted(pkgutil.iter_modules(fu.__path__), key=lambda m: m.name):
        m = importlib.import_module("fim.user." + mi.name)
        for name, c in sorted(vars(m).items()):
            if inspect.isclass(c) and issubclass(c, ModelElement) and c is not ModelElement and c.__module__ == m.__name__ \
                    and not inspect.isabstract(c):
                found[name] = c
    if not found:
        raise ExtractionError("no element classes found in fim.user")
    # parents before children, then by name
    return sorted(found.values(), key=lambda c: (len(c.__mro__), c.__name__))


def _stub(cls, with_topo=True, record=True):
    """an instance of `cls` made without its constructor; its set/get/unset methods record instead of acting"""
    from unittest import mock
    calls = []
    got = {}

    def rec_get(pname):
        calls.append(("get_property", pname))
        return got.setdefault(pname, _Sentinel())

    ns = {}
    if record:
        ns = {"set_property": lambda self, pname, pval: calls.append(("set_property", pname, pval)),
              "set_properties": lambda self, **kw: calls.append(("set_properties", dict(kw))),
              "unset_property": lambda self, pname: calls.append(("unset_property", pname)),
              "get_property": lambda self, pname: rec_get(pname)}
    sub = type("Probe" + cls.__name__, (cls,), ns)
    o = object.__new__(sub)
    o.__dict__["_name"] = "probe-name"
    o.__dict__["node_id"] = "probe-id"
    o.__dict__["_interfaces"] = []
    if with_topo:
        topo = mock.MagicMock()
        topo.graph_model.get_node_properties.return_value = (["probe-class"], {"probe": "props"})
        topo.graph_model.map_sliver_property_to_graph.side_effect = lambda p: {"details": "Details"}.get(p)
        o.__dict__["topo"] = topo
    return o, calls, got


def _gm_calls(o):
    return [(c[0], c[1], c[2]) for c in o.topo.graph_model.method_calls]


def _probe_methods(cls):
    """-> (kind, setNoneUnsets).  The four methods must have the shape the hand-written model mirrors
    (`Model/Sliver.lean`: setProperty / setProperties1 / getProperty / unsetProperty); what `set_property(p, None)` does is data."""
    import fim.slivers.base_sliver as bs
    name = cls.__name__
    # set_property(p, v): fresh sliver of the kind's class with p set -> <family>_to_graph_properties_dict -> update_node_properties
    o, calls, _ = _stub(cls, record=False)
    o.topo.graph_model.node_sliver_to_graph_properties_dict.return_value = {"Details": "x"}
    for fam in SLIVER_FAMILY:
        getattr(o.topo.graph_model, fam + "_to_graph_properties_dict").return_value = {"Details": "x"}
    try:
        cls.set_property(o, "details", "probe-details")
    except Exception as e:
        raise ExtractionError("%s.set_property('details', str) raises on the probe: %s: %s" % (name, type(e).__name__, e))
    gm = _gm_calls(o)
    if len(gm) != 2 or not gm[0][0].endswith("_to_graph_properties_dict") or gm[1][0] != "update_node_properties":
        raise ExtractionError("%s.set_property no longer is `to-graph dictionary of a fresh sliver, then update_node_properties`: %s" % (
            name, [g[0] for g in gm]))
    fam = gm[0][0][:-len("_to_graph_properties_dict")]
    if fam not in SLIVER_FAMILY:
        raise ExtractionError("%s.set_property writes through an unknown mapping function %s" % (name, gm[0][0]))
    kind = SLIVER_FAMILY[fam]
    sl = gm[0][1][0] if gm[0][1] else None
    if not isinstance(sl, bs.BaseSliver) or sl.get_property("details") != "probe-details" or sl.get_property("name") is not None:
        raise ExtractionError("%s.set_property does not hand a fresh sliver with just the property set to %s" % (name, gm[0][0]))
    if gm[1][2] != {"node_id": "probe-id", "props": {"Details": "x"}}:
        raise ExtractionError("%s.set_property does not update its own node with the mapped dictionary" % name)
    sliver_cls = type(sl)
    # set_properties(**kw): the same with all keywords on one fresh sliver
    o, calls, _ = _stub(cls, record=False)
    getattr(o.topo.graph_model, fam + "_to_graph_properties_dict").return_value = {"Details": "y"}
    cls.set_properties(o, details="probe-details", name="probe-n2")
    gm = _gm_calls(o)
    if [g[0] for g in gm] != [fam + "_to_graph_properties_dict", "update_node_properties"] or type(gm[0][1][0]) is not sliver_cls \
            or gm[0][1][0].get_property("details") != "probe-details" or gm[0][1][0].get_property("name") != "probe-n2" \
            or gm[1][2] != {"node_id": "probe-id", "props": {"Details": "y"}}:
        raise ExtractionError("%s.set_properties no longer is `fresh sliver.set_properties(**kw), to-graph, update_node_properties`" % name)
    # get_property(p): get_node_properties -> <family>_from_graph_properties_dict -> sliver.get_property(p)
    o, calls, _ = _stub(cls, record=False)
    back = getattr(o.topo.graph_model, fam + "_from_graph_properties_dict")
    back.return_value.get_property.return_value = "probe-result"
    r = cls.get_property(o, "details")
    gm = _gm_calls(o)
    if r != "probe-result" or [g[0] for g in gm[:2]] != ["get_node_properties", fam + "_from_graph_properties_dict"] \
            or gm[0][2] != {"node_id": "probe-id"} or gm[1][1] != ({"probe": "props"},):
        raise ExtractionError("%s.get_property no longer is `from-graph sliver of the node's properties .get_property(p)`" % name)
    # unset_property(p): mapped name -> unset_node_property, unmapped -> nothing
    o, calls, _ = _stub(cls, record=False)
    cls.unset_property(o, "details")
    gm = _gm_calls(o)
    if [g[0] for g in gm] != ["map_sliver_property_to_graph", "unset_node_property"] or \
            gm[1][2] != {"node_id": "probe-id", "prop_name": "Details"}:
        raise ExtractionError("%s.unset_property no longer unsets the mapped graph property of its own node" % name)
    o, calls, _ = _stub(cls, record=False)
    cls.unset_property(o, "no-such-property")
    if [g[0] for g in _gm_calls(o)] != ["map_sliver_property_to_graph"]:
        raise ExtractionError("%s.unset_property of an unmapped name no longer is a silent no-op" % name)
    # set_property(p, None): data
    o, calls, _ = _stub(cls, record=False)
    seen = []
    o.__dict__["unset_property"] = lambda pname: seen.append(pname)
    try:
        cls.set_property(o, "details", None)
        none_unsets = seen == ["details"] and not _gm_calls(o)
    except Exception:
        none_unsets = False
    return kind, none_unsets


def _probe_attr(cls, attr, prop):
    """-> dict(attr, prop, get, onValue, onNone, cls, partner, guarded) | None for a view (no property read)"""
    import fim.slivers.json_data as jd
    # getter
    o, calls, got = _stub(cls)
    try:
        r = prop.fget(o)
        raised = False
    except Exception:
        raised = True
        r = None
    if not raised and len(calls) == 1 and calls[0][0] == "get_property":
        p = calls[0][1]
        get = "plain" if r is got[p] else ("dataOf" if r is got[p].data else None)
        if get is None:
            raise ExtractionError("%s.%s reads get_property(%s) but returns something else" % (cls.__name__, attr, p))
    elif not raised and not calls and r == "probe-name":
        p, get = "name", "cached"
    else:
        if prop.fset is not None:
            raise ExtractionError("%s.%s has a setter but its getter is not a property read" % (cls.__name__, attr))
        return None
    if get != "cached":
        # without a topology the getter answers None and touches nothing
        o2, calls2, _ = _stub(cls, with_topo=False)
        if prop.fget(o2) is not None or calls2:
            raise ExtractionError("%s.%s reads the graph of an element that has no topology yet" % (cls.__name__, attr))
    out = {"attr": attr, "prop": p, "get": get, "onValue": "none", "onNone": "none", "cls": "", "partner": "", "cacheAfterWrite": True}
    if prop.fset is None:
        return out
    # setter, value
    o, calls, got = _stub(cls)
    prop.fset(o, PROBE_TEXT)
    if get == "cached" and o.__dict__["_name"] != PROBE_TEXT:
        raise ExtractionError("%s.%s setter does not cache the name" % (cls.__name__, attr))
    if len(calls) == 1 and calls[0][0] == "set_property" and calls[0][1] == p:
        v = calls[0][2]
        if v is PROBE_TEXT:
            out["onValue"] = "direct"
        elif isinstance(v, jd.JSONData) and v.json == PROBE_TEXT:
            out["onValue"], out["cls"] = "jsonWrap", type(v).__name__
            # a ready object of that class is passed on as it is; a python object is wrapped as well
            o3, calls3, _ = _stub(cls)
            inst = type(v)('{"inst": true}')
            prop.fset(o3, inst)
            o4, calls4, _ = _stub(cls)
            prop.fset(o4, {"raw": [0, False, ""]})
            if calls3 != [("set_property", p, inst)] or len(calls4) != 1 or type(calls4[0][2]) is not type(v) or \
                    calls4[0][2].data != {"raw": [0, False, ""]}:
                raise ExtractionError("%s.%s no longer wraps a python object / passes a %s on" % (cls.__name__, attr, type(v).__name__))
        else:
            raise ExtractionError("%s.%s = v hands set_property a transformed value %r" % (cls.__name__, attr, v))
    elif len(calls) == 2 and calls[0][0] == "get_property" and calls[1][0] == "set_properties" and \
            set(calls[1][1]) == {p, calls[0][1]} and calls[1][1][p] is PROBE_TEXT and calls[1][1][calls[0][1]] is got[calls[0][1]]:
        out["onValue"], out["partner"] = "pair", calls[0][1]
    else:
        raise ExtractionError("%s.%s = v reaches the store in an unrecognised way: %s" % (cls.__name__, attr, [c[:2] for c in calls]))
    # setter, None
    o, calls, got = _stub(cls)
    try:
        prop.fset(o, None)
    except Exception as e:
        raise ExtractionError("%s.%s = None raises before reaching the store: %s" % (cls.__name__, attr, type(e).__name__))
    if calls == [("set_property", p, None)]:
        out["onNone"] = "passNone"
    elif calls == [("unset_property", p)]:
        out["onNone"] = "unsets"
    elif len(calls) == 1 and calls[0][0] == "set_property" and calls[0][1] == p and calls[0][2] is not None:
        out["onNone"] = "wraps"
        if not out["cls"]:
            out["cls"] = type(calls[0][2]).__name__
    elif len(calls) == 2 and calls[0][0] == "get_property" and calls[1][0] == "set_properties" and \
            calls[1][1].get(p, 0) is None and set(calls[1][1]) == {p, calls[0][1]}:
        out["onNone"] = "pairNone"
        out["partner"] = calls[0][1]
    elif not calls:
        out["onNone"] = "ignores"
    else:
        raise ExtractionError("%s.%s = None reaches the store in an unrecognised way: %s" % (cls.__name__, attr, [c[:2] for c in calls]))
    # without a topology the setter touches nothing
    o2, calls2, _ = _stub(cls, with_topo=False)
    prop.fset(o2, PROBE_TEXT)
    if calls2:
        raise ExtractionError("%s.%s = v writes to the graph of an element that has no topology yet" % (cls.__name__, attr))
    if get == "cached":
        # is the cached name updated only after the store accepted the value?
        o5, _, _ = _stub(cls)

        def boom(pname, pval):
            raise RuntimeError("probe")
        o5.__dict__["set_property"] = boom
        try:
            prop.fset(o5, "probe-other")
        except RuntimeError:
            pass
        out["cacheAfterWrite"] = o5.__dict__["_name"] == "probe-name"
    return out


def element_routes():
    """[{name, kind, setNoneUnsets, routes: [...], views: [...]}] for every element class"""
    out = []
    for cls in element_classes():
        kind, none_unsets = _probe_methods(cls)
        routes, views = [], []
        for attr, prop in sorted(inspect.getmembers(cls, lambda x: isinstance(x, property))):
            r = _probe_attr(cls, attr, prop)
            if r is None:
                views.append(attr)
            else:
                routes.append(r)
        # setter-like methods the element model does not know about would be another route to the store
        known = {"set_property", "set_properties", "unset_property", "update_labels", "update_capacities"}
        extra = sorted(n for n, m in inspect.getmembers(cls, inspect.isfunction)
                       if n.startswith(("set_", "unset_", "update_")) and n not in known)
        if extra:
            raise ExtractionError("%s has setter-like methods the element model does not know: %s" % (cls.__name__, extra))
        out.append({"name": cls.__name__, "kind": kind, "setNoneUnsets": none_unsets, "routes": routes, "views": views})
    return out


def routes_lean(classes):
    body = """/-- what the getter of an attribute returns: `get_property(prop)`, its `.data`, or the cached `_name` -/
inductive GetForm | plain | dataOf | cached
  deriving DecidableEq, Repr, Inhabited
/-- how `el.<attr> = v` (v not None) reaches the store: no setter; `set_property(prop, v)`; `set_property(prop, cls(v))` unless
v already is a `cls`; `set_properties(prop=v, partner=get_property(partner))` -/
inductive OnValue | none | direct | jsonWrap | pair
  deriving DecidableEq, Repr, Inhabited
/-- what `el.<attr> = None` does: no setter; `set_property(prop, None)`; `unset_property(prop)`; `set_property(prop, <an object
made from None>)`; `set_properties(prop=None, partner=...)`; nothing -/
inductive OnNone | none | passNone | unsets | wraps | pairNone | ignores
  deriving DecidableEq, Repr, Inhabited

/-- one python `property` of an element class that reads a sliver property (probed on a recording stub) -/
structure AttrRoute where
  attr : String
  prop : String
  get : GetForm
  onValue : OnValue
  onNone : OnNone
  /-- wrapper class of `jsonWrap` / `wraps` -/
  cls : String
  /-- the other key of a `pair` route -/
  partner : String
  /-- (`cached` only) the cached name changes only after the store accepted the new one -/
  cacheAfterWrite : Bool
  deriving DecidableEq, Repr, Inhabited

/-- an element class: its sliver kind, whether `set_property(p, None)` is `unset_property(p)`, its attribute routes -/
structure ElemClass where
  name : String
  kind : String
  setNoneUnsets : Bool
  routes : List AttrRoute
  deriving DecidableEq, Repr, Inhabited

"""
    names = []
    for c in classes:
        rows = ["{ attr := %s, prop := %s, get := GetForm.%s, onValue := OnValue.%s, onNone := OnNone.%s, cls := %s, partner := %s, cacheAfterWrite := %s }" % (
            lean_str(r["attr"]), lean_str(r["prop"]), r["get"], r["onValue"], r["onNone"], lean_str(r["cls"]), lean_str(r["partner"]),
            "true" if r["cacheAfterWrite"] else "false") for r in c["routes"]]
        nm = "elem" + c["name"]
        body += "def %s : ElemClass :=\n  { name := %s, kind := %s, setNoneUnsets := %s,\n    routes := [\n      %s] }\n\n" % (
            nm, lean_str(c["name"]), lean_str(c["kind"]), "true" if c["setNoneUnsets"] else "false", ",\n      ".join(rows))
        names.append(nm)
    body += "def elemClasses : List ElemClass := %s\n\n" % lean_list(names)
    return body


# --------------------------------------------------------------------------
# behavioural probe of the mapping functions (cross-check of the AST reading, and its stand-in when a harmless
# rewrite - renamed locals, reshaped conditions, a helper - makes the AST patterns miss)
#
# For every setter name of a sliver class a sample value is found that the setter accepts and that survives
# to-function -> from-function; the to-row is what appears in the graph dictionary when only that property is set
# (or that pair of properties, for the comma-joined row), the encoder is identified by comparing the written text with
# what each encoder of the closed set yields, the decoder by what the from-function makes of that text.  A row that is
# written for the sample but not for the falsy-but-valid values of the same type (False, '', (), empty objects) is not
# expressible in the table language (`x is not None`) and is reported as an extraction error naming the value.


def _candidates():
    """[(value, [falsy values of the same type])] tried in order for every setter"""
    import fim.slivers.capacities_labels as cl
    import fim.slivers.delegations as dl
    import fim.slivers.tags as tg
    import fim.slivers.json_data as jd
    import fim.slivers.gateway as gw
    import fim.slivers.path_info as pi
    import fim.slivers.maintenance_mode as mm
    import fim.slivers.network_service as ns
    import fim.slivers.network_node as nn
    import fim.slivers.interface_info as ii
    import fim.slivers.attached_components as ac
    import fim.slivers.network_link as nl
    import ipaddress
    out = [("probe-text", [""]), ("192.168.7.7", []), (True, [False]), (("pa", "pb"), [()])]
    for e in (nn.NodeType, ac.ComponentType, ns.ServiceType, ii.InterfaceType, nl.LinkType, ns.NSLayer, ns.MirrorDirection):
        out.append((list(e)[1], []))
    out += [(cl.Capacities(core=2), []), (cl.Labels(vlan="100"), []), (cl.CapacityHints(instance_type="probe"), []),
            (cl.ReservationInfo(reservation_id="r"), []), (cl.StructuralInfo(sub_graph_id="g"), []),
            (cl.Location(postal="p"), []), (cl.Flags(ptp=True), [cl.Flags()]), (tg.Tags("probe"), [tg.Tags()]),
            (jd.MeasurementData('{"a": 1}'), [jd.MeasurementData("0")]), (jd.UserData('{"a": 1}'), [jd.UserData('""')]),
            (jd.LayoutData('{"a": 1}'), [jd.LayoutData("[]")]),
            (gw.Gateway(cl.Labels(ipv4="192.168.1.1", ipv4_subnet="192.168.1.0/24")), [])]
    p = pi.Path()
    p.set_symmetric(["a", "b"])
    e = pi.ERO(pi.PathRepresentationType.Path)
    e.set(payload=p)
    pinfo = pi.PathInfo(pi.PathRepresentationType.Path)
    pinfo.set(payload=p)
    out += [(e, []), (pinfo, [])]
    mi = mm.MaintenanceInfo()
    mi.add("probe", minfo=mm.MaintenanceEntry(state=mm.MaintenanceState.Maint))
    mi.finalize()
    out.append((mi, []))
    for at, det in ((dl.DelegationType.CAPACITY, cl.Capacities(core=1)), (dl.DelegationType.LABEL, cl.Labels(vlan="1"))):
        ds = dl.Delegations(atype=at)
        d = dl.Delegation(atype=at, aformat=dl.DelegationFormat.SinglePool, delegation_id="probe-del")
        d.set_details(det)
        ds.add_delegations(d)
        out.append((ds, []))
    out.append((ipaddress.ip_address("192.168.7.7"), []))
    return out


def _same(a, b):
    """two property values of a sliver denote the same thing (objects without __eq__ are compared by their text)"""
    if type(a) is not type(b):
        return False
    try:
        if a == b:
            return True
    except Exception:
        pass
    for m in ("to_json", ):
        if hasattr(a, m):
            try:
                if getattr(a, "type", None) != getattr(b, "type", None):
                    return False
                return getattr(a, m)() == getattr(b, m)()
            except Exception:
                return False
    if hasattr(a, "json"):
        return a.json == b.json
    return False


def _enc_of(v, w, pair=None):
    """which encoder of the closed set yields text `w` for value `v`"""
    import json as _json
    if pair is not None:
        a, b = pair
        return "commaJoin" if isinstance(a, str) and w == a + "," + str(b) else None
    if isinstance(v, str) and w == v:
        return "ident"
    if hasattr(v, "json") and not hasattr(v, "to_json") and w == v.json:
        return "jsonData"
    if hasattr(v, "to_json"):
        try:
            if w == v.to_json():
                return "toJson"
        except Exception:
            pass
    if isinstance(v, (bool, tuple, list)) or v is None:
        try:
            if w == _json.dumps(v):
                return "jsonDumps"
        except Exception:
            pass
    if w == str(v):
        return "str"
    return None


def probe_kind(kind, tofn, fromfn, pycls, settable, type_enum, enums):
    """-> (to-rows [(keys, gprop, enc, always)], from-rows [(key, gprop, dec, arg, absent)]) by behaviour alone"""
    import fim.graph.abc_property_graph as apg
    import fim.slivers.json_data as jd
    import enum as _enum
    G = apg.ABCPropertyGraph
    to = getattr(G, tofn)
    raw_back = getattr(G, fromfn)
    cands = _candidates()
    base = to(pycls())
    # the from-functions insist on a name: every probe dictionary carries one unless it says otherwise
    named = to(_with(pycls, {"name": "probe-nm"}))
    name_g = [g for g, w in named.items() if base.get(g) != w]
    if len(name_g) != 1:
        raise ExtractionError("%s: setting the name writes %s" % (tofn, name_g))
    name_g = name_g[0]

    def back(d):
        d2 = dict(d)
        d2.setdefault(name_g, "probe-nm")
        return raw_back(d2)

    none_sliver = back({})
    sample, falsy = {}, {}

    def with_props(kw):
        return _with(pycls, kw)

    # 1. a sample value per setter name: accepted by the setter, written as text, and read back as the same value
    alone_silent = []
    for k in settable:
        if k in STRUCTURAL_KEYS:
            continue
        found = False
        silent = False
        ann = _annotation(pycls, k)
        for v, fz in cands:
            if k == "type" and not isinstance(v, type_enum):
                continue
            if ann is not None and not isinstance(v, ann):
                continue
            try:
                s = with_props({k: v})
                d = to(s)
            except Exception:
                continue
            new = {g: w for g, w in d.items() if base.get(g) != w}
            if not new:
                silent = silent or isinstance(v, str)
                continue
            if len(new) != 1 or not all(isinstance(w, str) for w in new.values()):
                continue
            try:
                r = back(dict(d)).get_property(k)
            except Exception:
                continue
            if _same(r, s.get_property(k)):
                sample[k] = (v, list(new)[0], list(new.values())[0])
                falsy[k] = fz
                found = True
                break
        if not found:
            if silent:
                alone_silent.append(k)
            else:
                raise ExtractionError("%s: no sample value of the closed set survives %s -> %s for property `%s`" % (
                    pycls.__name__, tofn, fromfn, k))
    # 2. properties that are written only together (the comma-joined row)
    pairs = []
    rest = list(alone_silent)
    while rest:
        a = rest.pop(0)
        mate = None
        for b in rest:
            for x, y in ((a, b), (b, a)):
                d = to(with_props({x: "probe-x", y: "probe-y"}))
                new = {g: w for g, w in d.items() if base.get(g) != w}
                if len(new) == 1 and _enc_of(None, list(new.values())[0], pair=("probe-x", "probe-y")) == "commaJoin":
                    mate = (x, y, list(new)[0])
                    break
            if mate:
                break
        if mate is None:
            raise ExtractionError("%s: property `%s` is not written by %s, alone or with another one" % (pycls.__name__, a, tofn))
        rest.remove(mate[1] if mate[0] == a else mate[0])
        pairs.append(mate)
    # 3. to-rows
    trows = []
    for k, (v, g, w) in sample.items():
        enc = _enc_of(with_props({k: v}).get_property(k), w)
        if enc is None:
            raise ExtractionError("%s: the text %r written to %s for `%s` is not what any encoder of the closed set yields" % (tofn, w, g, k))
        # written whenever the value is not None?  (falsy-but-valid values of the same type)
        for fv in falsy[k]:
            try:
                fs = with_props({k: fv})
            except Exception:
                continue        # the setter's own validation rejects it (not a valid value of this property)
            try:
                d = to(fs)
            except Exception as e:
                raise ExtractionError("%s raises for the falsy value %r of `%s`: %s" % (tofn, fv, k, type(e).__name__))
            if g not in d or _enc_of(with_props({k: fv}).get_property(k), d[g]) != enc:
                raise ExtractionError("%s does not write %s for the falsy-but-valid value %r of `%s` (it does for %r): a row "
                                      "conditional on truthiness rather than `is not None` loses that value" % (tofn, g, fv, k, v))
        # the always-written row: there for a fresh sliver and for None
        always = False
        if g in base:
            try:
                dn = to(with_props({k: None}))
                always = g in dn
            except Exception:
                always = False
            if not always:
                # not an always-written row: the fresh sliver itself starts with a value for `k` (freshDefaults carries it)
                try:
                    starts_set = pycls().get_property(k) is not None
                except Exception:
                    starts_set = False
                if not starts_set:
                    raise ExtractionError("%s writes %s for a fresh sliver but not when `%s` is None" % (tofn, g, k))
        elif to(with_props({k: None}) if _accepts_none(pycls, k) else pycls()).get(g) is not None:
            raise ExtractionError("%s writes %s although `%s` is None" % (tofn, g, k))
        trows.append(([k], g, enc, always))
    for x, y, g in pairs:
        trows.append(([x, y], g, "commaJoin", False))
    extra = set(base) - {g for _, g, _, _ in trows}
    if extra:
        raise ExtractionError("%s writes %s for a fresh sliver; no setter accounts for it" % (tofn, sorted(extra)))
    # 4. from-rows
    frows = []
    for k, (v, g, w) in sample.items():
        r = back({g: w}).get_property(k)
        ab = none_sliver.get_property(k) if g != name_g else None
        absent = "none" if ab is None else ("boolFalse" if ab is False else "object")
        if isinstance(r, str) and r == w:
            dec, arg = "ident", ""
        elif isinstance(r, _enum.Enum):
            if k == "type":
                dec, arg = "typeFromStr", type(r).__name__
            else:
                dec, arg = "fromString", type(r).__name__
        elif isinstance(r, jd.JSONData):
            dec, arg = "jsonDataCtor", type(r).__name__
        elif isinstance(r, (bool, tuple, list)):
            dec, arg = "jsonLoads", ""
        elif hasattr(r, "to_json"):
            dec, arg = "fromJson", type(r).__name__
            if arg == "Delegations":
                arg += "." + r.type.name
        elif str(r) == w:
            dec, arg = "ident", ""          # the setter rebuilds the object from its text (ip address)
        else:
            raise ExtractionError("%s: what `%s` reads from %s=%r is not the work of a decoder of the closed set" % (fromfn, k, g, w))
        frows.append((k, g, dec, arg, absent))
    for x, y, g in pairs:
        d = {g: "a,b,c"}
        try:
            s = back(dict(d))
            parts = (s.get_property(x), s.get_property(y))
            dec = "commaRSplit" if parts == ("a,b", "c") else None
        except ValueError:
            dec = "commaSplit"
        if dec is None:
            raise ExtractionError("%s: %s is not split at its last comma" % (fromfn, g))
        for i, k in enumerate((x, y)):
            ab = none_sliver.get_property(k)
            frows.append((k, g, dec, str(i), "none" if ab is None else "object"))
    return trows, frows


STRUCTURAL_KEYS = {"network_service_info"}


def _annotation(pycls, k):
    """the declared parameter type of set_<k>, when it is a plain class (or a typing tuple)"""
    import typing
    try:
        ps = list(inspect.signature(getattr(pycls, "set_" + k)).parameters.values())
    except (TypeError, ValueError):
        return None
    if len(ps) != 2 or ps[1].annotation is inspect.Parameter.empty:
        return None
    a = ps[1].annotation
    if typing.get_origin(a) in (tuple, typing.Tuple):
        return tuple
    return a if inspect.isclass(a) else None


def _with(pycls, kw):
    s = pycls()
    for k, v in kw.items():
        getattr(s, "set_" + k)(v)
    return s


def _accepts_none(pycls, k):
    try:
        getattr(pycls(), "set_" + k)(None)
        return True
    except Exception:
        return False


def compare_rows(kind, ast_t, ast_f, pr_t, pr_f, sample_is_str):
    """the AST reading and the behaviour must tell the same table (`ident` and `str` coincide on strings)"""
    def norm_t(rows):
        out = {}
        for keys, g, enc, always in rows:
            e = "ident" if enc == "str" and all(sample_is_str.get(k, False) for k in keys) else enc
            out[g] = (tuple(keys), e, bool(always))
        return out
    a, b = norm_t(ast_t), norm_t(pr_t)
    if a != b:
        diff = sorted(g for g in set(a) | set(b) if a.get(g) != b.get(g))
        raise ExtractionError("%s: the to-table read from the AST and the one observed by probing differ at %s: %s vs %s" % (
            kind, diff, [a.get(g) for g in diff], [b.get(g) for g in diff]))
    fa = {k: (g, dec, arg, absent) for k, g, dec, arg, absent in ast_f}
    fb = {k: (g, dec, arg, absent) for k, g, dec, arg, absent in pr_f}
    if fa != fb:
        diff = sorted(k for k in set(fa) | set(fb) if fa.get(k) != fb.get(k))
        raise ExtractionError("%s: the from-table read from the AST and the one observed by probing differ at %s: %s vs %s" % (
            kind, diff, [fa.get(k) for k in diff], [fb.get(k) for k in diff]))



def fresh_defaults(pycls):
    """[(property, tag, text)] for every settable property a fresh `pycls()` does not read as None"""
    import enum
    out = []
    obj = pycls()
    for k in pycls.list_properties():
        try:
            v = obj.get_property(k)
        except Exception as e:
            try:        # (a settable name without a getter: the attribute its setter assigns)
                v = getattr(obj, setter_info(pycls, k)[0])
            except Exception:
                raise ExtractionError("%s().get_property(%s) raises %s" % (pycls.__name__, k, type(e).__name__))
        if v is None:
            continue
        if isinstance(v, bool):
            out.append((k, "bool", "true" if v else "false"))
        elif isinstance(v, enum.Enum):
            out.append((k, "enum:" + type(v).__name__, v.name))
        elif isinstance(v, str):
            out.append((k, "str", v))
        else:
            raise ExtractionError("a fresh %s starts with %s = %r: no representation in the model" % (pycls.__name__, k, v))
    return out


def _lean_row(fields):
    return "{ " + ", ".join("%s := %s" % kv for kv in fields) + " }"


def generate():
    tree, src = parse(REL)
    cls = find_class(tree, "ABCPropertyGraph")
    import fim.graph.abc_property_graph as apg
    import fim.slivers.network_node as nn
    import fim.slivers.network_service as ns
    import fim.slivers.interface_info as ii
    import fim.slivers.attached_components as ac
    import fim.slivers.network_link as nl
    from fim.graph.abc_property_graph_constants import ABCPropertyGraphConstants as K
    consts = {k: getattr(K, k) for k in dir(K) if k.isupper() or k.startswith(("PROP_", "CLASS_", "REL_"))}
    consts = {k: v for k, v in consts.items() if isinstance(v, str)}
    classes = {"NodeSliver": nn.NodeSliver, "ComponentSliver": ac.ComponentSliver, "NetworkServiceSliver": ns.NetworkServiceSliver,
               "InterfaceSliver": ii.InterfaceSliver, "NetworkLinkSliver": nl.NetworkLinkSliver}
    enums = {"NSLayer": ns.NSLayer, "MirrorDirection": ns.MirrorDirection}
    type_enums = {"NodeSliver": nn.NodeType, "ComponentSliver": ac.ComponentType, "NetworkServiceSliver": ns.ServiceType,
                  "InterfaceSliver": ii.InterfaceType, "NetworkLinkSliver": nl.LinkType}
    for en, e in enums.items():
        for m in e:
            if e.from_string(str(m)) is not m or str(m) != m.name:
                raise ExtractionError("%s.from_string does not resolve %s by name" % (en, m))
        if e.from_string("no-such-member") is not None:
            raise ExtractionError("%s.from_string accepts unknown names" % en)

    # SLIVER_PROPERTY_TO_GRAPH from the AST (dict literal of constants)
    unset = None
    for st in cls.body:
        if isinstance(st, ast.Assign) and getattr(st.targets[0], "id", "") == "SLIVER_PROPERTY_TO_GRAPH":
            if not isinstance(st.value, ast.Dict):
                raise ExtractionError("SLIVER_PROPERTY_TO_GRAPH is not a dict literal")
            unset = [(k.value, _const(v, consts)) for k, v in zip(st.value.keys, st.value.values)]
    if unset is None:
        raise ExtractionError("SLIVER_PROPERTY_TO_GRAPH not found")
    if dict(unset) != apg.ABCPropertyGraph.SLIVER_PROPERTY_TO_GRAPH:
        raise ExtractionError("SLIVER_PROPERTY_TO_GRAPH literal differs from the imported value")
    mp = find_func(cls, "map_sliver_property_to_graph")
    if ast.unparse(strip_doc(mp.body)[0]) != "return ABCPropertyGraph.SLIVER_PROPERTY_TO_GRAPH.get(prop_name, None)":
        raise ExtractionError("map_sliver_property_to_graph changed")
    no_unset = list(K.NO_UNSET_PROPERTIES)

    # the AST reading of the mapping functions; where a function does not have the recognised shape the behavioural
    # probe (`probe_kind`) stands in for it, where it has, the probe cross-checks it
    base_err = None
    try:
        base_is_base, base_to = to_rows(find_func(cls, BASE_TO), consts)
        if base_is_base:
            raise ExtractionError("base to-function calls itself")
        base_from = from_base(find_func(cls, BASE_FROM), consts)
    except ExtractionError as e:
        base_err = e

    report = {"kinds": {}, "span": span_hash(src, cls), "ast_fallback": {}}
    body = """inductive Enc | ident | str | toJson | jsonDumps | jsonData | commaJoin
  deriving DecidableEq, Repr, Inhabited
inductive Dec | ident | typeFromStr | fromString | fromJson | jsonLoads | jsonDataCtor | commaSplit | commaRSplit
  deriving DecidableEq, Repr, Inhabited
inductive Norm | ident | tuple | ipAddress
  deriving DecidableEq, Repr, Inhabited
/-- what the decoder of a from-row yields when the graph property is absent -/
inductive Absent | none | boolFalse | object
  deriving DecidableEq, Repr, Inhabited

/-- `if hasattr(sliver, a..) and sliver.a is not None ..: prop_dict[gprop] = enc(sliver.a ..)`; `keys` are the setter
names of the attributes read (attribute -> setter via the AST of the sliver class's `set_*`). -/
structure ToRow where
  keys : List String
  attrs : List String
  gprop : String
  enc : Enc
  always : Bool
  deriving DecidableEq, Repr, Inhabited

/-- `set_properties(key = dec(d.get(gprop)))`; `arg` = decoder class / tuple index; `norm` = what `set_<key>` stores;
`noneOk` = `set_<key>(None)` does not raise. -/
structure FromRow where
  key : String
  gprop : String
  dec : Dec
  arg : String
  absent : Absent
  norm : Norm
  noneOk : Bool
  deriving DecidableEq, Repr, Inhabited

structure KindTable where
  kind : String
  cls : String
  toRows : List ToRow
  fromRows : List FromRow
  /-- `list_properties()` of the sliver class -/
  settable : List String
  /-- the from-function rebuilds child interfaces from the 'interfaces' key -/
  recursiveChildren : Bool
  /-- member names of the enum `type_from_str` resolves into (probed: name -> member, anything else -> None) -/
  typeEnum : String
  typeMembers : List String
  deriving Repr, Inhabited

"""
    tables = []
    for kind, tofn, fromfn, clsname in KINDS:
        pycls = classes[clsname]
        settable = list(pycls.list_properties())
        tenum = type_enums[clsname]
        for m in tenum:
            if pycls.type_from_str(str(m)) is not m or str(m) != m.name:
                raise ExtractionError("%s.type_from_str does not resolve %s by name" % (clsname, m))
        if pycls.type_from_str("no-such-member") is not None:
            raise ExtractionError("%s.type_from_str accepts unknown names" % clsname)
        # attribute -> setter key through the setters of this class
        attr2key, norm_of, none_ok = {}, {}, {}
        for k in settable:
            a, n = setter_info(pycls, k)
            if a in attr2key:
                raise ExtractionError("%s: attribute %s assigned by two setters" % (clsname, a))
            attr2key[a] = k
            norm_of[k] = n
            try:
                getattr(pycls(), "set_" + k)(None)
                none_ok[k] = True
            except Exception:
                none_ok[k] = False
        key2attr = {k: a for a, k in attr2key.items()}
        # (a) the AST reading
        ast_err = base_err
        ast_t = ast_f = None
        children = None
        if ast_err is None:
            try:
                inh, rows = to_rows(find_func(cls, tofn), consts)
                if not inh:
                    raise ExtractionError("%s does not start from the base dictionary" % tofn)
                ast_t = []
                for attrs, g, enc, always in base_to + rows:
                    for a in attrs:
                        if a not in attr2key:
                            raise ExtractionError("%s: to-row reads attribute %s which no setter of %s assigns" % (tofn, a, clsname))
                    ast_t.append(([attr2key[a] for a in attrs], g, enc, always))
                frows, children = from_kind(find_func(cls, fromfn), consts, clsname)
                ast_f = []
                for key, g, dec, arg, dflt in base_from + frows:
                    if key not in norm_of:
                        raise ExtractionError("%s: set_properties(%s=...) but %s has no such setter" % (fromfn, key, clsname))
                    # what does the decoder yield for an absent property?
                    if dec == "typeFromStr":
                        arg = tenum.__name__
                    if dec in ("ident", "commaSplit", "commaRSplit"):
                        absent = "none"
                    elif dec in ("jsonLoads", "jsonDataCtor"):
                        absent = "none" if dflt is None else "boolFalse"
                    elif dec == "typeFromStr":
                        absent = "none" if pycls.type_from_str(None) is None else "object"
                    elif dec == "fromString":
                        if arg not in enums:
                            raise ExtractionError("unknown enum %s" % arg)
                        absent = "none" if enums[arg].from_string(None) is None else "object"
                    elif dec == "fromJson":
                        owner = arg.split(".")[0]
                        c = getattr(apg, owner, None)
                        if c is None:
                            raise ExtractionError("unknown codec class %s" % owner)
                        if "." in arg:
                            v = c.from_json(json_str=None, atype=getattr(apg.DelegationType, arg.split(".")[1]))
                        else:
                            v = c.from_json(None)
                        absent = "none" if v is None else "object"
                    else:
                        raise ExtractionError("decoder %s" % dec)
                    ast_f.append((key, g, dec, arg, absent))
            except ExtractionError as e:
                ast_err = e
        # (b) the behavioural probe
        pr_t, pr_f = probe_kind(kind, tofn, fromfn, pycls, settable, tenum, enums)
        pr_children = False
        if kind == "interface":
            try:
                ps = getattr(apg.ABCPropertyGraph, fromfn)({consts["PROP_NAME"]: "probe-p", "interfaces": [{consts["PROP_NAME"]: "probe-c"}]})
                ii_ = getattr(ps, "interface_info", None)
                pr_children = ii_ is not None and list(ii_.interfaces) == ["probe-c"]
            except Exception:
                pr_children = False
        if ast_err is None:
            str_sample = {}
            for keys, g, enc, always in pr_t:
                for k in keys:
                    str_sample[k] = enc in ("ident", "commaJoin")
            compare_rows(kind, ast_t, ast_f, pr_t, pr_f, str_sample)
            if bool(children) != pr_children:
                raise ExtractionError("%s: the AST says child interfaces are %srebuilt from the 'interfaces' key, probing says otherwise" % (
                    fromfn, "" if children else "not "))
            use_t, use_f = ast_t, ast_f
        else:
            # a rewrite the patterns do not know: the observed table stands in (noted in the evidence, not an alarm)
            report["ast_fallback"][kind] = str(ast_err)[:300]
            order = {k: i for i, k in enumerate(settable)}
            use_t = sorted(pr_t, key=lambda r: order.get(r[0][0], 99))
            use_f = sorted(pr_f, key=lambda r: order.get(r[0], 99))
            children = pr_children
        lt = []
        for keys, g, enc, always in use_t:
            lt.append(_lean_row([("keys", lean_list([lean_str(k) for k in keys])),
                                 ("attrs", lean_list([lean_str(key2attr[k]) for k in keys])), ("gprop", lean_str(g)),
                                 ("enc", "Enc." + enc), ("always", "true" if always else "false")]))
        lf = []
        for key, g, dec, arg, absent in use_f:
            lf.append(_lean_row([("key", lean_str(key)), ("gprop", lean_str(g)), ("dec", "Dec." + dec), ("arg", lean_str(arg)),
                                 ("absent", "Absent." + absent), ("norm", "Norm." + norm_of[key]),
                                 ("noneOk", "true" if none_ok[key] else "false")]))
        trows, frows = use_t, use_f
        body += "def %sTable : KindTable :=\n  { kind := %s, cls := %s,\n    toRows := [\n      %s],\n    fromRows := [\n      %s],\n    settable := %s,\n    recursiveChildren := %s,\n    typeEnum := %s, typeMembers := %s }\n\n" % (
            kind, lean_str(kind), lean_str(clsname), ",\n      ".join(lt), ",\n      ".join(lf),
            lean_list([lean_str(s) for s in settable]), "true" if children else "false",
            lean_str(tenum.__name__), lean_list([lean_str(m.name) for m in tenum]))
        tables.append(kind + "Table")
        report["kinds"][kind] = {"to": len(trows), "from": len(frows), "settable": len(settable)}
    body += "def tables : List KindTable := %s\n\n" % lean_list(tables)
    # what a sliver object of each class holds before any setter ran (behavioural probe: `Cls()` read through its own
    # getters).  `<Element>.set_property` writes the COMPLETE dictionary of such a fresh sliver with the one property set, so
    # every non-None entry here is rewritten into the graph by every write of any other property.
    fresh_rows = []
    report["fresh"] = {}
    for kind, tofn, fromfn, clsname in KINDS:
        fresh_rows.append("(%s, %s)" % (lean_str(kind), lean_list(
            ["(%s, %s, %s)" % (lean_str(k), lean_str(tag), lean_str(text)) for k, tag, text in fresh_defaults(classes[clsname])])))
        report["fresh"][kind] = [k for k, _, _ in fresh_defaults(classes[clsname])]
    body += ("/-- `<SliverClass>()` before any setter ran: kind -> [(property, tag, text)] for every settable property that does not\n"
             "read None (tag: `bool` | `str` | `enum:<EnumClass>`) - probed -/\n"
             "def freshDefaults : List (String × List (String × String × String)) :=\n  %s\n\n" % lean_list(fresh_rows))
    body += "/-- `SLIVER_PROPERTY_TO_GRAPH` (used by `unset_property`) -/\ndef unsetMap : List (String × String) :=\n  %s\n\n" % lean_list(
        ["(%s, %s)" % (lean_str(k), lean_str(v)) for k, v in unset])
    body += "/-- enums decoded with `from_string` (probed: name -> member, anything else -> None) -/\ndef enums : List (String × List String) := %s\n\n" % lean_list(
        ["(%s, %s)" % (lean_str(en), lean_list([lean_str(m.name) for m in e]))
         for en, e in list(enums.items()) + [(e.__name__, e) for e in type_enums.values()]])
    body += "/-- `NO_UNSET_PROPERTIES` -/\ndef noUnset : List String := %s\n\n" % lean_list([lean_str(s) for s in no_unset])
    body += "def nodeIdProp : String := %s\n\n" % lean_str(consts["NODE_ID"])
    classes = element_routes()
    body += routes_lean(classes)
    report["routes"] = {c["name"]: {"kind": c["kind"], "attrs": len(c["routes"]), "settable": sum(1 for r in c["routes"] if r["onValue"] != "none"),
                                     "views": c["views"], "setNoneUnsets": c["setNoneUnsets"]} for c in classes}

    # structural idioms that the hand-written model mirrors: pin their text
    pins = {}
    for name in ("sliver_to_dict", "build_deep_node_sliver_from_dict", "build_deep_ns_sliver_from_dict",
                 "build_deep_component_sliver_from_dict", "build_deep_interface_sliver_from_dict",
                 "build_deep_link_sliver_from_dict", "build_deep_node_sliver", "build_deep_ns_sliver",
                 "build_deep_component_sliver", "build_deep_interface_sliver", "build_deep_link_sliver",
                 "add_network_node_sliver", "add_network_link_sliver", "add_component_sliver",
                 "add_network_service_sliver", "add_interface_sliver"):
        pins[name] = span_hash(src, find_func(cls, name))
    report["structural_spans"] = pins
    report["unset"] = len(unset)
    report["changed"] = emit("SliverMap", body)
    return report
