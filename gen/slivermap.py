"""Translate the sliver <-> graph-property mapping of fim.graph.abc_property_graph into Lean tables.

Recognised idioms (anything else in the mapping functions is an ExtractionError):

  to-graph (`*_sliver_to_graph_properties_dict`):
      prop_dict = dict()  |  prop_dict = ABCPropertyGraph.base_sliver_to_graph_properties_dict(sliver)
      if hasattr(sliver, 'A') and sliver.A is not None:  prop_dict[ABCPropertyGraph.PROP_X] = ENC(sliver.A)
      if hasattr(sliver, 'A'):                           prop_dict[...] = json.dumps(sliver.A)      (always written)
      if hasattr(sliver,'A') and hasattr(sliver,'B') and sliver.A is not None and sliver.B is not None:
                                                         prop_dict[...] = sliver.A + ',' + str(sliver.B)
      return prop_dict
      ENC ::= sliver.A | str(sliver.A) | sliver.A.to_json() | json.dumps(sliver.A) | sliver.A.json

  from-graph (`set_base_sliver_properties_from_graph_properties_dict`, `*_sliver_from_graph_properties_dict`):
      sliver.node_id = d.get(ABCPropertyGraph.NODE_ID, None)
      X = Cls()
      if d.get(P, None) is None: a = None; b = None  else: a, b = d[P].split(',') | d[P].rsplit(',', 1)
      ABCPropertyGraph.set_base_sliver_properties_from_graph_properties_dict(X, d)
      X.set_properties(k=DEC, ...)
      (interface only) the recursive 'interfaces' block
      return X
      DEC ::= d.get(P[, None]) | sliver.type_from_str(d.get(P, None)) | Cls.from_json(d.get(P, None))
            | Delegations.from_json(atype=DelegationType.T, json_str=d.get(P, None)) | Enum.from_string(d.get(P[, None]))
            | json.loads(d[P]) if d.get(P, None) is not None else None|False
            | Cls(d[P]) if d.get(P, None) is not None else None | <name bound by the split block>

  setters (`set_<k>` of the sliver classes, following the MRO): exactly one instance attribute is assigned; the
  assigned value is the parameter, `tuple(param)`, `ipaddress.ip_address(param)` or None; everything else in the
  setter (asserts, validation raising ValueError, `finalize()`) is a guard, probed dynamically with None.

Dynamic probes (the module is imported): values of the PROP_* constants, `list_properties()` of every class,
what each decoder returns for an absent property, whether each setter accepts None.
"""
import ast
import inspect
import textwrap

from .common import *

REL = "fim/graph/abc_property_graph.py"

KINDS = [  # (kind, to-function, from-function, sliver class name)
    ("node", "node_sliver_to_graph_properties_dict", "node_sliver_from_graph_properties_dict", "NodeSliver"),
    ("component", "component_sliver_to_graph_properties_dict", "component_sliver_from_graph_properties_dict", "ComponentSliver"),
    ("service", "network_service_sliver_to_graph_properties_dict", "network_service_sliver_from_graph_properties_dict", "NetworkServiceSliver"),
    ("interface", "interface_sliver_to_graph_properties_dict", "interface_sliver_from_graph_properties_dict", "InterfaceSliver"),
    ("link", "link_sliver_to_graph_properties_dict", "link_sliver_from_graph_properties_dict", "NetworkLinkSliver"),
]
BASE_TO = "base_sliver_to_graph_properties_dict"
BASE_FROM = "set_base_sliver_properties_from_graph_properties_dict"


def _dump(n):
    return ast.dump(n)[:160]


def _const(node, consts):
    """ABCPropertyGraph.PROP_X / ABCPropertyGraphConstants.PROP_X / 'literal' -> string value"""
    if isinstance(node, ast.Constant) and isinstance(node.value, str):
        return node.value
    if isinstance(node, ast.Attribute) and isinstance(node.value, ast.Name) and \
            node.value.id in ("ABCPropertyGraph", "ABCPropertyGraphConstants"):
        if node.attr not in consts:
            raise ExtractionError("unknown graph constant %s" % node.attr)
        return consts[node.attr]
    raise ExtractionError("not a graph property constant: %s" % _dump(node))


def _is_sliver_attr(node, var="sliver"):
    if isinstance(node, ast.Attribute) and isinstance(node.value, ast.Name) and node.value.id == var:
        return node.attr
    return None


def _enc(node):
    """encoder expression -> (enc kind, [attrs])"""
    a = _is_sliver_attr(node)
    if a:
        return "ident", [a]
    if isinstance(node, ast.Call) and isinstance(node.func, ast.Name) and node.func.id == "str" and len(node.args) == 1 \
            and not node.keywords and _is_sliver_attr(node.args[0]):
        return "str", [_is_sliver_attr(node.args[0])]
    if isinstance(node, ast.Call) and isinstance(node.func, ast.Attribute) and node.func.attr == "to_json" \
            and not node.args and not node.keywords and _is_sliver_attr(node.func.value):
        return "toJson", [_is_sliver_attr(node.func.value)]
    if isinstance(node, ast.Call) and isinstance(node.func, ast.Attribute) and node.func.attr == "dumps" \
            and isinstance(node.func.value, ast.Name) and node.func.value.id == "json" and len(node.args) == 1 \
            and not node.keywords and _is_sliver_attr(node.args[0]):
        return "jsonDumps", [_is_sliver_attr(node.args[0])]
    if isinstance(node, ast.Attribute) and node.attr == "json" and _is_sliver_attr(node.value):
        return "jsonData", [_is_sliver_attr(node.value)]
    # sliver.A + ',' + str(sliver.B)
    if isinstance(node, ast.BinOp) and isinstance(node.op, ast.Add) and isinstance(node.left, ast.BinOp) \
            and isinstance(node.left.op, ast.Add) and _is_sliver_attr(node.left.left) \
            and isinstance(node.left.right, ast.Constant) and node.left.right.value == "," \
            and isinstance(node.right, ast.Call) and getattr(node.right.func, "id", "") == "str" \
            and len(node.right.args) == 1 and _is_sliver_attr(node.right.args[0]):
        return "commaJoin", [_is_sliver_attr(node.left.left), _is_sliver_attr(node.right.args[0])]
    raise ExtractionError("unrecognised encoder expression: %s" % _dump(node))


def _test_parts(test):
    """condition of a to-graph `if` -> (set of hasattr attrs, set of `is not None` attrs)"""
    parts = test.values if isinstance(test, ast.BoolOp) and isinstance(test.op, ast.And) else [test]
    has, notnone = [], []
    for p in parts:
        if isinstance(p, ast.Call) and getattr(p.func, "id", "") == "hasattr" and len(p.args) == 2 \
                and getattr(p.args[0], "id", "") == "sliver" and isinstance(p.args[1], ast.Constant):
            has.append(p.args[1].value)
        elif isinstance(p, ast.Compare) and len(p.ops) == 1 and isinstance(p.ops[0], ast.IsNot) \
                and isinstance(p.comparators[0], ast.Constant) and p.comparators[0].value is None and _is_sliver_attr(p.left):
            notnone.append(_is_sliver_attr(p.left))
        else:
            raise ExtractionError("unrecognised to-graph condition part: %s" % _dump(p))
    return has, notnone


def to_rows(fn, consts):
    """-> (inherits_base, [ (attrs, gprop, enc, always) ])"""
    body = strip_doc(fn.body)
    if len(body) < 2:
        raise ExtractionError("%s: too short" % fn.name)
    first, last = body[0], body[-1]
    if not (isinstance(first, ast.Assign) and len(first.targets) == 1 and getattr(first.targets[0], "id", "") == "prop_dict"
            and isinstance(first.value, ast.Call)):
        raise ExtractionError("%s: first statement is not prop_dict = ..." % fn.name)
    f = first.value.func
    if isinstance(f, ast.Name) and f.id == "dict" and not first.value.args:
        base = False
    elif isinstance(f, ast.Attribute) and f.attr == BASE_TO and len(first.value.args) == 1 \
            and getattr(first.value.args[0], "id", "") == "sliver":
        base = True
    else:
        raise ExtractionError("%s: prop_dict initialiser not recognised" % fn.name)
    if not (isinstance(last, ast.Return) and getattr(last.value, "id", "") == "prop_dict"):
        raise ExtractionError("%s: does not end with return prop_dict" % fn.name)
    rows = []
    for st in body[1:-1]:
        if not (isinstance(st, ast.If) and not st.orelse and len(st.body) == 1):
            raise ExtractionError("%s: unrecognised statement %s" % (fn.name, _dump(st)))
        asg = st.body[0]
        if not (isinstance(asg, ast.Assign) and len(asg.targets) == 1 and isinstance(asg.targets[0], ast.Subscript)
                and getattr(asg.targets[0].value, "id", "") == "prop_dict"):
            raise ExtractionError("%s: if-body is not prop_dict[P] = ...: %s" % (fn.name, _dump(asg)))
        gprop = _const(asg.targets[0].slice, consts)
        enc, attrs = _enc(asg.value)
        has, notnone = _test_parts(st.test)
        if sorted(has) != sorted(attrs):
            raise ExtractionError("%s: hasattr checks %s do not cover encoder attributes %s" % (fn.name, has, attrs))
        if sorted(notnone) == sorted(attrs):
            always = False
        elif not notnone and enc == "jsonDumps":
            always = True
        else:
            raise ExtractionError("%s: None checks %s do not match encoder attributes %s" % (fn.name, notnone, attrs))
        rows.append((attrs, gprop, enc, always))
    return base, rows


def _dget(node, consts, dvar="d"):
    """d.get(P) / d.get(P, None) -> P"""
    if isinstance(node, ast.Call) and isinstance(node.func, ast.Attribute) and node.func.attr == "get" \
            and getattr(node.func.value, "id", "") == dvar and not node.keywords and len(node.args) in (1, 2):
        if len(node.args) == 2 and not (isinstance(node.args[1], ast.Constant) and node.args[1].value is None):
            return None
        return _const(node.args[0], consts)
    return None


def _dsub(node, consts, dvar="d"):
    if isinstance(node, ast.Subscript) and getattr(node.value, "id", "") == dvar:
        return _const(node.slice, consts)
    return None


def _dec(node, consts, bound, slvar):
    """decoder expression -> (gprop, dec kind, class-or-arg string, else-constant for the conditional forms)"""
    g = _dget(node, consts)
    if g:
        return g, "ident", "", None
    if isinstance(node, ast.Name) and node.id in bound:
        g, idx, how = bound[node.id]
        return g, how, str(idx), None
    if isinstance(node, ast.Call) and isinstance(node.func, ast.Attribute):
        f = node.func
        owner = getattr(f.value, "id", None)
        if f.attr == "type_from_str" and owner == slvar and len(node.args) == 1 and _dget(node.args[0], consts):
            return _dget(node.args[0], consts), "typeFromStr", "", None
        if f.attr == "from_string" and owner and len(node.args) == 1 and not node.keywords and _dget(node.args[0], consts):
            return _dget(node.args[0], consts), "fromString", owner, None
        if f.attr == "from_json" and owner:
            if len(node.args) == 1 and not node.keywords and _dget(node.args[0], consts):
                return _dget(node.args[0], consts), "fromJson", owner, None
            kws = {k.arg: k.value for k in node.keywords}
            if not node.args and set(kws) == {"atype", "json_str"} and _dget(kws["json_str"], consts) \
                    and isinstance(kws["atype"], ast.Attribute) and getattr(kws["atype"].value, "id", "") == "DelegationType":
                return _dget(kws["json_str"], consts), "fromJson", owner + "." + kws["atype"].attr, None
    if isinstance(node, ast.IfExp):
        t = node.test
        if isinstance(t, ast.Compare) and len(t.ops) == 1 and isinstance(t.ops[0], ast.IsNot) \
                and isinstance(t.comparators[0], ast.Constant) and t.comparators[0].value is None and _dget(t.left, consts) \
                and isinstance(node.orelse, ast.Constant) and node.orelse.value in (None, False):
            g = _dget(t.left, consts)
            b = node.body
            if isinstance(b, ast.Call) and len(b.args) == 1 and not b.keywords and _dsub(b.args[0], consts) == g:
                if isinstance(b.func, ast.Attribute) and b.func.attr == "loads" and getattr(b.func.value, "id", "") == "json":
                    return g, "jsonLoads", "", node.orelse.value
                if isinstance(b.func, ast.Name) and node.orelse.value is None:
                    return g, "jsonDataCtor", b.func.id, None
    raise ExtractionError("unrecognised decoder expression: %s" % _dump(node))


def _split_block(st, consts):
    """if d.get(P, None) is None: a = None; b = None  else: a, b = d[P].split(',')  -> {name: (P, idx, how)}"""
    if not (isinstance(st, ast.If) and isinstance(st.test, ast.Compare) and len(st.test.ops) == 1
            and isinstance(st.test.ops[0], ast.Is) and isinstance(st.test.comparators[0], ast.Constant)
            and st.test.comparators[0].value is None and _dget(st.test.left, consts)):
        return None
    g = _dget(st.test.left, consts)
    names = []
    for a in st.body:
        if not (isinstance(a, ast.Assign) and len(a.targets) == 1 and isinstance(a.targets[0], ast.Name)
                and isinstance(a.value, ast.Constant) and a.value.value is None):
            raise ExtractionError("split block: then-branch is not `x = None`")
        names.append(a.targets[0].id)
    if len(st.orelse) != 1 or not isinstance(st.orelse[0], ast.Assign) or not isinstance(st.orelse[0].targets[0], ast.Tuple):
        raise ExtractionError("split block: else-branch is not `a, b = ...`")
    tgt = [e.id for e in st.orelse[0].targets[0].elts]
    if tgt != names or len(tgt) != 2:
        raise ExtractionError("split block: names differ between branches")
    v = st.orelse[0].value
    if not (isinstance(v, ast.Call) and isinstance(v.func, ast.Attribute) and _dsub(v.func.value, consts) == g
            and v.args and isinstance(v.args[0], ast.Constant) and v.args[0].value == ","):
        raise ExtractionError("split block: not a split on ','")
    if v.func.attr == "split" and len(v.args) == 1:
        how = "commaSplit"
    elif v.func.attr == "rsplit" and len(v.args) == 2 and isinstance(v.args[1], ast.Constant) and v.args[1].value == 1:
        how = "commaRSplit"
    else:
        raise ExtractionError("split block: unrecognised split call %s" % _dump(v))
    return {n: (g, i, how) for i, n in enumerate(tgt)}


def _set_properties_rows(call, consts, bound, slvar):
    if call.args:
        raise ExtractionError("set_properties with positional arguments")
    rows = []
    for kw in call.keywords:
        if kw.arg is None:
            raise ExtractionError("set_properties(**x) not recognised")
        g, dec, arg, dflt = _dec(kw.value, consts, bound, slvar)
        rows.append((kw.arg, g, dec, arg, dflt))
    return rows


def from_base(fn, consts):
    body = strip_doc(fn.body)
    if len(body) != 2:
        raise ExtractionError("%s: expected node_id assignment + set_properties" % fn.name)
    a, c = body
    if not (isinstance(a, ast.Assign) and _is_sliver_attr(a.targets[0]) == "node_id" and _dget(a.value, consts) == consts["NODE_ID"]):
        raise ExtractionError("%s: first statement is not sliver.node_id = d.get(NODE_ID, None)" % fn.name)
    if not (isinstance(c, ast.Expr) and isinstance(c.value, ast.Call) and isinstance(c.value.func, ast.Attribute)
            and c.value.func.attr == "set_properties" and getattr(c.value.func.value, "id", "") == "sliver"):
        raise ExtractionError("%s: second statement is not sliver.set_properties(...)" % fn.name)
    return _set_properties_rows(c.value, consts, {}, "sliver")


def from_kind(fn, consts, clsname):
    """-> (rows, has_children_block)"""
    body = strip_doc(fn.body)
    var = None
    bound = {}
    rows = []
    seen_base = False
    children = False
    i = 0
    while i < len(body):
        st = body[i]
        if isinstance(st, ast.Assign) and isinstance(st.value, ast.Call) and getattr(st.value.func, "id", "") == clsname \
                and not st.value.args and var is None:
            var = st.targets[0].id
        elif isinstance(st, ast.If) and _split_block(st, consts) is not None and not seen_base:
            bound.update(_split_block(st, consts))
        elif isinstance(st, ast.Expr) and isinstance(st.value, ast.Call) and isinstance(st.value.func, ast.Attribute) \
                and st.value.func.attr == BASE_FROM and [getattr(a, "id", None) for a in st.value.args] == [var, "d"]:
            seen_base = True
        elif isinstance(st, ast.Expr) and isinstance(st.value, ast.Call) and isinstance(st.value.func, ast.Attribute) \
                and st.value.func.attr == "set_properties" and getattr(st.value.func.value, "id", "") == var and seen_base:
            rows += _set_properties_rows(st.value, consts, bound, var)
        elif clsname == "InterfaceSliver" and isinstance(st, ast.Assign) and getattr(st.targets[0], "id", "") == "ifs" \
                and i + 1 < len(body) and isinstance(body[i + 1], ast.If):
            # ifs = d.get('interfaces', None); if ifs is not None and len(ifs) > 0: <rebuild children recursively>
            src = ast.unparse(st) + "\n" + ast.unparse(body[i + 1])
            want = ("ifs = d.get('interfaces', None)\nif ifs is not None and len(ifs) > 0:\n    ifi = InterfaceInfo()\n"
                    "    for i in ifs:\n        ifsl = ABCPropertyGraph.interface_sliver_from_graph_properties_dict(i)\n"
                    "        ifi.add_interface(ifsl)\n    %s.interface_info = ifi" % var)
            if src != want:
                raise ExtractionError("%s: child-interface block changed:\n%s" % (fn.name, src))
            children = True
            i += 1
        elif isinstance(st, ast.Return) and getattr(st.value, "id", "") == var and i == len(body) - 1:
            pass
        else:
            raise ExtractionError("%s: unrecognised statement %s" % (fn.name, _dump(st)))
        i += 1
    if var is None or not seen_base:
        raise ExtractionError("%s: constructor or base call missing" % fn.name)
    return rows, children


def setter_info(cls, key):
    """AST of cls.set_<key> (resolved through the MRO): -> (attribute assigned, normaliser)"""
    fn = getattr(cls, "set_" + key)
    src = textwrap.dedent(inspect.getsource(fn))
    node = ast.parse(src).body[0]
    params = [a.arg for a in node.args.args]
    if len(params) != 2 or params[0] != "self":
        raise ExtractionError("setter set_%s: unexpected signature" % key)
    p = params[1]
    attrs, norms = set(), set()
    for st in ast.walk(node):
        if isinstance(st, ast.Assign):
            for t in st.targets:
                if isinstance(t, ast.Attribute) and getattr(t.value, "id", "") == "self":
                    attrs.add(t.attr)
                    v = st.value
                    if isinstance(v, ast.Name) and v.id == p:
                        norms.add("ident")
                    elif isinstance(v, ast.Constant) and v.value is None:
                        pass
                    elif isinstance(v, ast.Call) and getattr(v.func, "id", "") == "tuple" and getattr(v.args[0], "id", "") == p:
                        norms.add("tuple")
                    elif isinstance(v, ast.Call) and isinstance(v.func, ast.Attribute) and v.func.attr == "ip_address" \
                            and getattr(v.args[0], "id", "") == p:
                        norms.add("ipAddress")
                    else:
                        raise ExtractionError("setter set_%s: unrecognised assigned value %s" % (key, _dump(v)))
                elif isinstance(t, ast.Name):
                    pass    # local variable of a guard (e.g. m = re.match(...))
                else:
                    raise ExtractionError("setter set_%s assigns to something that is not self.<attr>" % key)
    if len(attrs) != 1 or len(norms) != 1:
        raise ExtractionError("setter set_%s: attrs=%s normalisers=%s" % (key, sorted(attrs), sorted(norms)))
    return attrs.pop(), norms.pop()



# --------------------------------------------------------------------------
# element routes: attribute-style setters / getters and the set/get/unset methods of the element classes

ELEMENT_FILES = [("ModelElement", "fim/user/model_element.py"), ("Node", "fim/user/node.py"), ("Component", "fim/user/component.py"),
                 ("Interface", "fim/user/interface.py"), ("NetworkService", "fim/user/network_service.py"), ("Link", "fim/user/link.py")]
ELEMENT_KIND = {"Node": ("node", "NodeSliver", "node_sliver"), "Component": ("component", "ComponentSliver", "component_sliver"),
                "Interface": ("interface", "InterfaceSliver", "interface_sliver"),
                "NetworkService": ("service", "NetworkServiceSliver", "network_service_sliver"),
                "Link": ("link", "NetworkLinkSliver", "link_sliver")}
TOPO = "self.__dict__.get('topo', None) is not None"
ROUTE_METHODS = {"set_property", "set_properties", "unset_property", "update_labels", "update_capacities"}


def _norm_body(fn):
    return "\n".join(ast.unparse(st) for st in strip_doc(fn.body))


def _setter_form(fn, attr):
    """-> (form, prop, cls)   forms whose None argument reaches set_property(prop, None), i.e. unset"""
    if len(fn.args.args) != 2:
        raise ExtractionError("attribute setter %s: signature" % attr)
    v = fn.args.args[1].arg
    body = _norm_body(fn)
    m = None
    import re
    m = re.fullmatch(r"if %s:\n    self\.set_property\('(\w+)', %s\)" % (re.escape(TOPO), v), body)
    if m:
        return "direct", m.group(1), ""
    m = re.fullmatch(r"self\._name = %s\nif %s:\n    self\.set_property\('(\w+)', %s\)" % (v, re.escape(TOPO), v), body)
    if m:
        return "nameField", m.group(1), ""
    m = re.fullmatch(r"if %s:\n    if %s is None or isinstance\(%s, (\w+)\):\n        self\.set_property\('(\w+)', %s\)\n    else:\n"
                     r"        self\.set_property\('(\w+)', (\w+)\(%s\)\)" % (re.escape(TOPO), v, v, v, v), body)
    if m and m.group(2) == m.group(3) and m.group(1) == m.group(4):
        return "jsonWrap", m.group(2), m.group(1)
    m = re.fullmatch(r"if %s:\n    imtype = self\.get_property\('image_type'\)\n    self\.set_properties\(image_ref=%s, image_type=imtype\)"
                     % (re.escape(TOPO), v), body)
    if m:
        return "imagePair", "image_ref", ""
    raise ExtractionError("attribute setter `%s` has an unrecognised body (does None still reach set_property(name, None)?):\n%s" % (attr, body))


def _getter_form(fn):
    body = _norm_body(fn)
    import re
    m = re.fullmatch(r"return self\.get_property\('(\w+)'\) if %s else None" % re.escape(TOPO), body)
    if m:
        return "plain", m.group(1)
    m = re.fullmatch(r"d = self\.get_property\('(\w+)'\) if %s else None\nreturn d\.data if d is not None else None" % re.escape(TOPO), body)
    if m:
        return "dataOf", m.group(1)
    if body == "return self._name":
        return "cached", "name"
    return None


def _is_decorated(fn, what):
    for d in fn.decorator_list:
        if ast.unparse(d) == what:
            return True
    return False


def element_routes():
    """{class: {"props": [(attr, prop, getter form, setter form, cls)], "methods": [...]}} from the AST of fim/user/*.py"""
    out = {}
    for clsname, rel in ELEMENT_FILES:
        tree, src = parse(rel)
        cls = find_class(tree, clsname)
        getters, setters, methods = {}, {}, {}
        for n in cls.body:
            if not isinstance(n, ast.FunctionDef):
                continue
            if _is_decorated(n, "property"):
                getters[n.name] = n
            elif any(ast.unparse(d).endswith(".setter") for d in n.decorator_list):
                setters[n.name] = n
            elif n.name.startswith(("set_", "update_", "unset_")):
                methods[n.name] = n
        extra = set(methods) - ROUTE_METHODS
        if extra:
            raise ExtractionError("%s has setter-like methods the element model does not know: %s" % (clsname, sorted(extra)))
        props = []
        for attr in sorted(set(getters) | set(setters)):
            gf = _getter_form(getters[attr]) if attr in getters else None
            if attr in setters:
                form, prop, c = _setter_form(setters[attr], attr)
                if gf is None:
                    raise ExtractionError("%s.%s has a setter but its getter is not a plain property read" % (clsname, attr))
                if gf[1] != prop and form != "imagePair":
                    raise ExtractionError("%s.%s reads %s but writes %s" % (clsname, attr, gf[1], prop))
                props.append((attr, prop, gf[0], form, c))
            elif gf is not None:
                props.append((attr, gf[1], gf[0], "readOnly", ""))
        out[clsname] = {"props": props, "methods": methods, "src": src, "node": cls}
    # method idioms the hand-written model mirrors: pin their normalised text
    me = out["ModelElement"]["methods"]
    want_unset = ("assert pname is not None\nprop_name = self.topo.graph_model.map_sliver_property_to_graph(pname)\n"
                  "if prop_name is not None:\n    self.topo.graph_model.unset_node_property(node_id=self.node_id, prop_name=prop_name)")
    if _norm_body(me["unset_property"]) != want_unset:
        raise ExtractionError("ModelElement.unset_property changed:\n" + _norm_body(me["unset_property"]))
    for what, cl in (("labels", "Labels"), ("capacities", "Capacities")):
        want = ("if self.%s is None:\n    self.set_property('%s', %s(**kwargs))\nelse:\n    new_%s = %s.update(self.%s, **kwargs)\n"
                "    self.set_property('%s', new_%s)" % (what, what, cl, what[:3], cl, what, what, what[:3]))
        if _norm_body(me["update_" + what]) != want:
            raise ExtractionError("ModelElement.update_%s changed:\n%s" % (what, _norm_body(me["update_" + what])))
    for clsname, (kind, slcls, fam) in ELEMENT_KIND.items():
        ms = out[clsname]["methods"]
        import re
        sp = _norm_body(ms["set_property"])
        m = re.fullmatch(r"if pval is None:\n    self\.unset_property\(pname\)\n    return\n(\w+) = %s\(\)\n\1\.set_property\(prop_name=pname, prop_val=pval\)\n"
                         r"prop_dict = self\.topo\.graph_model\.%s_to_graph_properties_dict\(\1\)\n"
                         r"self\.topo\.graph_model\.update_node_properties\(node_id=self\.node_id, props=prop_dict\)" % (slcls, fam), sp)
        if not m:
            raise ExtractionError("%s.set_property changed (None -> unset_property, fresh sliver, to-graph, update):\n%s" % (clsname, sp))
        sps = _norm_body(ms["set_properties"])
        m = re.fullmatch(r"(\w+) = %s\(\)\n\1\.set_properties\(\*\*kwargs\)\nprop_dict = self\.topo\.graph_model\.%s_to_graph_properties_dict\(\1\)\n"
                         r"self\.topo\.graph_model\.update_node_properties\(node_id=self\.node_id, props=prop_dict\)" % (slcls, fam), sps)
        if not m:
            raise ExtractionError("%s.set_properties changed:\n%s" % (clsname, sps))
        gp = [n for n in out[clsname]["node"].body if isinstance(n, ast.FunctionDef) and n.name == "get_property"]
        if len(gp) != 1:
            raise ExtractionError("%s.get_property missing" % clsname)
        g = _norm_body(gp[0])
        m = re.fullmatch(r"(?:assert pname is not None\n)?_, node_properties = self\.topo\.graph_model\.get_node_properties\(node_id=self\.node_id\)\n"
                         r"(\w+) = self\.topo\.graph_model\.%s_from_graph_properties_dict\(node_properties\)\nreturn \1\.get_property\(pname\)" % fam, g)
        if not m:
            raise ExtractionError("%s.get_property changed:\n%s" % (clsname, g))
    return out


def routes_lean(routes):
    body = """/-- how an attribute-style setter `el.<attr> = v` reaches the store -/
inductive RouteForm | direct | jsonWrap | imagePair | nameField | readOnly
  deriving DecidableEq, Repr, Inhabited
inductive GetForm | plain | dataOf | cached
  deriving DecidableEq, Repr, Inhabited

/-- one attribute (python `property`) of an element class: `get` reads `get_property(prop)` (or its `.data`), the
setter calls `set_property(prop, v)` (`direct`; `jsonWrap`: wraps a non-object in class `cls`; both pass None on, which
unsets), or pairs `image_ref` with the stored image type (`imagePair`) -/
structure AttrRoute where
  attr : String
  prop : String
  get : GetForm
  form : RouteForm
  cls : String
  deriving DecidableEq, Repr, Inhabited

"""
    for clsname, (kind, _, _) in ELEMENT_KIND.items():
        allp = {}
        for src in ("ModelElement", clsname):      # the element class overrides the base
            for attr, prop, gf, form, c in routes[src]["props"]:
                allp[attr] = (attr, prop, gf, form, c)
        rows = ["{ attr := %s, prop := %s, get := GetForm.%s, form := RouteForm.%s, cls := %s }" % (
            lean_str(a), lean_str(p), gf, form, lean_str(c)) for a, p, gf, form, c in sorted(allp.values())]
        body += "def %sRoutes : List AttrRoute :=\n  [%s]\n\n" % (kind, ",\n   ".join(rows))
    body += "def elemRoutes : List (String × List AttrRoute) :=\n  [%s]\n\n" % ", ".join(
        "(%s, %sRoutes)" % (lean_str(kind), kind) for kind, _, _ in ELEMENT_KIND.values())
    body += "/-- the set / unset methods every element class has (`set_property(p, None)` is `unset_property(p)`; pinned idioms) -/\n"
    body += "def routeMethods : List String := %s\n\n" % lean_list([lean_str(m) for m in sorted(ROUTE_METHODS)])
    return body


def _lean_row(fields):
    return "{ " + ", ".join("%s := %s" % kv for kv in fields) + " }"


def generate():
    tree, src = parse(REL)
    cls = find_class(tree, "ABCPropertyGraph")
    import fim.graph.abc_property_graph as apg
    import fim.slivers.network_node as nn
    import fim.slivers.network_service as ns
    import fim.slivers.interface_info as ii
    import fim.slivers.attached_components as ac
    import fim.slivers.network_link as nl
    from fim.graph.abc_property_graph_constants import ABCPropertyGraphConstants as K
    consts = {k: getattr(K, k) for k in dir(K) if k.isupper() or k.startswith(("PROP_", "CLASS_", "REL_"))}
    consts = {k: v for k, v in consts.items() if isinstance(v, str)}
    classes = {"NodeSliver": nn.NodeSliver, "ComponentSliver": ac.ComponentSliver, "NetworkServiceSliver": ns.NetworkServiceSliver,
               "InterfaceSliver": ii.InterfaceSliver, "NetworkLinkSliver": nl.NetworkLinkSliver}
    enums = {"NSLayer": ns.NSLayer, "MirrorDirection": ns.MirrorDirection}
    type_enums = {"NodeSliver": nn.NodeType, "ComponentSliver": ac.ComponentType, "NetworkServiceSliver": ns.ServiceType,
                  "InterfaceSliver": ii.InterfaceType, "NetworkLinkSliver": nl.LinkType}
    for en, e in enums.items():
        for m in e:
            if e.from_string(str(m)) is not m or str(m) != m.name:
                raise ExtractionError("%s.from_string does not resolve %s by name" % (en, m))
        if e.from_string("no-such-member") is not None:
            raise ExtractionError("%s.from_string accepts unknown names" % en)

    # SLIVER_PROPERTY_TO_GRAPH from the AST (dict literal of constants)
    unset = None
    for st in cls.body:
        if isinstance(st, ast.Assign) and getattr(st.targets[0], "id", "") == "SLIVER_PROPERTY_TO_GRAPH":
            if not isinstance(st.value, ast.Dict):
                raise ExtractionError("SLIVER_PROPERTY_TO_GRAPH is not a dict literal")
            unset = [(k.value, _const(v, consts)) for k, v in zip(st.value.keys, st.value.values)]
    if unset is None:
        raise ExtractionError("SLIVER_PROPERTY_TO_GRAPH not found")
    if dict(unset) != apg.ABCPropertyGraph.SLIVER_PROPERTY_TO_GRAPH:
        raise ExtractionError("SLIVER_PROPERTY_TO_GRAPH literal differs from the imported value")
    mp = find_func(cls, "map_sliver_property_to_graph")
    if ast.unparse(strip_doc(mp.body)[0]) != "return ABCPropertyGraph.SLIVER_PROPERTY_TO_GRAPH.get(prop_name, None)":
        raise ExtractionError("map_sliver_property_to_graph changed")
    no_unset = list(K.NO_UNSET_PROPERTIES)

    base_is_base, base_to = to_rows(find_func(cls, BASE_TO), consts)
    if base_is_base:
        raise ExtractionError("base to-function calls itself")
    base_from = from_base(find_func(cls, BASE_FROM), consts)

    report = {"kinds": {}, "span": span_hash(src, cls)}
    body = """inductive Enc | ident | str | toJson | jsonDumps | jsonData | commaJoin
  deriving DecidableEq, Repr, Inhabited
inductive Dec | ident | typeFromStr | fromString | fromJson | jsonLoads | jsonDataCtor | commaSplit | commaRSplit
  deriving DecidableEq, Repr, Inhabited
inductive Norm | ident | tuple | ipAddress
  deriving DecidableEq, Repr, Inhabited
/-- what the decoder of a from-row yields when the graph property is absent -/
inductive Absent | none | boolFalse | object
  deriving DecidableEq, Repr, Inhabited

/-- `if hasattr(sliver, a..) and sliver.a is not None ..: prop_dict[gprop] = enc(sliver.a ..)`; `keys` are the setter
names of the attributes read (attribute -> setter via the AST of the sliver class's `set_*`). -/
structure ToRow where
  keys : List String
  attrs : List String
  gprop : String
  enc : Enc
  always : Bool
  deriving DecidableEq, Repr, Inhabited

/-- `set_properties(key = dec(d.get(gprop)))`; `arg` = decoder class / tuple index; `norm` = what `set_<key>` stores;
`noneOk` = `set_<key>(None)` does not raise. -/
structure FromRow where
  key : String
  gprop : String
  dec : Dec
  arg : String
  absent : Absent
  norm : Norm
  noneOk : Bool
  deriving DecidableEq, Repr, Inhabited

structure KindTable where
  kind : String
  cls : String
  toRows : List ToRow
  fromRows : List FromRow
  /-- `list_properties()` of the sliver class -/
  settable : List String
  /-- the from-function rebuilds child interfaces from the 'interfaces' key -/
  recursiveChildren : Bool
  /-- member names of the enum `type_from_str` resolves into (probed: name -> member, anything else -> None) -/
  typeEnum : String
  typeMembers : List String
  deriving Repr, Inhabited

"""
    tables = []
    for kind, tofn, fromfn, clsname in KINDS:
        pycls = classes[clsname]
        inh, rows = to_rows(find_func(cls, tofn), consts)
        if not inh:
            raise ExtractionError("%s does not start from the base dictionary" % tofn)
        trows = base_to + rows
        frows, children = from_kind(find_func(cls, fromfn), consts, clsname)
        frows = base_from + frows
        settable = list(pycls.list_properties())
        tenum = type_enums[clsname]
        for m in tenum:
            if pycls.type_from_str(str(m)) is not m or str(m) != m.name:
                raise ExtractionError("%s.type_from_str does not resolve %s by name" % (clsname, m))
        if pycls.type_from_str("no-such-member") is not None:
            raise ExtractionError("%s.type_from_str accepts unknown names" % clsname)
        # attribute -> setter key through the setters of this class
        attr2key, norm_of, none_ok = {}, {}, {}
        for k in settable:
            a, n = setter_info(pycls, k)
            if a in attr2key:
                raise ExtractionError("%s: attribute %s assigned by two setters" % (clsname, a))
            attr2key[a] = k
            norm_of[k] = n
            try:
                getattr(pycls(), "set_" + k)(None)
                none_ok[k] = True
            except Exception:
                none_ok[k] = False
        lt = []
        for attrs, g, enc, always in trows:
            for a in attrs:
                if a not in attr2key:
                    raise ExtractionError("%s: to-row reads attribute %s which no setter of %s assigns" % (tofn, a, clsname))
            lt.append(_lean_row([("keys", lean_list([lean_str(attr2key[a]) for a in attrs])),
                                 ("attrs", lean_list([lean_str(a) for a in attrs])), ("gprop", lean_str(g)),
                                 ("enc", "Enc." + enc), ("always", "true" if always else "false")]))
        lf = []
        for key, g, dec, arg, dflt in frows:
            if key not in norm_of:
                raise ExtractionError("%s: set_properties(%s=...) but %s has no such setter" % (fromfn, key, clsname))
            # what does the decoder yield for an absent property?
            if dec == "typeFromStr":
                arg = tenum.__name__
            if dec in ("ident", "commaSplit", "commaRSplit"):
                absent = "none"
            elif dec in ("jsonLoads", "jsonDataCtor"):
                absent = "none" if dflt is None else "boolFalse"
            elif dec == "typeFromStr":
                absent = "none" if pycls.type_from_str(None) is None else "object"
            elif dec == "fromString":
                if arg not in enums:
                    raise ExtractionError("unknown enum %s" % arg)
                absent = "none" if enums[arg].from_string(None) is None else "object"
            elif dec == "fromJson":
                owner = arg.split(".")[0]
                c = getattr(apg, owner, None)
                if c is None:
                    raise ExtractionError("unknown codec class %s" % owner)
                if "." in arg:
                    v = c.from_json(json_str=None, atype=getattr(apg.DelegationType, arg.split(".")[1]))
                else:
                    v = c.from_json(None)
                absent = "none" if v is None else "object"
            else:
                raise ExtractionError("decoder %s" % dec)
            lf.append(_lean_row([("key", lean_str(key)), ("gprop", lean_str(g)), ("dec", "Dec." + dec), ("arg", lean_str(arg)),
                                 ("absent", "Absent." + absent), ("norm", "Norm." + norm_of[key]),
                                 ("noneOk", "true" if none_ok[key] else "false")]))
        body += "def %sTable : KindTable :=\n  { kind := %s, cls := %s,\n    toRows := [\n      %s],\n    fromRows := [\n      %s],\n    settable := %s,\n    recursiveChildren := %s,\n    typeEnum := %s, typeMembers := %s }\n\n" % (
            kind, lean_str(kind), lean_str(clsname), ",\n      ".join(lt), ",\n      ".join(lf),
            lean_list([lean_str(s) for s in settable]), "true" if children else "false",
            lean_str(tenum.__name__), lean_list([lean_str(m.name) for m in tenum]))
        tables.append(kind + "Table")
        report["kinds"][kind] = {"to": len(trows), "from": len(frows), "settable": len(settable)}
    body += "def tables : List KindTable := %s\n\n" % lean_list(tables)
    body += "/-- `SLIVER_PROPERTY_TO_GRAPH` (used by `unset_property`) -/\ndef unsetMap : List (String × String) :=\n  %s\n\n" % lean_list(
        ["(%s, %s)" % (lean_str(k), lean_str(v)) for k, v in unset])
    body += "/-- enums decoded with `from_string` (probed: name -> member, anything else -> None) -/\ndef enums : List (String × List String) := %s\n\n" % lean_list(
        ["(%s, %s)" % (lean_str(en), lean_list([lean_str(m.name) for m in e]))
         for en, e in list(enums.items()) + [(e.__name__, e) for e in type_enums.values()]])
    body += "/-- `NO_UNSET_PROPERTIES` -/\ndef noUnset : List String := %s\n\n" % lean_list([lean_str(s) for s in no_unset])
    body += "def nodeIdProp : String := %s\n\n" % lean_str(consts["NODE_ID"])
    routes = element_routes()
    body += routes_lean(routes)
    report["routes"] = {c: len(v["props"]) for c, v in routes.items()}

    # structural idioms that the hand-written model mirrors: pin their text
    pins = {}
    for name in ("sliver_to_dict", "build_deep_node_sliver_from_dict", "build_deep_ns_sliver_from_dict",
                 "build_deep_component_sliver_from_dict", "build_deep_interface_sliver_from_dict",
                 "build_deep_link_sliver_from_dict", "build_deep_node_sliver", "build_deep_ns_sliver",
                 "build_deep_component_sliver", "build_deep_interface_sliver", "build_deep_link_sliver",
                 "add_network_node_sliver", "add_network_link_sliver", "add_component_sliver",
                 "add_network_service_sliver", "add_interface_sliver"):
        pins[name] = span_hash(src, find_func(cls, name))
    report["structural_spans"] = pins
    report["unset"] = len(unset)
    report["changed"] = emit("SliverMap", body)
    return report
