"""Behavioural probe of MaintenanceInfo's ownership of its entries across the phase change build -> finalized
(lean/FimVerif/Generated/MiPhase.lean; model: Model/CodecPhase.lean; theorems C03.phase_*).

No source text is matched: the record is exercised and object IDENTITIES are observed (is the entry the record
holds the object the caller gave / was handed?), for one and for several entries, through finalize() itself and
through NodeSliver.set_maintenance_info (which finalizes what it is given):

  addKeepsArg        after add(name, e) on a record under construction the record's entry IS e
  getOpenHandsOutOwn get(name) on a record under construction hands out the record's own entry (edit in place)
  finalizeCopies     finalize() replaces every entry of the record by a fresh object (no entry object the record
                     held before finalize is held afterwards)
  getLockedCopies    get(name) / list_details() / iter() on a finalized record hand out objects that are not the record's
  addLockedRefused   add / rem / pop on a finalized record raise and leave the table as it was
A rewrite that moves the copying around keeps `finalizeCopies` only if no pre-finalize object survives in the record.
"""
from .common import *


def _probe(mm, k, via_sliver):
    S = list(mm.MaintenanceState)
    m = mm.MaintenanceInfo()
    args = [mm.MaintenanceEntry(S[i % len(S)]) for i in range(k)]
    for i, e in enumerate(args):
        m.add("n%d" % i, e)
    own0 = [m._nodes["n%d" % i] for i in range(k)]
    add_keeps = all(a is b for a, b in zip(args, own0))
    got0 = [m.get("n%d" % i) for i in range(k)]
    get_open_own = all(a is b for a, b in zip(got0, own0))
    if via_sliver:
        from fim.slivers.network_node import NodeSliver
        ns = NodeSliver()
        ns.set_maintenance_info(m)
        m = ns.get_maintenance_info()
    else:
        m.finalize()
    if m._lock is not True:
        raise ExtractionError("MaintenanceInfo: not locked after finalize")
    own1 = [m._nodes["n%d" % i] for i in range(k)]
    before = set(map(id, args + own0 + got0))
    fin_copies = all(id(e) not in before for e in own1)
    handed = [m.get("n%d" % i) for i in range(k)] + [e for _, e in m.list_details()] + [e for _, e in m.iter()]
    get_locked_copies = all(id(e) not in set(map(id, own1)) for e in handed)
    refused = True
    for call in (lambda: m.add("zz", mm.MaintenanceEntry(S[0])), lambda: m.rem("n0"), lambda: m.pop("n0")):
        try:
            call()
            refused = False
        except mm.MaintenanceModeException:
            pass
    refused = refused and [m._nodes.get("n%d" % i) for i in range(k)] == own1 and len(m._nodes) == k
    return add_keeps, get_open_own, fin_copies, get_locked_copies, refused


def generate():
    import fim.slivers.maintenance_mode as mm
    try:
        rows = [_probe(mm, k, s) for k in (1, 3) for s in (False, True)]
    except ExtractionError:
        raise
    except Exception as e:
        raise ExtractionError("MaintenanceInfo ownership probe failed: %s: %s" % (type(e).__name__, e))
    names = ["addKeepsArg", "getOpenHandsOutOwn", "finalizeCopies", "getLockedCopies", "addLockedRefused"]
    flags = {}
    for i, n in enumerate(names):
        vals = set(r[i] for r in rows)
        if len(vals) != 1 and n in ("addKeepsArg", "getOpenHandsOutOwn"):
            raise ExtractionError("MaintenanceInfo probe %s differs between runs: %s" % (n, [r[i] for r in rows]))
        flags[n] = all(r[i] for r in rows)          # a guarantee holds only if it holds on every probed route
    body = "".join("def %s : Bool := %s\n" % (n, "true" if flags[n] else "false") for n in names)
    changed = emit("MiPhase", body)
    return {"file": "Generated/MiPhase.lean", "changed": changed, "flags": flags}
