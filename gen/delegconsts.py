"""C12: the JSON vocabulary of fim.slivers.delegations and the shape of its codec.

Extracted (every run, from /repo's working tree):
  * the key / sentinel constants the codec uses (ABCPropertyGraphConstants.FIELD_POOL, FIELD_POOL_ID,
    FIELD_CAPACITIES, FIELD_LABELS, SINGLE_POOL_NAME, NEO4j_NONE) - by import, must be str;
  * DelegationFormat / DelegationType member names (must be exactly the three / two the model knows);
  * the field lists of Capacities() and Labels() with their defaults (all 0 resp. all None) and the
    names of the label fields that carry a validator (only used by the driver's concrete details);
  * AST checks of Delegations.to_json / from_json: the constants referenced are exactly the ones above,
    from_json dispatches on `<FIELD_POOL_ID> in v.keys()` first and `<FIELD_POOL> in v.keys()` second,
    to_json has one branch per DelegationFormat member.  Anything else is an ExtractionError.
"""
import ast
import importlib

from .common import *

REL = "fim/slivers/delegations.py"
CONSTS = ["FIELD_POOL", "FIELD_POOL_ID", "FIELD_CAPACITIES", "FIELD_LABELS", "SINGLE_POOL_NAME", "NEO4j_NONE"]
FORMATS = ["PoolDefinition", "PoolReference", "SinglePool"]
TYPES = ["CAPACITY", "LABEL"]


def _const_refs(fn):
    out = []
    for n in ast.walk(fn):
        if isinstance(n, ast.Attribute) and isinstance(n.value, ast.Name) and n.value.id == "ABCPropertyGraphConstants":
            out.append(n.attr)
    return out


def _in_keys_const(test):
    """`ABCPropertyGraphConstants.X in v.keys()` -> X"""
    if (isinstance(test, ast.Compare) and len(test.ops) == 1 and isinstance(test.ops[0], ast.In)
            and isinstance(test.left, ast.Attribute) and getattr(test.left.value, "id", "") == "ABCPropertyGraphConstants"
            and isinstance(test.comparators[0], ast.Call) and getattr(test.comparators[0].func, "attr", "") == "keys"):
        return test.left.attr
    return None


def _format_branches(fn):
    """names F of every `v.get_format() == DelegationFormat.F` test inside fn, in source order"""
    out = []
    for n in ast.walk(fn):
        if isinstance(n, ast.Compare) and len(n.ops) == 1 and isinstance(n.ops[0], ast.Eq) \
                and isinstance(n.comparators[0], ast.Attribute) and getattr(n.comparators[0].value, "id", "") == "DelegationFormat":
            out.append(n.comparators[0].attr)
    return out


def extract():
    tree, src = parse(REL)
    cls = find_class(tree, "Delegations")
    to_json = find_func(cls, "to_json")
    from_json = find_func(cls, "from_json")
    used_to = sorted(set(_const_refs(to_json)))
    used_from = sorted(set(_const_refs(from_json)))
    want_to = sorted(["FIELD_POOL_ID", "SINGLE_POOL_NAME", "FIELD_CAPACITIES", "FIELD_LABELS", "FIELD_POOL"])
    want_from = sorted(want_to + ["NEO4j_NONE"])
    if used_to != want_to:
        raise ExtractionError("Delegations.to_json references constants %s, expected %s" % (used_to, want_to))
    if used_from != want_from:
        raise ExtractionError("Delegations.from_json references constants %s, expected %s" % (used_from, want_from))
    # dispatch order of the decoder
    loop = [s for s in strip_doc(from_json.body) if isinstance(s, ast.For)]
    if len(loop) != 1:
        raise ExtractionError("from_json: expected exactly one loop over the decoded dictionary")
    ifs = [s for s in loop[0].body if isinstance(s, ast.If)]
    if not ifs:
        raise ExtractionError("from_json: no dispatch on the entry's keys")
    first = _in_keys_const(ifs[0].test)
    second = None
    if len(ifs[0].orelse) == 1 and isinstance(ifs[0].orelse[0], ast.If):
        second = _in_keys_const(ifs[0].orelse[0].test)
        tail = ifs[0].orelse[0].orelse
        if not (len(tail) == 1 and isinstance(tail[0], ast.Raise)):
            raise ExtractionError("from_json: the final else of the key dispatch does not raise")
    if [first, second] != ["FIELD_POOL_ID", "FIELD_POOL"]:
        raise ExtractionError("from_json: key dispatch order is %s, expected FIELD_POOL_ID then FIELD_POOL" % [first, second])
    fb = _format_branches(to_json)
    if sorted(fb) != sorted(FORMATS):
        raise ExtractionError("to_json: format branches %s, expected one per %s" % (fb, FORMATS))

    import fim.graph.abc_property_graph_constants as cm
    importlib.reload(cm)
    C = cm.ABCPropertyGraphConstants
    out = {}
    for k in CONSTS:
        v = getattr(C, k, None)
        if not isinstance(v, str):
            raise ExtractionError("constant %s is not a str" % k)
        out[k] = v
    import fim.slivers.delegations as dm
    if [m.name for m in dm.DelegationFormat] != FORMATS:
        raise ExtractionError("DelegationFormat members are %s" % [m.name for m in dm.DelegationFormat])
    if [m.name for m in dm.DelegationType] != TYPES:
        raise ExtractionError("DelegationType members are %s" % [m.name for m in dm.DelegationType])
    import fim.slivers.capacities_labels as cl
    cap = cl.Capacities()
    lab = cl.Labels()
    if any(v != 0 or isinstance(v, bool) for v in cap.__dict__.values()):
        raise ExtractionError("Capacities() default is not all 0")
    if any(v is not None for v in lab.__dict__.values()):
        raise ExtractionError("Labels() default is not all None")
    out["capFields"] = list(cap.__dict__.keys())
    out["labFields"] = list(lab.__dict__.keys())
    out["labValidated"] = [f for f in lab.__dict__ if f in cl.Labels.VALIDATORS or f in cl.Labels.LAMBDA_VALIDATORS]
    out["span"] = span_hash(src, cls)
    return out


def generate():
    c = extract()
    body = ""
    body += "def fieldPool : String := %s\n" % lean_str(c["FIELD_POOL"])
    body += "def fieldPoolId : String := %s\n" % lean_str(c["FIELD_POOL_ID"])
    body += "def fieldCapacities : String := %s\n" % lean_str(c["FIELD_CAPACITIES"])
    body += "def fieldLabels : String := %s\n" % lean_str(c["FIELD_LABELS"])
    body += "def singlePoolName : String := %s\n" % lean_str(c["SINGLE_POOL_NAME"])
    body += "def neo4jNone : String := %s\n\n" % lean_str(c["NEO4j_NONE"])
    body += "/-- DelegationFormat member names, in declaration order -/\n"
    body += "def formatNames : List String := %s\n" % lean_list([lean_str(x) for x in FORMATS])
    body += "def typeNames : List String := %s\n\n" % lean_list([lean_str(x) for x in TYPES])
    body += "def capFields : List String := %s\n" % lean_list([lean_str(x) for x in c["capFields"]])
    body += "def labFields : List String := %s\n" % lean_list([lean_str(x) for x in c["labFields"]])
    body += "def labValidated : List String := %s\n" % lean_list([lean_str(x) for x in c["labValidated"]])
    changed = emit("DelegConsts", body)
    c["changed"] = changed
    return c
