"""C12: the JSON vocabulary of fim.slivers.delegations and the shape of its codec.

Extracted (every run, from /repo's working tree):
  * the key / sentinel constants the codec uses (ABCPropertyGraphConstants.FIELD_POOL, FIELD_POOL_ID,
    FIELD_CAPACITIES, FIELD_LABELS, SINGLE_POOL_NAME, NEO4j_NONE) - by import, must be str;
  * DelegationFormat / DelegationType member names (must be exactly the three / two the model knows);
  * the field lists of Capacities() and Labels() with their defaults (all 0 resp. all None) and the
    names of the label fields that carry a validator.

Checked (nothing of it goes into the Generated file; a failure is an ExtractionError):
  * KEY VOCABULARY, by value: every string that Delegations.to_json / from_json (and the functions of the module
    they call) can use as a dictionary key or compare a key/pool name with - a module-level or class-level string
    constant reached through ANY name (``ABCPropertyGraphConstants.X``, a hoisted alias ``_KEY = ABCPropertyGraphConstants.X``,
    an alias of the class) or a string literal in key position - is one of the six constants above.  Names are resolved
    in the imported module's namespace, so renaming locals, hoisting constants, aliasing the constants class or extracting
    a helper does not matter; a key outside the vocabulary does.
  * BEHAVIOUR of the codec's dispatch, probed on the imported classes:
      - to_json writes, for every DelegationFormat member and both types, exactly the keys the model writes
        ({pool_id: "_" | name, capacities|labels: dict} resp. {pool: name});
      - from_json looks at <FIELD_POOL_ID> first and <FIELD_POOL> second (an entry holding both is a definition), an entry
        with neither raises DelegationException, <SINGLE_POOL_NAME> under <FIELD_POOL_ID> is a single-resource delegation,
        and None / '' / <NEO4j_NONE> give None;
      - THE SENTINEL TEST IS EQUALITY (the model's `pool = some singlePoolName`, `pid = singlePoolName`): names that merely start
        with, end with, contain, double or pad <SINGLE_POOL_NAME>, look like it, or spell <NEO4j_NONE> are ordinary pool names at
        every site - from_json reads them as a definition / reference of that pool, to_json writes them, Delegation(...), Pool(...)
        and Pools.add_pool accept them - while exactly <SINGLE_POOL_NAME> is refused by the three constructors' sites and, under
        <FIELD_POOL>, by from_json.
"""
import ast
import importlib
import json
import os

from .common import *

REL = "fim/slivers/delegations.py"
CONSTS = ["FIELD_POOL", "FIELD_POOL_ID", "FIELD_CAPACITIES", "FIELD_LABELS", "SINGLE_POOL_NAME", "NEO4j_NONE"]
FORMATS = ["PoolDefinition", "PoolReference", "SinglePool"]
TYPES = ["CAPACITY", "LABEL"]
TO_JSON_CONSTS = ["FIELD_POOL", "FIELD_POOL_ID", "FIELD_CAPACITIES", "FIELD_LABELS", "SINGLE_POOL_NAME"]
_NOVAL = object()


# --------------------------------------------------------------------------
# key vocabulary by value


def _local_names(fn):
    """names bound inside fn (arguments, assignment / loop / with / comprehension targets, local imports)"""
    out = set()
    a = fn.args
    for x in a.posonlyargs + a.args + a.kwonlyargs + ([a.vararg] if a.vararg else []) + ([a.kwarg] if a.kwarg else []):
        out.add(x.arg)
    for n in ast.walk(fn):
        if isinstance(n, ast.Name) and isinstance(n.ctx, (ast.Store, ast.Del)):
            out.add(n.id)
        elif isinstance(n, (ast.Import, ast.ImportFrom)):
            for al in n.names:
                out.add((al.asname or al.name).split(".")[0])
        elif isinstance(n, ast.ExceptHandler) and n.name:
            out.add(n.name)
    return out


def _resolve(node, ns, local):
    """runtime value of a Name / dotted Attribute expression in the module namespace ns, or _NOVAL"""
    if isinstance(node, ast.Name):
        if node.id in local:
            return _NOVAL
        if node.id in ns:
            return ns[node.id]
        import builtins
        return getattr(builtins, node.id, _NOVAL)
    if isinstance(node, ast.Attribute):
        base = _resolve(node.value, ns, local)
        if base is _NOVAL:
            return _NOVAL
        try:
            return getattr(base, node.attr)
        except Exception:
            return _NOVAL
    return _NOVAL


def _skip_subtrees(fn):
    """ids of the nodes inside raise statements and f-strings (messages, not keys) and of the docstring"""
    skip = set()
    for n in ast.walk(fn):
        if isinstance(n, (ast.Raise, ast.JoinedStr)):
            for m in ast.walk(n):
                skip.add(id(m))
    body = fn.body
    if body and isinstance(body[0], ast.Expr) and isinstance(body[0].value, ast.Constant) and isinstance(body[0].value.value, str):
        skip.add(id(body[0].value))
    return skip


def _str_values(fn, ns):
    """every str the function can use as a key / compare with: resolved names and attribute chains, plus string literals
    in key position (subscript, operand of in / == / !=, first argument of .get/.pop/.setdefault, dict-literal key,
    right-hand side of an assignment)"""
    local = _local_names(fn)
    skip = _skip_subtrees(fn)
    inner = set()        # Attribute nodes that are the .value of another Attribute (only outermost chains are resolved)
    for n in ast.walk(fn):
        if isinstance(n, ast.Attribute) and isinstance(n.value, ast.Attribute):
            inner.add(id(n.value))
    out = []
    for n in ast.walk(fn):
        if id(n) in skip:
            continue
        if isinstance(n, (ast.Name, ast.Attribute)) and isinstance(getattr(n, "ctx", None), ast.Load) and id(n) not in inner:
            v = _resolve(n, ns, local)
            if isinstance(v, str):
                out.append(v)
        lits = []
        if isinstance(n, ast.Subscript):
            lits.append(n.slice)
        elif isinstance(n, ast.Compare):
            lits += [n.left] + list(n.comparators)
        elif isinstance(n, ast.Call) and isinstance(n.func, ast.Attribute) and n.func.attr in ("get", "pop", "setdefault") and n.args:
            lits.append(n.args[0])
        elif isinstance(n, ast.Dict):
            lits += [k for k in n.keys if k is not None]
        elif isinstance(n, ast.Assign):
            lits.append(n.value)
        elif isinstance(n, ast.AnnAssign) and n.value is not None:
            lits.append(n.value)
        while lits:
            l = lits.pop()
            if isinstance(l, (ast.Tuple, ast.List, ast.Set)):
                lits += list(l.elts)            # `x in ('a', 'b')`
            elif isinstance(l, ast.Constant) and isinstance(l.value, str) and id(l) not in skip:
                out.append(l.value)
    return out


def _callees(fn, tree):
    """functions of the module fn may call: module-level functions by name, methods of the module's classes by
    attribute name (an over-approximation: the receiver's class is not known)"""
    funcs = {n.name: n for n in tree.body if isinstance(n, (ast.FunctionDef, ast.AsyncFunctionDef))}
    methods = {}
    for c in tree.body:
        if isinstance(c, ast.ClassDef):
            for m in c.body:
                if isinstance(m, (ast.FunctionDef, ast.AsyncFunctionDef)):
                    methods.setdefault(m.name, []).append(m)
    out = []
    for n in ast.walk(fn):
        if isinstance(n, ast.Call):
            if isinstance(n.func, ast.Name) and n.func.id in funcs:
                out.append(funcs[n.func.id])
            elif isinstance(n.func, ast.Attribute) and n.func.attr in methods:
                out += methods[n.func.attr]
    return out


def key_vocab(fn, tree, ns):
    """string values used by fn and, transitively, by the module's own functions it calls"""
    seen, todo, out = set(), [fn], []
    while todo:
        f = todo.pop()
        if id(f) in seen:
            continue
        seen.add(id(f))
        out += _str_values(f, ns)
        todo += _callees(f, tree)
    return sorted(set(out))


# --------------------------------------------------------------------------
# behavioural probes


def lookalikes(C):
    """pool names that are NOT the sentinel but related to it (prefix / suffix / infix / doubled / padded / look-alike /
    the spellings of NEO4j_NONE)"""
    S, N = C.SINGLE_POOL_NAME, C.NEO4j_NONE
    out = [S + "x", S + "mgmt", "x" + S, S + S, " " + S, S + " ", "a" + S + "b", S + "\u200b", "\uff3f", N, N.lower(), N + " ", S + N]
    return [x for x in dict.fromkeys(out) if x != S]


def _raises(fn):
    try:
        return ("ok", fn())
    except Exception as e:
        return ("err", type(e).__name__)


def _probe_sentinel_sites(dm, cl, C):
    """the constructors' reserved-name test: equality with SINGLE_POOL_NAME, nothing wider and nothing narrower"""
    F, T = dm.DelegationFormat, dm.DelegationType
    S = C.SINGLE_POOL_NAME
    n = 0
    for t in T:
        for nm in lookalikes(C) + [S]:
            reserved = nm == S
            for f in (F.PoolDefinition, F.PoolReference):
                r = _raises(lambda: dm.Delegation(atype=t, delegation_id="probe", aformat=f, pool_id=nm))
                ok = (r == ("err", "DelegationException")) if reserved else (r[0] == "ok" and r[1].get_pool_name() == nm and r[1].get_format() == f)
                if not ok:
                    raise ExtractionError("Delegation(%s, pool_id=%r) -> %s; the model %s" % (
                        f.name, nm, r if r[0] == "err" else (r[1].get_format().name, r[1].get_pool_name()),
                        "raises DelegationException" if reserved else "accepts the name as it is"))
            r = _raises(lambda: dm.Pool(atype=t, pool_id=nm, delegation_id="d", defined_on="n1", defined_for=["n2"]))
            ok = (r == ("err", "PoolException")) if reserved else (r[0] == "ok" and r[1].get_pool_id() == nm)
            if not ok:
                raise ExtractionError("Pool(pool_id=%r) -> %s; the model %s" % (nm, r[1] if r[0] == "err" else r[1].get_pool_id(),
                                                                               "raises PoolException" if reserved else "accepts the name"))
            p = dm.Pool(atype=t, pool_id="probe_tmp", delegation_id="d", defined_on="n1", defined_for=["n2"])
            p.pool_id = nm
            ps = dm.Pools(atype=t)
            r = _raises(lambda: ps.add_pool(pool=p))
            ok = (r == ("err", "PoolException") and not ps.pool_by_id) if reserved else (r[0] == "ok" and list(ps.pool_by_id.keys()) == [nm])
            if not ok:
                raise ExtractionError("Pools.add_pool of a pool named %r -> %s, pools %s; the model %s" % (
                    nm, r[1] if r[0] == "err" else "accepted", list(ps.pool_by_id.keys()), "raises PoolException" if reserved else "stores it under its name"))
            n += 4
    return n


def _probe(dm, cl, C):
    """dispatch behaviour of to_json / from_json on the imported classes; returns a dict for the report"""
    F, T = dm.DelegationFormat, dm.DelegationType
    rep = {}
    for t in T:
        det_key = C.FIELD_CAPACITIES if t == T.CAPACITY else C.FIELD_LABELS
        oth_key = C.FIELD_LABELS if t == T.CAPACITY else C.FIELD_CAPACITIES

        def det():
            return cl.Capacities(core=3) if t == T.CAPACITY else cl.Labels(local_name="x3")
        dd = det().to_dict()
        # ---- to_json: one shape per format member
        for f in F:
            d = dm.Delegation(atype=t, delegation_id="probe", aformat=f, pool_id=None if f == F.SinglePool else "probe_pool")
            if f != F.PoolReference:
                d.set_details(det())
            ds = dm.Delegations(atype=t)
            ds.add_delegations(d)
            try:
                got = json.loads(ds.to_json())
            except Exception as e:
                raise ExtractionError("to_json probe (%s, %s) raised %s: %s" % (t.name, f.name, type(e).__name__, e))
            want = {"probe": {C.FIELD_POOL: "probe_pool"} if f == F.PoolReference else
                    {C.FIELD_POOL_ID: C.SINGLE_POOL_NAME if f == F.SinglePool else "probe_pool", det_key: dd}}
            if got != want:
                raise ExtractionError("to_json probe (%s, %s): wrote %s, the model writes %s" % (t.name, f.name, got, want))
            if f != F.PoolReference and list(got["probe"].keys()) != [C.FIELD_POOL_ID, det_key]:
                raise ExtractionError("to_json probe (%s, %s): key order %s" % (t.name, f.name, list(got["probe"].keys())))
        # ---- to_json: a pool name related to the sentinel is written as it is
        for nm in lookalikes(C):
            for f in (F.PoolDefinition, F.PoolReference):
                try:
                    d = dm.Delegation(atype=t, delegation_id="probe", aformat=f, pool_id=nm)
                    if f != F.PoolReference:
                        d.set_details(det())
                    ds = dm.Delegations(atype=t)
                    ds.add_delegations(d)
                    got = json.loads(ds.to_json())
                except Exception as e:
                    raise ExtractionError("to_json probe (%s, %s of pool %r) raised %s: %s" % (t.name, f.name, nm, type(e).__name__, e))
                want = {"probe": {C.FIELD_POOL: nm} if f == F.PoolReference else {C.FIELD_POOL_ID: nm, det_key: dd}}
                if got != want:
                    raise ExtractionError("to_json probe (%s, %s of pool %r): wrote %s, the model writes %s" % (t.name, f.name, nm, got, want))

        # ---- from_json: dispatch order and sentinels
        def dec(entry):
            try:
                r = dm.Delegations.from_json(json_str=json.dumps({"probe": entry}), atype=t)
            except Exception as e:
                return type(e).__name__
            d = r.delegations.get("probe") if r is not None else None
            if d is None:
                return None
            x = d.delegation_details
            return (d.format.name, d.pool_id, None if x is None else (type(x).__name__, x.to_dict()), d.type.name)
        tn = "Capacities" if t == T.CAPACITY else "Labels"
        expect = [
            ("pool_id before pool", {C.FIELD_POOL_ID: "p", C.FIELD_POOL: "q", det_key: dd}, ("PoolDefinition", "p", (tn, dd), t.name)),
            ("pool before pool_id in the text", {C.FIELD_POOL: "q", C.FIELD_POOL_ID: "p", det_key: dd}, ("PoolDefinition", "p", (tn, dd), t.name)),
            ("single sentinel", {C.FIELD_POOL_ID: C.SINGLE_POOL_NAME, det_key: dd}, ("SinglePool", None, (tn, dd), t.name)),
            ("definition", {C.FIELD_POOL_ID: "p", det_key: dd}, ("PoolDefinition", "p", (tn, dd), t.name)),
            ("reference", {C.FIELD_POOL: "q"}, ("PoolReference", "q", None, t.name)),
            ("neither key", {det_key: dd}, "DelegationException"),
            ("empty entry", {}, "DelegationException"),
            ("details key missing", {C.FIELD_POOL_ID: "p"}, "KeyError"),
            ("other type's details only", {C.FIELD_POOL_ID: "p", oth_key: {}}, "KeyError"),
            ("reference to the reserved name", {C.FIELD_POOL: C.SINGLE_POOL_NAME}, "DelegationException"),
        ]
        # the single-resource marker is recognised by EQUALITY: a name related to it is a pool name
        for nm in lookalikes(C):
            expect.append(("pool_id %r (not the sentinel) is a definition of that pool" % nm, {C.FIELD_POOL_ID: nm, det_key: dd},
                           ("PoolDefinition", nm, (tn, dd), t.name)))
            expect.append(("pool %r (not the sentinel) is a reference to that pool" % nm, {C.FIELD_POOL: nm}, ("PoolReference", nm, None, t.name)))
        for what, entry, want in expect:
            got = dec(entry)
            if got != want:
                raise ExtractionError("from_json probe (%s, %s): %s -> %s, the model gives %s" % (t.name, what, entry, got, want))
        for text in (None, "", C.NEO4j_NONE):
            try:
                r = dm.Delegations.from_json(json_str=text, atype=t)
            except Exception as e:
                r = type(e).__name__
            if r is not None:
                raise ExtractionError("from_json probe (%s): %r -> %r, expected None" % (t.name, text, r))
        rep[t.name] = len(expect) + len(list(F)) + 3 + 2 * len(lookalikes(C))
    rep["sentinel_sites"] = _probe_sentinel_sites(dm, cl, C)
    return rep


def extract():
    tree, src = parse(REL)
    cls = find_class(tree, "Delegations")
    to_json = find_func(cls, "to_json")
    from_json = find_func(cls, "from_json")

    import fim.graph.abc_property_graph_constants as cm
    importlib.reload(cm)
    C = cm.ABCPropertyGraphConstants
    out = {}
    for k in CONSTS:
        v = getattr(C, k, None)
        if not isinstance(v, str):
            raise ExtractionError("constant %s is not a str" % k)
        out[k] = v
    if len(set(out[k] for k in CONSTS[:4])) != 4:
        raise ExtractionError("the four key constants are not distinct: %s" % {k: out[k] for k in CONSTS[:4]})
    import fim.slivers.delegations as dm
    if os.path.realpath(getattr(dm, "__file__", "")) != os.path.realpath(os.path.join(REPO, REL)):
        raise ExtractionError("fim.slivers.delegations was imported from %s, not from the tree under check" % getattr(dm, "__file__", None))
    if [m.name for m in dm.DelegationFormat] != FORMATS:
        raise ExtractionError("DelegationFormat members are %s" % [m.name for m in dm.DelegationFormat])
    if [m.name for m in dm.DelegationType] != TYPES:
        raise ExtractionError("DelegationType members are %s" % [m.name for m in dm.DelegationType])

    # key vocabulary (by value, through any alias / helper)
    ns = vars(dm)
    inv = {}
    for k in CONSTS:
        inv.setdefault(out[k], []).append(k)
    vt = key_vocab(to_json, tree, ns)
    vf = key_vocab(from_json, tree, ns)
    allowed_to = {out[k] for k in TO_JSON_CONSTS}
    allowed_from = {out[k] for k in CONSTS}
    if not set(vt) <= allowed_to:
        raise ExtractionError("Delegations.to_json uses the strings %s outside the vocabulary %s" % (
            sorted(set(vt) - allowed_to), sorted(allowed_to)))
    if not set(vf) <= allowed_from:
        raise ExtractionError("Delegations.from_json uses the strings %s outside the vocabulary %s" % (
            sorted(set(vf) - allowed_from), sorted(allowed_from)))
    if set(vt) != allowed_to or set(vf) != allowed_from:
        # every constant of the vocabulary is needed by the behaviour probed below; one that is never mentioned means
        # the vocabulary scan does not see how the function gets at its keys
        raise ExtractionError("key vocabulary scan incomplete: to_json %s (want %s), from_json %s (want %s)" % (
            vt, sorted(allowed_to), vf, sorted(allowed_from)))
    out["vocab_to_json"] = sorted(inv[v][0] for v in vt)
    out["vocab_from_json"] = sorted(inv[v][0] for v in vf)

    import fim.slivers.capacities_labels as cl
    cap = cl.Capacities()
    lab = cl.Labels()
    if any(v != 0 or isinstance(v, bool) for v in cap.__dict__.values()):
        raise ExtractionError("Capacities() default is not all 0")
    if any(v is not None for v in lab.__dict__.values()):
        raise ExtractionError("Labels() default is not all None")
    out["capFields"] = list(cap.__dict__.keys())
    out["labFields"] = list(lab.__dict__.keys())
    out["labValidated"] = [f for f in lab.__dict__ if f in cl.Labels.VALIDATORS or f in cl.Labels.LAMBDA_VALIDATORS]
    try:
        out["probes"] = _probe(dm, cl, C)
    except ExtractionError:
        raise
    except Exception as e:
        raise ExtractionError("codec probe crashed: %s: %s" % (type(e).__name__, e))
    out["span"] = span_hash(src, cls)
    return out


def generate():
    c = extract()
    body = ""
    body += "def fieldPool : String := %s\n" % lean_str(c["FIELD_POOL"])
    body += "def fieldPoolId : String := %s\n" % lean_str(c["FIELD_POOL_ID"])
    body += "def fieldCapacities : String := %s\n" % lean_str(c["FIELD_CAPACITIES"])
    body += "def fieldLabels : String := %s\n" % lean_str(c["FIELD_LABELS"])
    body += "def singlePoolName : String := %s\n" % lean_str(c["SINGLE_POOL_NAME"])
    body += "def neo4jNone : String := %s\n\n" % lean_str(c["NEO4j_NONE"])
    body += "/-- DelegationFormat member names, in declaration order -/\n"
    body += "def formatNames : List String := %s\n" % lean_list([lean_str(x) for x in FORMATS])
    body += "def typeNames : List String := %s\n\n" % lean_list([lean_str(x) for x in TYPES])
    body += "def capFields : List String := %s\n" % lean_list([lean_str(x) for x in c["capFields"]])
    body += "def labFields : List String := %s\n" % lean_list([lean_str(x) for x in c["labFields"]])
    body += "def labValidated : List String := %s\n" % lean_list([lean_str(x) for x in c["labValidated"]])
    changed = emit("DelegConsts", body)
    c["changed"] = changed
    return c
