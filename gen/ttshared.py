"""Behavioural probe of the validator helper object the typed-tuple classes share (fim/graph/typed_tuples.py: one TypeValidator,
one type table per category) - lean/FimVerif/Generated/TTShared.lean; model: Model/CodecShared.lean; theorems
C03.ttuple_shared_validator_*.

No source text is matched.  In a fresh interpreter every type name of every category (plus names of no category) is offered to
every tuple class through the keyword constructor, fromstring= and parse_from_string, in three interrogation orders (each name
to its own classes first / to the foreign classes first / classes rotated per name, everything asked twice); observed is whether
the call is accepted.

  validatorHistoryFree   every verdict, at every position of every order, is membership of the name in the type table of the
                         class asked (read through get_types of the class's own category), i.e. a function of (category, name)
A rewrite of the helper (caching, another container, another lookup) keeps the flag as long as no earlier lookup changes a later
verdict.
"""
import json
import subprocess
import sys

from .common import *

CHILD = r"""
import json, sys
import fim.graph.typed_tuples as tt
names = ["Label", "Capacity", "Location", "AllocationConstraint"]
names = [n for n in names if hasattr(tt, n)] + sorted(
    k for k, v in vars(tt).items() if isinstance(v, type) and issubclass(v, tt.TypedTuple) and v is not tt.TypedTuple and k not in names)
order = sys.argv[1]
tables = {}
for n in names:
    C = getattr(tt, n)
    p = object.__new__(C)
    try:
        C.__init__(p, atype="\x00", aval="")
    except Exception:
        pass
    tables[n] = list(p.lv.get_types(p.category))
every = sorted({t for n in names for t in tables[n]}) + ["nope", ""]
bad = []
asked = 0
def ask(n, t, via):
    C = getattr(tt, n)
    try:
        if via == "new":
            C(atype=t, aval="4")
        elif via == "from":
            C(fromstring=t + ":4")
        else:
            C(atype=tables[n][0], aval="k").parse_from_string(t + ":4")
        return True
    except Exception:
        return False
for rnd in range(2):
    for i, t in enumerate(every):
        own = [n for n in names if t in tables[n]]
        foreign = [n for n in names if t not in tables[n]]
        seq = own + foreign if order == "own-first" else foreign + own if order == "foreign-first" else names[i % len(names):] + names[:i % len(names)]
        for n in seq:
            for via in ("new", "from", "parse"):
                asked += 1
                if ask(n, t, via) != (t in tables[n]):
                    bad.append([order, rnd, n, via, t])
print("@@" + json.dumps({"tables": tables, "asked": asked, "bad": bad[:5], "nbad": len(bad)}))
"""


def generate():
    rows = []
    for order in ("own-first", "foreign-first", "rotated"):
        p = subprocess.run([sys.executable, "-c", CHILD, order], capture_output=True, text=True)
        line = [l for l in p.stdout.splitlines() if l.startswith("@@")]
        if not line:
            raise ExtractionError("typed-tuple validator probe failed (%s): %s" % (order, (p.stderr or p.stdout)[-300:]))
        rows.append(json.loads(line[-1][2:]))
    if len({json.dumps(r["tables"], sort_keys=True) for r in rows}) != 1 or not all(len(v) for v in rows[0]["tables"].values()):
        raise ExtractionError("typed-tuple validator probe: type tables differ between runs or are empty")
    free = all(r["nbad"] == 0 for r in rows)
    body = "def validatorHistoryFree : Bool := %s\n" % ("true" if free else "false")
    body += "def probedCategories : Nat := %d\n" % len(rows[0]["tables"])
    changed = emit("TTShared", body)
    return {"file": "Generated/TTShared.lean", "changed": changed, "flags": {"validatorHistoryFree": free},
            "asked": sum(r["asked"] for r in rows), "first_bad": [b for r in rows for b in r["bad"]][:3]}
