"""Extract the keep-set recipe of ABCARMPropertyGraph.generate_adms (C13) into Lean.

Read from /repo's working tree:

  fim/graph/resources/abc_arm.py  generate_adms
      keep_nodes = keep_nodes_sets[del_id].union(stitch_nodes)
      all_cp_ids = self.get_all_nodes_by_class(label=ABCPropertyGraph.<CP class>)
      for cp in keep_cps:                                   # loop 1 ("link traces")
          cp_neighbors = self.get_first_and_second_neighbor(node_id=cp, rel1=, node1_label=, rel2=, node2_label=)
          for pair in cp_neighbors: ...keep_nodes.update(pair); new_cps.add(pair[1])
      keep_cps.update(new_cps)
      for cp in keep_cps:                                   # loop 2 ("owner traces")
          cp_neighbors = ...; for pair in cp_neighbors: ...keep_nodes.update(pair)      (any number of such blocks)
      remove_nodes = set(self.node_ids); remove_nodes.difference_update(keep_nodes); delete_node each
  fim/graph/networkx_property_graph.py  get_first_and_second_neighbor
      which variable the second-hop relation filter appends to its drop list (`n`: the filter is inert, `k`: it filters)
      and that self (real_node) is removed from the second neighbours
  get_stitch_nodes: the property/value it selects on

Every other shape is an ExtractionError.
"""
import ast
import importlib

from .common import *

ARM = "fim/graph/resources/abc_arm.py"
NXPG = "fim/graph/networkx_property_graph.py"


def _const(node):
    """ABCPropertyGraph.X / self.X  ->  its string value in the running code."""
    if isinstance(node, ast.Constant) and isinstance(node.value, str):
        return node.value
    if isinstance(node, ast.Attribute) and isinstance(node.value, ast.Name) and node.value.id in ("ABCPropertyGraph", "self"):
        import fim.graph.abc_property_graph as m
        v = getattr(m.ABCPropertyGraph, node.attr, None)
        if isinstance(v, str):
            return v
    raise ExtractionError("cannot resolve constant %s" % ast.dump(node)[:120])


def _is_keepnodes_update_pair(st):
    # delegations_info[del_id].keep_nodes.update(pair)
    return (isinstance(st, ast.Expr) and isinstance(st.value, ast.Call) and isinstance(st.value.func, ast.Attribute)
            and st.value.func.attr == "update" and isinstance(st.value.func.value, ast.Attribute)
            and st.value.func.value.attr == "keep_nodes" and len(st.value.args) == 1
            and isinstance(st.value.args[0], ast.Name) and st.value.args[0].id == "pair")


def _is_newcps_add_pair1(st):
    return (isinstance(st, ast.Expr) and isinstance(st.value, ast.Call) and isinstance(st.value.func, ast.Attribute)
            and st.value.func.attr == "add" and getattr(st.value.func.value, "id", "") == "new_cps"
            and len(st.value.args) == 1 and isinstance(st.value.args[0], ast.Subscript)
            and getattr(st.value.args[0].value, "id", "") == "pair"
            and isinstance(st.value.args[0].slice, ast.Constant) and st.value.args[0].slice.value == 1)


def _trace_blocks(loop, want_new_cps):
    """body of `for cp in keep_cps:` -> list of (rel1,l1,rel2,l2)."""
    body = [s for s in loop.body if not (isinstance(s, ast.Expr) and isinstance(s.value, ast.Constant))]
    if len(body) % 2 or not body:
        raise ExtractionError("keep_cps loop: expected (assign, for pair) blocks")
    out = []
    for a, f in zip(body[0::2], body[1::2]):
        if not (isinstance(a, ast.Assign) and getattr(a.targets[0], "id", "") == "cp_neighbors" and isinstance(a.value, ast.Call)
                and isinstance(a.value.func, ast.Attribute) and a.value.func.attr == "get_first_and_second_neighbor"
                and getattr(a.value.func.value, "id", "") == "self" and not a.value.args):
            raise ExtractionError("keep_cps loop: not cp_neighbors = self.get_first_and_second_neighbor(...)")
        kw = {k.arg: k.value for k in a.value.keywords}
        if sorted(kw) != ["node1_label", "node2_label", "node_id", "rel1", "rel2"] or getattr(kw["node_id"], "id", "") != "cp":
            raise ExtractionError("keep_cps loop: keyword arguments of get_first_and_second_neighbor changed")
        if not (isinstance(f, ast.For) and getattr(f.target, "id", "") == "pair" and getattr(f.iter, "id", "") == "cp_neighbors"
                and not f.orelse):
            raise ExtractionError("keep_cps loop: not `for pair in cp_neighbors`")
        inner = [s for s in f.body if not (isinstance(s, ast.Expr) and isinstance(s.value, ast.Constant))]
        ups = [s for s in inner if _is_keepnodes_update_pair(s)]
        adds = [s for s in inner if _is_newcps_add_pair1(s)]
        if len(ups) != 1 or len(ups) + len(adds) != len(inner) or (len(adds) == 1) != want_new_cps:
            raise ExtractionError("keep_cps loop: body of `for pair` changed")
        out.append(tuple(_const(kw[k]) for k in ("rel1", "node1_label", "rel2", "node2_label")))
    return out


def extract():
    tree, src = parse(ARM)
    cls = find_class(tree, "ABCARMPropertyGraph")
    fn = find_func(cls, "generate_adms")
    loops = []
    for st in ast.walk(fn):
        if isinstance(st, ast.For) and getattr(st.target, "id", "") == "cp" and getattr(st.iter, "id", "") == "keep_cps":
            loops.append(st)
    loops.sort(key=lambda s: s.lineno)
    if len(loops) != 2:
        raise ExtractionError("generate_adms: expected two `for cp in keep_cps` loops, found %d" % len(loops))
    link_traces = _trace_blocks(loops[0], True)
    owner_traces = _trace_blocks(loops[1], False)
    text = ast.get_source_segment(src, fn)
    # the statements between / around the loops the model relies on
    need = ["keep_nodes=keep_nodes_sets[del_id].union(stitch_nodes)",
            "keep_cps.update(new_cps)",
            "delegations_info[del_id].remove_nodes = set(self.node_ids)",
            "delegations_info[del_id].remove_nodes.difference_update(delegations_info[del_id].keep_nodes)",
            "delegations_info[del_id].graph.delete_node(node_id=node_id)",
            "stitch_nodes = self.get_stitch_nodes()",
            "if node_id in all_cp_ids:"]
    flat = " ".join(text.split())
    for n in need:
        if " ".join(n.split()) not in flat:
            raise ExtractionError("generate_adms: statement `%s` not found" % n)
    cp_class = None
    for st in ast.walk(fn):
        if isinstance(st, ast.Assign) and getattr(st.targets[0], "id", "") == "all_cp_ids":
            c = st.value
            if not (isinstance(c, ast.Call) and getattr(c.func, "attr", "") == "get_all_nodes_by_class" and len(c.keywords) == 1):
                raise ExtractionError("all_cp_ids is not get_all_nodes_by_class(label=...)")
            cp_class = _const(c.keywords[0].value)
    if cp_class is None:
        raise ExtractionError("all_cp_ids assignment not found")

    tree2, src2 = parse(NXPG)
    pg = find_class(tree2, "NetworkXPropertyGraph")
    f2 = find_func(pg, "get_first_and_second_neighbor")
    # for n in first_neighbors: ... for k in second_neighbors: if <edge (n,k)>.get(LABEL) != rel2: neighbor_drop_list.append(X)
    outer = [s for s in f2.body if isinstance(s, ast.For) and getattr(s.target, "id", "") == "n"
             and any(isinstance(x, ast.For) and getattr(x.target, "id", "") == "k" for x in s.body)]
    if len(outer) != 1:
        raise ExtractionError("get_first_and_second_neighbor: second-hop loop not found")
    inner = [x for x in outer[0].body if isinstance(x, ast.For) and getattr(x.target, "id", "") == "k"][0]
    if not (len(inner.body) == 1 and isinstance(inner.body[0], ast.If) and not inner.body[0].orelse and len(inner.body[0].body) == 1):
        raise ExtractionError("get_first_and_second_neighbor: second-hop filter body changed")
    test = inner.body[0].test
    if not (isinstance(test, ast.Compare) and isinstance(test.ops[0], ast.NotEq) and getattr(test.comparators[0], "id", "") == "rel2"):
        raise ExtractionError("get_first_and_second_neighbor: second-hop test is not `... != rel2`")
    app = inner.body[0].body[0]
    if not (isinstance(app, ast.Expr) and isinstance(app.value, ast.Call) and getattr(app.value.func, "attr", "") == "append"
            and getattr(app.value.func.value, "id", "") == "neighbor_drop_list" and len(app.value.args) == 1
            and getattr(app.value.args[0], "id", "") in ("n", "k")):
        raise ExtractionError("get_first_and_second_neighbor: second-hop drop is not neighbor_drop_list.append(n|k)")
    drops_k = app.value.args[0].id == "k"
    t2 = " ".join(ast.get_source_segment(src2, f2).split())
    for n in ["if real_node in second_neighbors: second_neighbors.remove(real_node)",
              "if graph.edges[(real_node, n)].get(self.NETWORKX_LABEL, None) != rel1: neighbor_drop_list.append(n)",
              "first_neighbors = self._filter_nodes_by_label(graph, first_neighbors, node1_label)",
              "second_neighbors = self._filter_nodes_by_label(graph, second_neighbors, node2_label)"]:
        if n not in t2:
            raise ExtractionError("get_first_and_second_neighbor: statement `%s` not found" % n)
    f3 = find_func(pg, "get_stitch_nodes")
    t3 = " ".join(ast.get_source_segment(src2, f3).split())
    if "{'eq': [ABCPropertyGraph.PROP_STITCH_NODE, 'true']}" not in t3:
        raise ExtractionError("get_stitch_nodes: selection changed")
    import fim.graph.abc_property_graph as m
    C = m.ABCPropertyGraph
    import fim.graph.resources.abc_arm as am
    importlib.reload(am)
    from fim.slivers.delegations import DelegationType
    t2p = am.ABCARMPropertyGraph.DELEGATION_TYPE_TO_PROP
    return {"link_traces": link_traces, "owner_traces": owner_traces, "cp_class": cp_class, "drops_k": drops_k,
            "stitch_prop": C.PROP_STITCH_NODE, "stitch_true": "true",
            "ldel": t2p[DelegationType.LABEL], "cdel": t2p[DelegationType.CAPACITY], "none": C.NEO4j_NONE,
            "span": [span_hash(src, fn), span_hash(src2, f2), span_hash(src2, f3)]}


def _traces(ts):
    return lean_list(["(%s, %s, %s, %s)" % tuple(lean_str(x) for x in t) for t in ts])


def generate():
    c = extract()
    body = ""
    body += "/-- `neighbor_drop_list.append(k)` (true) or `.append(n)` (false) in the second-hop relation filter -/\n"
    body += "def secondHopDropsK : Bool := %s\n" % ("true" if c["drops_k"] else "false")
    body += "def cpClass : String := %s\n" % lean_str(c["cp_class"])
    body += "/-- (rel1, node1_label, rel2, node2_label) of the calls in the first `for cp in keep_cps` loop (second element becomes a new cp) -/\n"
    body += "def linkTraces : List (String × String × String × String) := %s\n" % _traces(c["link_traces"])
    body += "/-- the calls in the second `for cp in keep_cps` loop -/\n"
    body += "def ownerTraces : List (String × String × String × String) := %s\n" % _traces(c["owner_traces"])
    body += "def stitchProp : String := %s\n" % lean_str(c["stitch_prop"])
    body += "def stitchTrue : String := %s\n" % lean_str(c["stitch_true"])
    body += "def labelDelegationsProp : String := %s\n" % lean_str(c["ldel"])
    body += "def capacityDelegationsProp : String := %s\n" % lean_str(c["cdel"])
    body += "def noneMarker : String := %s\n" % lean_str(c["none"])
    changed = emit("ArmCfg", body)
    return {"changed": changed, "link_traces": c["link_traces"], "owner_traces": c["owner_traces"], "cp_class": c["cp_class"],
            "second_hop_drops_k": c["drops_k"], "span": c["span"]}
