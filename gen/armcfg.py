"""Extract the keep-set recipe of ABCARMPropertyGraph.generate_adms (C13) into Lean - by behavioural probing.

The Lean model (Model/Arm.lean) is parametric in a configuration `Cfg`:

    dropsK       does the second-hop relation filter of get_first_and_second_neighbor filter (k) or is it inert (n)
    cpClass      the class whose members among the definite keep nodes are the seeds of the traces
    linkTraces   (rel1, l1, rel2, l2) queries whose second element becomes a connection point that is traced in turn
    linkRounds   how often that is repeated: none = until nothing new turns up, some k = k passes
    ownerTraces  queries made from every connection point kept after the link traces; results kept, not followed
    stitchProp / stitchTrue   what get_stitch_nodes selects on

Earlier versions matched the AST of generate_adms statement by statement; any harmless rewrite (extracting the
closure into a helper method, a local alias for delegations_info[del_id], a loop over the two owner labels, a
comprehension instead of an append loop in the backend) broke the extraction.  Now the SOURCE TEXT IS NOT MATCHED:

 1. get_first_and_second_neighbor of the in-memory backend is run on an exhaustive family of small probe graphs and
    compared with the two variants of the model's `firstSecond`; exactly one must agree everywhere  -> dropsK
 2. get_stitch_nodes is run on a probe graph carrying every near miss of the selection           -> stitchProp/True
 3. generate_adms is run on probe ARMs (hand-made discriminating ones plus a fixed pseudo-random family) through a
    real NetworkXARMGraph whose two-hop query and class query are recorded: the recorded calls give the VOCABULARY
    (the distinct query tuples in order of first use, the class asked for); every assignment of roles (link/owner) to
    the tuples and every number of rounds (1, 2, fixed point) is a CANDIDATE member of the model family; a Python
    rendering of the model's `keepOn` predicts the node set of every partition for every candidate; exactly one
    candidate must predict every observed partition                                                -> the rest
 3b. the model carries a delegation entry as the text the ARM has; the real code decodes it into Labels / Capacities
    objects (helper module fim/slivers/capacities_labels.py) and encodes it again: `probe_entries` partitions and re-keys
    a probe ARM whose entries span the value shapes (list-valued labels not in sorted order / with repeats / of one
    element / empty, '' values, capacities; single, pool definition, pool reference) and demands the same JSON value
 4. best-effort static cross-check: every get_first_and_second_neighbor call in abc_arm.py whose arguments are
    constants must have been exercised by the probes (otherwise the probes are blind to it).

Anything else (no candidate fits, two fit, a crash) is an ExtractionError: the pipeline then falls back to the baseline
model and lets correspondence + oracle decide.
"""
import ast
import itertools
import json
import random

from .common import *

ARM = "fim/graph/resources/abc_arm.py"
NXPG = "fim/graph/networkx_property_graph.py"

CP, LINK, NS, NN, COMP = "ConnectionPoint", "Link", "NetworkService", "NetworkNode", "Component"


# ---------------------------------------------------------------------------
# probe graphs: {"nodes": [[id, cls, {props}, ldel, cdel]], "edges": [[a, b, rel]]}; ldel/cdel = None | {id: entry}


def _fresh_store():
    from fim.graph.networkx_property_graph import NetworkXGraphStorage
    NetworkXGraphStorage.storage_instance = None


def _load(w, graph_id="probe-arm"):
    import networkx as nx
    from fim.graph.networkx_property_graph import NetworkXGraphImporter, NetworkXPropertyGraph
    _fresh_store()
    imp = NetworkXGraphImporter()
    g = nx.Graph()
    for i, c, ps, l, cd in w["nodes"]:
        a = {"NodeID": i, "Class": c}
        a.update(ps)
        for name, v in (("LabelDelegations", l), ("CapacityDelegations", cd)):
            if v is not None:
                a[name] = json.dumps(v)
        g.add_node(i, **a)
    for a, b, r in w["edges"]:
        g.add_edge(a, b, Class=r)
    imp.storage.add_graph(graph_id, g)
    return NetworkXPropertyGraph(graph_id=graph_id, importer=imp)


class _View:
    """adjacency view of a probe graph for the reference functions"""

    def __init__(self, w):
        self.cls = {n[0]: n[1] for n in w["nodes"]}
        self.props = {n[0]: n[2] for n in w["nodes"]}
        self.dels = {n[0]: (n[3], n[4]) for n in w["nodes"]}
        self.order = [n[0] for n in w["nodes"]]
        self.nbrs = {i: [] for i in self.order}
        for a, b, r in w["edges"]:
            self.nbrs[a].append((b, r))
            if a != b:
                self.nbrs[b].append((a, r))


def ref_first_second(drops_k, v, x, t):
    """Model/Arm.lean `firstSecond` (as a list of pairs)"""
    rel1, l1, rel2, l2 = t
    out = []
    for n in [y for y, r in v.nbrs[x] if r == rel1 and v.cls.get(y) == l1]:
        if drops_k:
            drop = [k for k, r in v.nbrs[n] if r != rel2]
        else:
            drop = [n] if any(r != rel2 for _, r in v.nbrs[n]) else []
        for k, _ in v.nbrs[n]:
            if k not in drop and v.cls.get(k) == l2 and k != x:
                out.append((n, k))
    return out


def ref_keep(cand, v, d, stitch):
    """Model/Arm.lean `keepOn` for one candidate configuration -> set of kept ids"""
    holders = [i for i in v.order if any(x is not None and d in x for x in v.dels[i])]
    k0 = holders + stitch
    cps = [i for i in k0 if v.cls[i] == cand["cp_class"]]
    keep = set(k0)
    seen, front = list(cps), list(cps)
    rounds = cand["rounds"]
    fuel = len(v.order) + 1 if rounds is None else rounds
    while fuel > 0 and front:
        fuel -= 1
        ps = [p for c in front for t in cand["link"] for p in ref_first_second(cand["drops_k"], v, c, t)]
        for p in ps:
            keep.update(p)
        new = []
        for _, k in ps:
            if k not in seen and k not in new:
                new.append(k)
        seen += new
        front = new
    for c in seen:
        for t in cand["owner"]:
            for p in ref_first_second(cand["drops_k"], v, c, t):
                keep.update(p)
    return keep


# ---------------------------------------------------------------------------
# 1. the two-hop query


def _two_hop_probes():
    """x - n? - k? shapes over two relations and three classes: every subset of a small edge menu"""
    probes = []
    menu = [("x", "n1", "r1"), ("x", "n2", "r1"), ("x", "n3", "r2"), ("n1", "k1", "r2"), ("n1", "k2", "r1"), ("n1", "k3", "r2"),
            ("n2", "k1", "r2"), ("n2", "x2", "r2"), ("n1", "n2", "r2"), ("k1", "x", "r2")]
    classes = {"x": "A", "x2": "A", "n1": "B", "n2": "B", "n3": "B", "k1": "A", "k2": "A", "k3": "C"}
    for m in range(1 << len(menu)):
        edges = [e for i, e in enumerate(menu) if m >> i & 1]
        if not any(e[0] == "x" or e[1] == "x" for e in edges):
            continue
        ids = sorted({i for e in edges for i in e[:2]} | {"x"})
        probes.append({"nodes": [[i, classes[i], {}, None, None] for i in ids], "edges": [list(e) for e in edges]})
    return probes


def probe_two_hop():
    probes = _two_hop_probes()
    queries = [("r1", "B", "r2", "A"), ("r1", "B", "r1", "A"), ("r2", "B", "r2", "A"), ("r1", "B", "r2", "C")]
    ok = {True: True, False: True}
    differ = False
    n = 0
    for w in probes:
        g = _load(w)
        v = _View(w)
        for t in queries:
            try:
                got = g.get_first_and_second_neighbor(node_id="x", rel1=t[0], node1_label=t[1], rel2=t[2], node2_label=t[3])
            except Exception as e:
                raise ExtractionError("get_first_and_second_neighbor raised %s on probe %s" % (type(e).__name__, json.dumps(w)[:300]))
            got = sorted(tuple(p) for p in got)
            n += 1
            pred = {dk: sorted(ref_first_second(dk, v, "x", t)) for dk in (True, False)}
            differ = differ or pred[True] != pred[False]
            for dk in (True, False):
                if got != pred[dk]:
                    ok[dk] = False
            if not ok[True] and not ok[False]:
                raise ExtractionError("get_first_and_second_neighbor is neither variant of the model's firstSecond: probe %s query %s "
                                      "gives %s, model %s (filtering) / %s (inert)" % (json.dumps(w)[:300], t, got, pred[True], pred[False]))
    _fresh_store()
    if not differ or (ok[True] and ok[False]):
        raise ExtractionError("two-hop probes do not discriminate the variants of the second-hop filter")
    return ok[True], n


# ---------------------------------------------------------------------------
# 2. stitch nodes


def probe_stitch():
    import fim.graph.abc_property_graph as m
    prop = m.ABCPropertyGraph.PROP_STITCH_NODE
    val = "true"
    near = [("s1", {prop: val}), ("s2", {prop: val, "Name": "x"}), ("f1", {prop: "false"}), ("f2", {prop: "True"}), ("f3", {prop: "TRUE"}),
            ("f4", {prop: "1"}), ("f5", {}), ("f6", {"Name": val}), ("f7", {prop.lower(): val}), ("f8", {prop + "s": val}), ("f9", {prop: "None"})]
    w = {"nodes": [[i, NN if k % 2 else CP, ps, None, None] for k, (i, ps) in enumerate(near)], "edges": [["s1", "f1", "has"]]}
    g = _load(w)
    # a second graph in the same store whose stitch node must not be reported
    import networkx as nx
    other = nx.Graph()
    other.add_node("o1", NodeID="o1", Class=NN, **{prop: val})
    g.importer.storage.add_graph("probe-other", other)
    try:
        got = sorted(g.get_stitch_nodes())
    except Exception as e:
        raise ExtractionError("get_stitch_nodes raised %s on the probe graph" % type(e).__name__)
    _fresh_store()
    if got != ["s1", "s2"]:
        raise ExtractionError("get_stitch_nodes does not select exactly the nodes of this graph with %s == %r: got %s" % (prop, val, got))
    return prop, val


# ---------------------------------------------------------------------------
# 3. the closure recipe of generate_adms

_E = {"pool": "p"}


def _closure_probes():
    """hand-made ARMs that tell the candidates apart, then a fixed pseudo-random family"""
    def n(i, c, ps=None, l=None, cd=None):
        return [i, c, ps or {}, l, cd]
    d1, d2 = {"d1": _E}, {"d2": _E}
    st = {"StitchNode": "true"}
    out = []
    # a chain of connection points over links, every one with its service and owner; only the head is delegated
    nodes, edges = [], []
    for k in range(5):
        nodes += [n("c%d" % k, CP, None, d1 if k == 0 else None), n("s%d" % k, NS), n("o%d" % k, NN if k % 2 else COMP, None, None, d2 if k == 4 else None)]
        edges += [["c%d" % k, "s%d" % k, "connects"], ["s%d" % k, "o%d" % k, "has"]]
        if k:
            nodes.append(n("l%d" % k, LINK))
            edges += [["c%d" % (k - 1), "l%d" % k, "connects"], ["l%d" % k, "c%d" % k, "connects"]]
    out.append({"nodes": nodes, "edges": edges})
    # the same chain hanging off a stitch connection point instead of a delegated one, the delegation elsewhere
    nodes2 = [([i, c, dict(st) if i == "c0" else ps, None if i == "c0" else l, cd]) for i, c, ps, l, cd in nodes] + [n("z", NN, None, d1)]
    out.append({"nodes": nodes2, "edges": edges})
    # owners that look like seeds: a delegated NetworkNode / Component / NetworkService / Link with 'connects' edges of its own
    out.append({"nodes": [n("c", CP, None, d1), n("s", NS), n("o", NN), n("s2", NS), n("o2", NN), n("o3", COMP), n("l", LINK), n("c2", CP),
                          n("x", NN, None, None, d2), n("xs", NS), n("xo", NN), n("y", LINK, None, d2), n("yc", CP), n("ys", NS), n("yo", COMP),
                          n("sc", NS), n("oc", COMP), n("s3", NS), n("o4", NN), n("l2", LINK), n("c3", CP), n("s4", NS), n("o5", COMP)],
                "edges": [["c", "sc", "connects"], ["sc", "oc", "has"], ["oc", "s3", "connects"], ["s3", "o4", "has"], ["oc", "l2", "connects"],
                          ["l2", "c3", "connects"], ["oc", "s4", "connects"], ["s4", "o5", "has"],
                          ["c", "s", "connects"], ["s", "o", "has"], ["o", "s2", "connects"], ["s2", "o2", "has"], ["s2", "o3", "has"],
                          ["o", "l", "connects"], ["l", "c2", "connects"],
                          ["x", "xs", "connects"], ["xs", "xo", "has"], ["y", "yc", "connects"], ["yc", "ys", "connects"], ["ys", "yo", "has"]]})
    # a port with three links (the facility-facing port), ends delegated differently; a link reached over 'has'
    out.append({"nodes": [n("p", CP, None, d1), n("la", LINK), n("a", CP, None, None, d2), n("lb", LINK), n("b", CP), n("lc", LINK), n("c", CP, st),
                          n("b2l", LINK), n("b2", CP), n("as", NS), n("ao", NN), n("bs", NS), n("bo", COMP), n("b2s", NS), n("b2o", NN), n("hl", LINK), n("hc", CP)],
                "edges": [["p", "la", "connects"], ["la", "a", "connects"], ["p", "lb", "connects"], ["lb", "b", "connects"], ["p", "lc", "connects"],
                          ["lc", "c", "connects"], ["b", "b2l", "connects"], ["b2l", "b2", "connects"], ["a", "as", "connects"], ["as", "ao", "has"],
                          ["b", "bs", "connects"], ["bs", "bo", "has"], ["b2", "b2s", "connects"], ["b2s", "b2o", "has"],
                          ["a", "hl", "has"], ["hl", "hc", "connects"]]})
    rng = random.Random("armcfg-probes")
    for _ in range(40):
        k = rng.randint(3, 9)
        ids = ["d1", "d2", "d3"][:rng.randint(1, 3)]
        nodes = []
        for i in range(k):
            def dp():
                return None if rng.random() < 0.6 else {x: _E for x in rng.sample(ids, rng.randint(1, len(ids)))}
            nodes.append(n("n%d" % i, rng.choice([CP, CP, CP, LINK, NS, NS, NN, COMP]), dict(st) if rng.random() < 0.15 else {}, dp(), dp()))
        es = {}
        for _ in range(rng.randint(k - 1, 2 * k)):
            a, b = rng.randrange(k), rng.randrange(k)
            if a != b:
                es[(min(a, b), max(a, b))] = ["n%d" % min(a, b), "n%d" % max(a, b), rng.choice(["connects", "connects", "has"])]
        out.append({"nodes": nodes, "edges": [es[x] for x in sorted(es)]})
    return out


def _observe(w):
    """run generate_adms on probe ARM w; -> (two-hop calls, class queries, {delegation id: set of node ids})"""
    from fim.graph.resources.networkx_arm import NetworkXARMGraph
    g = _load(w)
    arm = NetworkXARMGraph(graph=g)
    calls, classes = [], []
    real2, realc = arm.get_first_and_second_neighbor, arm.get_all_nodes_by_class

    def spy2(*a, **kw):
        if a or sorted(kw) != ["node1_label", "node2_label", "node_id", "rel1", "rel2"]:
            raise ExtractionError("generate_adms calls get_first_and_second_neighbor with other arguments: %s %s" % (a, sorted(kw)))
        calls.append((kw["node_id"], (kw["rel1"], kw["node1_label"], kw["rel2"], kw["node2_label"])))
        return real2(**kw)

    def spyc(*a, **kw):
        classes.append(kw.get("label", a[0] if a else None))
        return realc(*a, **kw)
    arm.get_first_and_second_neighbor = spy2
    arm.get_all_nodes_by_class = spyc
    ids = sorted({d for nd in w["nodes"] for x in nd[3:5] if x for d in x})
    try:
        adms = arm.generate_adms(delegation_guids={d: "probe-adm-" + d for d in ids})
    except ExtractionError:
        raise
    except Exception as e:
        raise ExtractionError("generate_adms raised %s (%s) on probe ARM %s" % (type(e).__name__, str(e)[:120], json.dumps(w)[:300]))
    return calls, classes, {d: set(a.list_all_node_ids()) for d, a in adms.items()}


def probe_closure(drops_k, stitch_prop, stitch_true):
    probes = _closure_probes()
    obs = []
    vocab, classes = [], []
    for w in probes:
        calls, cl, parts = _observe(w)
        for _, t in calls:
            if t not in vocab:
                vocab.append(t)
        for c in cl:
            if c not in classes:
                classes.append(c)
        v = _View(w)
        stitch = [i for i in v.order if v.props[i].get(stitch_prop) == stitch_true]
        ids = sorted({d for x in v.dels.values() for y in x if y for d in y})
        if sorted(parts) != ids:
            raise ExtractionError("generate_adms returns models for %s on a probe ARM with delegation ids %s" % (sorted(parts), ids))
        obs.append((v, stitch, parts, calls))
    _fresh_store()
    if len(classes) != 1 or not isinstance(classes[0], str):
        raise ExtractionError("generate_adms asks get_all_nodes_by_class for %s (expected one class: the connection points)" % classes)
    if not vocab or len(vocab) > 6:
        raise ExtractionError("generate_adms made %d distinct two-hop queries on the probe ARMs (model family: 1..6)" % len(vocab))
    fits = []
    for roles in itertools.product((0, 1), repeat=len(vocab)):
        for rounds in (1, 2, None):
            cand = {"drops_k": drops_k, "cp_class": classes[0], "rounds": rounds,
                    "link": [t for t, r in zip(vocab, roles) if r == 0], "owner": [t for t, r in zip(vocab, roles) if r == 1]}
            if all(ref_keep(cand, v, d, stitch) & set(v.order) == got for v, stitch, parts, _ in obs for d, got in parts.items()):
                fits.append(cand)
    if not fits:
        raise ExtractionError("the partitions generate_adms produces on the probe ARMs are not those of any member of the model family "
                              "(vocabulary %s, class %s)" % (vocab, classes[0]))
    if len(fits) > 1:
        raise ExtractionError("probe ARMs do not discriminate %d members of the model family: %s" % (len(fits), fits))
    cand = fits[0]
    # a query only ever issued from connection points the link traces found must still have been issued: every recorded call is
    # one the fitted member makes (seed/peer connection point x its traces); more calls than that = behaviour the model does not have
    for v, stitch, parts, calls in obs:
        allowed = set(cand["link"]) | set(cand["owner"])
        if any(t not in allowed for _, t in calls):
            raise ExtractionError("recorded a two-hop query outside the fitted vocabulary")
    return cand, vocab, len(obs)


# ---------------------------------------------------------------------------
# 3b. delegation entries are opaque to the partition: the model (Model/Arm.lean) carries an entry as the text it has on the ARM, the
# real code decodes it (Delegations.from_json -> Labels / Capacities objects) and encodes it again. Probe that this is the identity
# on JSON values over the value shapes of an entry: scalar and list-valued labels (lists not in sorted order, with repeats, of one
# element, empty; '' values), capacities, single entries, pool definitions and references - in the partition and after re-keying.

_ENTRY_DETAILS = [
    ("l", {"vlan_range": "1-100", "local_name": "p1"}), ("l", {"vlan_range": ["3000-3100", "1000-1100"]}),
    ("l", {"vlan_range": ["200-300", "100-150", "200-300"], "mac": "00:00:00:00:02:01"}),
    ("l", {"ipv4_range": ["192.168.2.1-192.168.2.10", "192.168.1.1-192.168.1.10"], "ipv6_range": ["2001:db8::10-2001:db8::20", "2001:db8::1-2001:db8::5"]}),
    ("l", {"mac": ["0C:42:A1:EA:C7:61", "0C:42:A1:EA:C7:60"], "local_name": ["p2", "p1", "p2"], "bdf": ["0000:41:00.1", "0000:41:00.0"]}),
    ("l", {"ipv4_subnet": ["192.168.2.0/24", "192.168.1.0/24"], "ipv6_subnet": ["2001:db8:1::/64", "2001:db8::/64"], "asn": ["65001", "65000"], "vlan": ["200", "100"]}),
    ("l", {"ipv4": ["192.168.1.2", "192.168.1.1"], "ipv6": ["2001:db8::2", "2001:db8::1"], "numa": ["1", "0", "1"], "inner_vlan": ["30", "20"]}),
    ("l", {"vlan_range": ["7-9"], "vlan": ["7"]}), ("l", {"vlan_range": [], "local_name": ""}), ("l", {"ipv6": "", "instance": "", "device_name": ["", ""]}),
    ("l", {"local_type": ["t2", "t1"], "instance_parent": ["b", "a"], "instance": ["i2", "i1"]}),
    ("c", {"unit": 1}), ("c", {"core": 32, "ram": 128, "disk": 100}), ("c", {"cpu": 2, "burst_size": 8, "mtu": 9000, "bw": 25}),
]


def probe_entries():
    """-> number of entries checked; ExtractionError when an entry is not carried as the JSON value the ARM has"""
    from fim.graph.resources.networkx_arm import NetworkXARMGraph
    from fim.graph.resources.networkx_adm import NetworkXADMGraph
    nodes, edges, want = [["sv", NS, {}, None, None], ["ow", NN, {}, None, None]], [["sv", "ow", "has"]], {}
    for k, (t, det) in enumerate(_ENTRY_DETAILS):
        i, f = "e%d" % k, "labels" if t == "l" else "capacities"
        d, o = ("d1", "d2") if k % 2 else ("d2", "d1")
        ent = {d: {"pool_id": "_", f: det}, o: {"pool_id": "pl%d" % k, f: det}}
        nodes.append([i, CP, {}, ent if t == "l" else None, ent if t == "c" else None])
        nodes.append([i + "r", CP, {}, {o: {"pool": "pl%d" % k}} if t == "l" else None, {o: {"pool": "pl%d" % k}} if t == "c" else None])
        edges += [["sv", i, "connects"], ["sv", i + "r", "connects"]]
        want[i], want[i + "r"] = (t, ent), (t, {o: {"pool": "pl%d" % k}})
    w = {"nodes": nodes, "edges": edges}
    n = 0
    try:
        arm = NetworkXARMGraph(graph=_load(w))
        adms = arm.generate_adms(delegation_guids={"d1": "probe-adm-d1", "d2": "probe-adm-d2"})
        for d, adm in sorted(adms.items()):
            for stage in ("partition", "re-keyed partition"):
                key = d if stage == "partition" else "real-" + d
                if stage != "partition":
                    NetworkXADMGraph(graph_id=adm.graph_id, importer=adm.importer).rewrite_delegations(real_adm_id=key)
                for i, (t, ent) in want.items():
                    if d not in ent:
                        continue
                    _, props = adm.get_node_properties(node_id=i)
                    got = props.get("LabelDelegations" if t == "l" else "CapacityDelegations")
                    got = json.loads(got) if isinstance(got, str) and got != "None" else got
                    if got != {key: ent[d]}:
                        raise ExtractionError("the %s of %s does not carry the delegation entry of the model as it is (JSON value): "
                                              "model %s, %s %s" % (stage, d, json.dumps(ent[d]), stage, json.dumps(got)))
                    n += 1
    except ExtractionError:
        raise
    except Exception as e:
        raise ExtractionError("%s (%s) while partitioning / re-keying the entry probe ARM" % (type(e).__name__, str(e)[:160]))
    finally:
        _fresh_store()
    return n


# ---------------------------------------------------------------------------
# 4. static cross-check


def _const(node):
    """ABCPropertyGraph.X / self.X / 'literal'  ->  its string value in the running code, else None"""
    if isinstance(node, ast.Constant) and isinstance(node.value, str):
        return node.value
    if isinstance(node, ast.Attribute) and isinstance(node.value, ast.Name) and node.value.id in ("ABCPropertyGraph", "self"):
        import fim.graph.abc_property_graph as m
        v = getattr(m.ABCPropertyGraph, node.attr, None)
        if isinstance(v, str):
            return v
    return None


def static_traces():
    """two-hop query tuples written out with constant arguments anywhere in ABCARMPropertyGraph; (resolved, unresolved count)"""
    tree, src = parse(ARM)
    cls = find_class(tree, "ABCARMPropertyGraph")
    out, dyn = [], 0
    for c in ast.walk(cls):
        if isinstance(c, ast.Call) and isinstance(c.func, ast.Attribute) and c.func.attr == "get_first_and_second_neighbor":
            kw = {k.arg: _const(k.value) for k in c.keywords if k.arg}
            t = tuple(kw.get(k) for k in ("rel1", "node1_label", "rel2", "node2_label"))
            if all(x is not None for x in t):
                if t not in out:
                    out.append(t)
            else:
                dyn += 1
    return out, dyn


def extract():
    import fim.graph.abc_property_graph as m
    C = m.ABCPropertyGraph
    import fim.graph.resources.abc_arm as am
    from fim.slivers.delegations import DelegationType
    try:
        drops_k, n2 = probe_two_hop()
        stitch_prop, stitch_true = probe_stitch()
        cand, vocab, n3 = probe_closure(drops_k, stitch_prop, stitch_true)
        n4 = probe_entries()
    finally:
        _fresh_store()
    st, dyn = static_traces()
    missing = [t for t in st if t not in vocab]
    if missing:
        raise ExtractionError("abc_arm.py contains two-hop queries the probe ARMs never exercised: %s" % missing)
    t2p = am.ABCARMPropertyGraph.DELEGATION_TYPE_TO_PROP
    return {"link_traces": cand["link"], "owner_traces": cand["owner"], "link_rounds": cand["rounds"], "cp_class": cand["cp_class"],
            "drops_k": drops_k, "stitch_prop": stitch_prop, "stitch_true": stitch_true,
            "ldel": t2p[DelegationType.LABEL], "cdel": t2p[DelegationType.CAPACITY], "none": C.NEO4j_NONE,
            "probes": {"two_hop_queries": n2, "closure_arms": n3, "entries_verbatim": n4, "static_traces": len(st), "static_unresolved": dyn}}


def _traces(ts):
    return lean_list(["(%s, %s, %s, %s)" % tuple(lean_str(x) for x in t) for t in ts])


def generate():
    c = extract()
    body = ""
    body += "/-- the second-hop relation filter of `get_first_and_second_neighbor` filters (true) or is inert (false: `append(n)`) -/\n"
    body += "def secondHopDropsK : Bool := %s\n" % ("true" if c["drops_k"] else "false")
    body += "def cpClass : String := %s\n" % lean_str(c["cp_class"])
    body += "/-- (rel1, node1_label, rel2, node2_label) of the queries whose second element becomes a connection point that is traced in turn -/\n"
    body += "def linkTraces : List (String × String × String × String) := %s\n" % _traces(c["link_traces"])
    body += "/-- passes of the link traces: `none` = repeated until no new connection point turns up -/\n"
    body += "def linkRounds : Option Nat := %s\n" % ("none" if c["link_rounds"] is None else "some %d" % c["link_rounds"])
    body += "/-- the queries made from every connection point kept after the link traces (results kept, not followed) -/\n"
    body += "def ownerTraces : List (String × String × String × String) := %s\n" % _traces(c["owner_traces"])
    body += "def stitchProp : String := %s\n" % lean_str(c["stitch_prop"])
    body += "def stitchTrue : String := %s\n" % lean_str(c["stitch_true"])
    body += "def labelDelegationsProp : String := %s\n" % lean_str(c["ldel"])
    body += "def capacityDelegationsProp : String := %s\n" % lean_str(c["cdel"])
    body += "def noneMarker : String := %s\n" % lean_str(c["none"])
    changed = emit("ArmCfg", body)
    return {"changed": changed, "link_traces": c["link_traces"], "owner_traces": c["owner_traces"], "link_rounds": c["link_rounds"],
            "cp_class": c["cp_class"], "second_hop_drops_k": c["drops_k"], "probes": c["probes"]}
