#!/bin/bash
# Build the framework from files on disk only (offline).  Regenerates the translated
# tables from /repo's working tree, then builds every proof module and the driver protocol.
set -e
set -o pipefail
HERE="$(cd "$(dirname "${BASH_SOURCE[0]}")" && pwd)"
export PYTHONPATH="/repo:$HERE/harness:$HERE"
export PYTHONDONTWRITEBYTECODE=1
cd "$HERE"
mkdir -p evidence replays
/venv/bin/python harness/genall.py
cd lean
lake build 2>&1 | tail -40
# the driver scripts are interpreted (`lean --run`), but everything they import must be built
DRV=$(grep -h '^import FimVerif' FimVerif/Drivers/C*.lean | awk '{print $2}' | sort -u | tr '\n' ' ')
lake build $DRV 2>&1 | tail -20
