#!/bin/bash
# Build the framework from files on disk only (offline).  Regenerates the translated
# tables from /repo's working tree, then builds every proof module and the driver protocol.
set -e
set -o pipefail
HERE="$(cd "$(dirname "${BASH_SOURCE[0]}")" && pwd)"
export PYTHONPATH="/repo:$HERE/harness:$HERE"
export PYTHONDONTWRITEBYTECODE=1
cd "$HERE"
mkdir -p evidence replays
/venv/bin/python harness/genall.py
cd lean
# every property's proof module, and everything the interpreted (`lean --run`) driver scripts import
PROOFS=$(ls FimVerif/Proofs/C*.lean | sed 's#/#.#g; s#\.lean$##' | tr '\n' ' ')
DRV=$(grep -h '^import FimVerif' FimVerif/Drivers/C*.lean | awk '{print $2}' | sort -u | tr '\n' ' ')
lake build $PROOFS $DRV 2>&1 | tail -40
# the library root (imports all of the above at once); its failure alone does not stop a check from working
lake build 2>&1 | tail -5 || echo "WARNING: root target FimVerif did not build (name clash between property modules?)"
