import FimVerif.Proofs.Lemmas.C08Frame
import FimVerif.Proofs.Lemmas.C08Sep
import FimVerif.Proofs.Lemmas.C08Api
import FimVerif.Proofs.Lemmas.C08Handle
import FimVerif.Proofs.Lemmas.C08Spec
/-!
# C08 — removal and disconnection delete exactly the owned structure and nothing else

Property theorems only; the model is `FimVerif/Model/Remove.lean`, helper lemmas are in
`Proofs/Lemmas/C08*.lean`.
-/
namespace FimVerif.C08
open FimVerif.Remove

/-- every removal / disconnect / un-peer / remove-child / prune call of the public API (and the graph-level
functions they are made of), with the handle caches involved -/
inductive Op
  | removeNode (n : Nat) | removeFacility (n : Nat) | removeSwitch (n : Nat)
  | removeComponent (c : Nat) | removeNs (s : Nat) | removeLink (l : Nat)
  | disconnect (h : List Nat) (i : Nat) | unpeer (ha hb : List Nat) | removeChild (h : List Nat) (p c : Nat)
  | prune (nodes comps nss ifs : List Nat)
  | gRemoveCp (x : Nat) (dp : Bool) | gRemoveComp (x : Nat) | gRemoveNode (x : Nat)

/-- the effect of an operation on the model graph -/
def Op.run : Op → G → Except Err G
  | .removeNode n, g => removeNodeApi g n
  | .removeFacility n, g => removeFacilityApi g n
  | .removeSwitch n, g => removeSwitchApi g n
  | .removeComponent c, g => removeComponentApi g c
  | .removeNs s, g => Remove.removeNs g s
  | .removeLink l, g => removeLinkG g l
  | .disconnect h i, g => (Remove.disconnect g h i).map (·.1)
  | .unpeer ha hb, g => (Remove.unpeer g ha hb).map (·.1)
  | .removeChild h p c, g => (Remove.removeChild g h p c).map (·.1)
  | .prune ns cs ss is, g => Remove.prune g ns cs ss is
  | .gRemoveCp x dp, g => removeCp g x dp
  | .gRemoveComp x, g => removeComp g x
  | .gRemoveNode x, g => removeNodeG g x

/-- **Frame.** Whatever a successful operation does to any graph whatsoever, the result is the old graph
with a set `D` of elements taken away: the surviving elements are the old ones with class, kind and
properties untouched, and the surviving edges are exactly the old edges between survivors
(`G.minus` filters the two lists). Nothing is added, nothing else is changed. -/
theorem remove_frame (op : Op) (g g' : G) (h : op.run g = .ok g') :
    ∃ D : List Nat, g'.nodes = g.nodes.filter (fun n => !D.contains n.id) ∧
         g'.edges = g.edges.filter (fun e => !D.contains e.a && !D.contains e.b) := by
  have key : Shrinks g g' := by
    cases op <;> simp only [Op.run] at h
    case removeNode n => exact removeNodeApi_shrinks _ _ _ h
    case removeFacility n => exact removeFacilityApi_shrinks _ _ _ h
    case removeSwitch n => exact removeSwitchApi_shrinks _ _ _ h
    case removeComponent c => exact removeComponentApi_shrinks _ _ _ h
    case removeNs s => exact removeNs_shrinks _ _ _ h
    case removeLink l => exact removeLinkG_shrinks _ _ _ h
    case disconnect hl i =>
      obtain ⟨r, hr, rfl⟩ := map_ok h
      obtain ⟨r', hr', rfl⟩ := map_ok hr
      exact disconnectG_shrinks _ _ _ hr'
    case unpeer ha hb => obtain ⟨r, hr, rfl⟩ := map_ok h; exact unpeer_shrinks _ _ _ _ hr
    case removeChild hl p c => obtain ⟨r, hr, rfl⟩ := map_ok h; exact removeChild_shrinks _ _ _ _ _ hr
    case prune ns cs ss is => exact prune_shrinks _ _ _ _ _ _ h
    case gRemoveCp x dp => exact removeCp_shrinks _ _ _ _ h
    case gRemoveComp x => exact removeComp_shrinks _ _ _ h
    case gRemoveNode x => exact removeNodeG_shrinks _ _ _ h
  obtain ⟨D, rfl⟩ := key
  exact ⟨D, rfl, rfl⟩

/-- a sequence of `delete_node` calls on distinct present elements removes exactly those elements -/
theorem deleteAll_minus (g : G) (L : List Nat) (hp : ∀ x ∈ L, g.has x = true) (hn : L.Nodup) :
    deleteAll g L = .ok (g.minus L) := FimVerif.Remove.deleteAll_minus g L hp hn

example : deleteAll ⟨[⟨1, .cp, 0, ""⟩, ⟨2, .link, 0, ""⟩], [⟨1, 2, .connects, ""⟩]⟩ [2] = .ok ⟨[⟨1, .cp, 0, ""⟩], []⟩ := by rfl

/-- `Topology.remove_link`: the link element goes, nothing else -/
theorem removeLink_exact (g : G) (l : Nat) (h : g.cls? l = some .link) :
    removeLinkG g l = .ok (g.minus [l]) := by
  simp [removeLinkG, h]

/-! ## Exactness of the recursive removal

Each theorem says: the operation, run as the code runs it (sequential `delete_node` calls, every neighbour
query evaluated on the *current* graph), returns the pre-state minus a set given in closed form **in the
pre-state**.  The hypotheses `Sep…` are explicit decidable predicates on the pre-state (computed by the driver
for every case of the correspondence run, where they hold on every topology built through the API under the
stated assumptions): they say that the structures removed one after the other do not overlap and that a link
with other than two ends has at most one end in what is removed.  The proofs are inductions over the
removal loops (`seqCp`, `seqNs`, `seqComp`), not enumerations. -/

/-- membership in the closed form of `remove_cp_and_links(x, dp)`: the interface; with `dp`, each
connection-point neighbour that has no other connection-point neighbour (the sub-interfaces of `x`, or the
parent of an only child); and every Link at one of those that joins exactly two connection points -/
theorem mem_cpDel (g : G) (x : Nat) (dp : Bool) (y : Nat) :
    y ∈ cpDel g x dp ↔
      y = x ∨ (y ∈ g.nbrs x .connects .cp ∧ (g.nbrs y .connects .cp).length = 1 ∧ dp = true) ∨
      ∃ i, (i = x ∨ (i ∈ g.nbrs x .connects .cp ∧ (g.nbrs i .connects .cp).length = 1 ∧ dp = true)) ∧
        y ∈ g.nbrs i .connects .link ∧ (g.nbrs y .connects .cp).length = 2 := by
  simp only [cpDel, mem_dedup, List.mem_append, cpFamily, cpLinks, List.mem_cons, List.mem_filter,
    List.mem_flatMap, Bool.and_eq_true, beq_iff_eq]
  constructor
  · rintro ((h | h) | ⟨i, hi, h⟩)
    · exact Or.inl h
    · exact Or.inr (Or.inl ⟨h.1, h.2.1, h.2.2⟩)
    · exact Or.inr (Or.inr ⟨i, hi.imp id (fun h => ⟨h.1, h.2.1, h.2.2⟩), h⟩)
  · rintro (h | h | ⟨i, hi, h⟩)
    · exact Or.inl (Or.inl h)
    · exact Or.inl (Or.inr ⟨h.1, h.2.1, h.2.2⟩)
    · exact Or.inr ⟨i, hi.imp id (fun h => ⟨h.1, h.2.1, h.2.2⟩), h⟩

/-- **`remove_cp_and_links`** (also `disconnect`, `remove_child_interface`, `unpeer`, which call it): for *every*
graph and every present element, the result is the graph minus `cpDel` (characterised by `mem_cpDel`). -/
theorem removeCp_exact (g : G) (x : Nat) (dp : Bool) (hx : g.has x = true) :
    removeCp g x dp = .ok (g.minus (cpDel g x dp)) := removeCp_minus g x dp hx

/-- **`remove_ns_with_cps_and_links`** (`Topology.remove_network_service`, `Node.remove_network_service`):
induction over the interface loop. -/
theorem removeNs_exact (g : G) (s : Nat) (h : SepNs g [] s = true) :
    removeNs g s = .ok (g.minus (nsDel g s)) := by
  have := removeNs_after g [] s h
  simpa [minus_nil] using this

/-- **`remove_component_with_nss_cps_and_links`**: induction over the component's services, each an induction over
its interfaces. -/
theorem removeComp_exact (g : G) (c : Nat) (h : SepComp g [] c = true) :
    removeComp g c = .ok (g.minus (compDel g c)) := by
  have := removeComp_after g [] c h
  simpa [minus_nil] using this

/-- **`remove_network_node_with_components_nss_cps_and_links`**: components first, then the node, then its services. -/
theorem removeNodeG_exact (g : G) (n : Nat) (h : SepNode g [] n = true) :
    removeNodeG g n = .ok (g.minus (nodeDel g n)) := by
  have := removeNodeG_after g [] n h
  simpa [minus_nil] using this

/-- a VM `10` with component `11`, its service `12` with ports `13` (sub-interface `15`) and `14`; a service `20` with
port `21` joined to `14` by link `30`; `13`, `15` and the far interface `40` share the three-ended link `31` -/
def exG : G :=
  { nodes := [⟨10, .node, 0, "n"⟩, ⟨11, .comp, 0, "c"⟩, ⟨12, .ns, 0, "ovs"⟩, ⟨13, .cp, 4, "p1"⟩, ⟨14, .cp, 4, "p2"⟩,
              ⟨15, .cp, 0, "ch"⟩, ⟨20, .ns, 0, "s"⟩, ⟨21, .cp, 1, "sp"⟩, ⟨30, .link, 0, "l"⟩, ⟨40, .cp, 0, "far"⟩,
              ⟨41, .cp, 0, "far2"⟩, ⟨31, .link, 0, "shared"⟩],
    edges := [⟨10, 11, .has, ""⟩, ⟨11, 12, .has, ""⟩, ⟨12, 13, .connects, ""⟩, ⟨12, 14, .connects, ""⟩, ⟨13, 15, .connects, ""⟩,
              ⟨20, 21, .connects, ""⟩, ⟨30, 14, .connects, ""⟩, ⟨30, 21, .connects, ""⟩, ⟨31, 15, .connects, ""⟩,
              ⟨31, 40, .connects, ""⟩, ⟨31, 41, .connects, ""⟩] }

example : SepNs exG [] 12 = true := by decide
example : SepComp exG [] 11 = true := by decide
example : SepNode exG [] 10 = true := by decide
example : nodeDel exG 10 = [11, 12, 13, 15, 14, 30, 10] := by decide

/-! ## The public calls: disconnect loop, then the recursive removal -/

/-- **`Topology.remove_node(name)`**: every first-level interface with exactly one ServicePort peer is disconnected
(port and link deleted), then the node's structure goes. -/
theorem removeNodeApi_exact (g : G) (n : Nat) (hk : (g.cls? n == some .node && g.kind? n != some kFacility) = true)
    (h : SepNodeApi g n = true) : removeNodeApi g n = .ok (g.minus (nodeApiDel g n)) := removeNodeApi_closed g n hk h

/-- **`Topology.remove_facility(name=)`** -/
theorem removeFacilityApi_exact (g : G) (n : Nat) (hk : (g.cls? n == some .node && g.kind? n == some kFacility) = true)
    (h : SepNodeApi g n = true) : removeFacilityApi g n = .ok (g.minus (nodeApiDel g n)) := removeFacilityApi_closed g n hk h

/-- **`Topology.remove_switch(name=)`** -/
theorem removeSwitchApi_exact (g : G) (n : Nat) (hk : (g.cls? n == some .node && g.kind? n == some kSwitch) = true)
    (h : SepNodeApi g n = true) : removeSwitchApi g n = .ok (g.minus (nodeApiDel g n)) := by
  simp only [Bool.and_eq_true, beq_iff_eq] at hk
  have hk' : (g.cls? n == some .node && g.kind? n != some kFacility) = true := by
    simp [hk.1, hk.2, kSwitch, kFacility]
  simp only [removeSwitchApi, hk.1, hk.2, beq_self_eq_true, Bool.and_self, ite_true]
  exact removeNodeApi_closed g n hk' h

/-- **`Node.remove_component(name)`** -/
theorem removeComponentApi_exact (g : G) (c : Nat) (h : SepCompApi g c = true) :
    removeComponentApi g c = .ok (g.minus (compApiDel g c)) := removeComponentApi_closed g c h

example : SepNodeApi exG 10 = true := by decide
example : nodeApiDel exG 10 = [21, 30, 11, 12, 13, 15, 14, 30, 10] := by decide
example : SepCompApi exG 11 = true := by decide

/-! ## Handles

`h` is the interface list cached in the handle the call goes through; `freshIfs g s` is what a freshly looked-up
handle of `s` lists. The shape hypotheses say that the ServicePort removed is a plain port (no sub-interfaces) and
that the service itself is not among what is deleted. -/

/-- **handle_fresh (`disconnect_interface`)** -/
theorem handle_fresh_disconnect (g : G) (h : List Nat) (s i : Nat) (g' : G) (h' : List Nat)
    (hrun : disconnect g h i = .ok (g', h'))
    (hshape : ∀ p ∈ spPeers g i, g.nbrs p .connects .cp = [] ∧ (cpDel g p true).contains s = false)
    (hh : ∀ y, y ∈ h ↔ y ∈ freshIfs g s) :
    ∀ y, y ∈ h' ↔ y ∈ freshIfs g' s := disconnect_fresh g h s i g' h' hrun hshape hh

/-- **handle_fresh (`remove_child_interface`)** — holds since the repair 5785808 (the list used to keep the removed child) -/
theorem handle_fresh_removeChild (g : G) (h : List Nat) (p c : Nat) (g' : G) (h' : List Nat)
    (hrun : removeChild g h p c = .ok (g', h'))
    (hp : (cpDel g c false).contains p = false)
    (hh : ∀ y, y ∈ h ↔ y ∈ freshIfs g p) :
    ∀ y, y ∈ h' ↔ y ∈ freshIfs g' p := removeChild_fresh g h p c g' h' hrun hp hh

/-- **handle_fresh (`unpeer`)**, both handles — holds since the repairs 59b2237 / 76b13f8 -/
theorem handle_fresh_unpeer (g : G) (ha hb : List Nat) (a b i p : Nat) (g' : G) (ha' hb' : List Nat)
    (hfind : findPeering g ha hb = some (i, p))
    (hrun : unpeer g ha hb = .ok (g', ha', hb'))
    (hi : cpFamily g i true = [i]) (hpf : cpFamily (g.minus (cpDel g i true)) p true = [p])
    (hsa : (cpDel g i true).contains a = false) (hsb : (cpDel g i true).contains b = false)
    (hsa2 : (cpDel (g.minus (cpDel g i true)) p true).contains a = false)
    (hsb2 : (cpDel (g.minus (cpDel g i true)) p true).contains b = false)
    (hpa : p ∉ ha) (hib : i ∉ hb)
    (hha : ∀ y, y ∈ ha ↔ y ∈ freshIfs g a) (hhb : ∀ y, y ∈ hb ↔ y ∈ freshIfs g b) :
    (∀ y, y ∈ ha' ↔ y ∈ freshIfs g' a) ∧ (∀ y, y ∈ hb' ↔ y ∈ freshIfs g' b) :=
  unpeer_fresh g ha hb a b i p g' ha' hb' hfind hrun hi hpf hsa hsb hsa2 hsb2 hpa hib hha hhb

/-- two peered services `1`, `2` with ports `3`, `4` joined by link `5` -/
def exPeer : G :=
  { nodes := [⟨1, .ns, 0, "a"⟩, ⟨2, .ns, 0, "b"⟩, ⟨3, .cp, 1, "a-b"⟩, ⟨4, .cp, 1, "b-a"⟩, ⟨5, .link, 0, "l"⟩],
    edges := [⟨1, 3, .connects, ""⟩, ⟨2, 4, .connects, ""⟩, ⟨5, 3, .connects, ""⟩, ⟨5, 4, .connects, ""⟩] }

example : findPeering exPeer [3] [4] = some (3, 4) := by decide
example : (unpeer exPeer [3] [4]).toOption.map (fun r => (r.1.nodes.map (·.id), r.2)) = some ([1, 2], [], []) := by decide
example : ∀ p ∈ spPeers exG 14, exG.nbrs p .connects .cp = [] ∧ (cpDel exG p true).contains 20 = false := by decide

/-! ## The declarative `owned` set, and where the code falls short of it (known finding)

Full statement (`remove_exact`): for every reachable topology and every operation addressing element `x`,
the result is `g.minus (owned g x)`.  The closed forms above are what the code deletes; they coincide with `owned`
whenever every ServicePort peering an owned interface is reached by the disconnect loop, i.e. the interface is a
first-level interface of the removed node / component.  They differ (a ServicePort survives with no peer) when a
*sub-interface* is connected, when a service / link / child interface is removed directly:
`C08:<op>:orphan-service-port` in known_findings.  The equality closed form = `owned` under the containment
invariant is evaluated by the oracle on every generated case (brute force), and decided on instances here; it is
not proved in general (`remove_exact_partial` below is the instance-level statement). -/

/-- on the example topology the code deletes exactly `owned` (node `10`, first-level interface `14` connected) -/
theorem remove_exact_partial :
    removeNodeApi exG 10 = .ok (exG.minus (owned exG 10)) ∧ sameSet (nodeApiDel exG 10) (owned exG 10) = true := by
  constructor
  · rfl
  · decide

/-- a node `10` whose *sub-interface* `15` is connected to service `20` (port `21`, link `30`) -/
def exOrphan : G :=
  { nodes := [⟨10, .node, 0, "n"⟩, ⟨11, .comp, 0, "c"⟩, ⟨12, .ns, 0, "ovs"⟩, ⟨13, .cp, 4, "p1"⟩, ⟨15, .cp, 0, "ch"⟩,
              ⟨20, .ns, 0, "s"⟩, ⟨21, .cp, 1, "sp"⟩, ⟨30, .link, 0, "l"⟩],
    edges := [⟨10, 11, .has, ""⟩, ⟨11, 12, .has, ""⟩, ⟨12, 13, .connects, ""⟩, ⟨13, 15, .connects, ""⟩,
              ⟨20, 21, .connects, ""⟩, ⟨30, 15, .connects, ""⟩, ⟨30, 21, .connects, ""⟩] }

/-- **Counterexample to the full statement** (`Topology.remove_node`): the ServicePort `21` created for the connected
sub-interface belongs to `owned` but survives. Replayed on the implementation by corpus/C08/known_orphan_port_subinterface.json. -/
theorem remove_exact_counterexample :
    (owned exOrphan 10).contains 21 = true ∧
    (removeNodeApi exOrphan 10).toOption.map (fun g => g.has 21) = some true := by
  constructor <;> decide

/-- the same for `Topology.remove_link` of a link created by `connect_interface` (link `30` of `exG`, port `21`) -/
theorem removeLink_orphan_counterexample :
    (owned exG 30).contains 21 = true ∧ (removeLinkG exG 30).toOption.map (fun g => g.has 21) = some true := by
  constructor <;> decide

end FimVerif.C08
