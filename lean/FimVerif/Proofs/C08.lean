import FimVerif.Proofs.Lemmas.C08Frame
import FimVerif.Proofs.Lemmas.C08Sep
import FimVerif.Proofs.Lemmas.C08Api
import FimVerif.Proofs.Lemmas.C08Handle
import FimVerif.Proofs.Lemmas.C08Spec
import FimVerif.Proofs.Lemmas.C08Owned
import FimVerif.Proofs.Lemmas.C08Ports
import FimVerif.Proofs.Lemmas.C08Shared
import FimVerif.Proofs.Lemmas.C08Prune
import FimVerif.Proofs.Lemmas.C08Ops
import FimVerif.Proofs.Lemmas.C08Names
import FimVerif.Proofs.Lemmas.C08Plan
import FimVerif.Proofs.Lemmas.C08Rename
import FimVerif.Generated.RemovalProbe
/-!
# C08 — removal and disconnection delete exactly the owned structure and nothing else

Property theorems only; the model is `FimVerif/Model/Remove.lean`, helper lemmas are in
`Proofs/Lemmas/C08*.lean`.
-/
namespace FimVerif.C08
open FimVerif.Remove

/-- every removal / disconnect / un-peer / remove-child / prune call of the public API (and the graph-level
functions they are made of), with the handle caches involved -/
inductive Op
  | removeNode (n : Nat) | removeFacility (n : Nat) | removeSwitch (n : Nat)
  | removeComponent (c : Nat) | removeNs (s : Nat) | removeLink (l : Nat)
  | disconnect (h : List IfH) (i : Nat) | unpeer (ha hb : List IfH) | removeChild (h : List IfH) (p c : Nat)
  | prune (nodes comps nss ifs : List Nat)
  | gRemoveCp (x : Nat) (dp : Bool) | gRemoveNs (x : Nat) | gRemoveComp (x : Nat) | gRemoveNode (x : Nat) | gRemoveLink (x : Nat)

/-- the effect of an operation on the model graph -/
def Op.run : Op → G → Except Err G
  | .removeNode n, g => removeNodeApi g n
  | .removeFacility n, g => removeFacilityApi g n
  | .removeSwitch n, g => removeSwitchApi g n
  | .removeComponent c, g => removeComponentApi g c
  | .removeNs s, g => removeNsApi g s
  | .removeLink l, g => removeLinkApi g l
  | .disconnect h i, g => (Remove.disconnect g h i).map (·.1)
  | .unpeer ha hb, g => (Remove.unpeer g ha hb).map (·.1)
  | .removeChild h p c, g => (Remove.removeChild g h p c).map (·.1)
  | .prune ns cs ss is, g => Remove.prune g ns cs ss is
  | .gRemoveCp x dp, g => removeCp g x dp
  | .gRemoveNs x, g => Remove.removeNs g x
  | .gRemoveLink x, g => removeLinkG g x
  | .gRemoveComp x, g => removeComp g x
  | .gRemoveNode x, g => removeNodeG g x

/-- **Frame.** Whatever a successful operation does to any graph whatsoever, the result is the old graph
with a set `D` of elements taken away: the surviving elements are the old ones with class, kind and
properties untouched, and the surviving edges are exactly the old edges between survivors
(`G.minus` filters the two lists). Nothing is added, nothing else is changed. -/
theorem remove_frame (op : Op) (g g' : G) (h : op.run g = .ok g') :
    ∃ D : List Nat, g'.nodes = g.nodes.filter (fun n => !D.contains n.id) ∧
         g'.edges = g.edges.filter (fun e => !D.contains e.a && !D.contains e.b) := by
  have key : Shrinks g g' := by
    cases op <;> simp only [Op.run] at h
    case removeNode n => exact removeNodeApi_shrinks _ _ _ h
    case removeFacility n => exact removeFacilityApi_shrinks _ _ _ h
    case removeSwitch n => exact removeSwitchApi_shrinks _ _ _ h
    case removeComponent c => exact removeComponentApi_shrinks _ _ _ h
    case removeNs s => exact removeNsApi_shrinks _ _ _ h
    case removeLink l => exact removeLinkApi_shrinks _ _ _ h
    case gRemoveNs s => exact removeNs_shrinks _ _ _ h
    case gRemoveLink l => exact removeLinkG_shrinks _ _ _ h
    case disconnect hl i =>
      obtain ⟨r, hr, rfl⟩ := map_ok h
      obtain ⟨r', hr', rfl⟩ := map_ok hr
      exact disconnectG_shrinks _ _ _ hr'
    case unpeer ha hb => obtain ⟨r, hr, rfl⟩ := map_ok h; exact unpeer_shrinks _ _ _ _ hr
    case removeChild hl p c => obtain ⟨r, hr, rfl⟩ := map_ok h; exact removeChild_shrinks _ _ _ _ _ hr
    case prune ns cs ss is => exact prune_shrinks _ _ _ _ _ _ h
    case gRemoveCp x dp => exact removeCp_shrinks _ _ _ _ h
    case gRemoveComp x => exact removeComp_shrinks _ _ _ h
    case gRemoveNode x => exact removeNodeG_shrinks _ _ _ h
  obtain ⟨D, rfl⟩ := key
  exact ⟨D, rfl, rfl⟩

/-- a sequence of `delete_node` calls on distinct present elements removes exactly those elements -/
theorem deleteAll_minus (g : G) (L : List Nat) (hp : ∀ x ∈ L, g.has x = true) (hn : L.Nodup) :
    deleteAll g L = .ok (g.minus L) := FimVerif.Remove.deleteAll_minus g L hp hn

example : deleteAll ⟨[⟨1, .cp, 0, ""⟩, ⟨2, .link, 0, ""⟩], [⟨1, 2, .connects, ""⟩]⟩ [2] = .ok ⟨[⟨1, .cp, 0, ""⟩], []⟩ := by rfl

/-- `remove_network_link` (graph level): the link element goes, nothing else -/
theorem removeLinkG_exact (g : G) (l : Nat) (h : g.cls? l = some .link) :
    removeLinkG g l = .ok (g.minus [l]) := by
  simp [removeLinkG, h]

/-! ## Exactness of the recursive removal

Each theorem says: the operation, run as the code runs it (sequential `delete_node` calls, every neighbour
query evaluated on the *current* graph), returns the pre-state minus a set given in closed form **in the
pre-state**.  The hypotheses `Sep…` are explicit decidable predicates on the pre-state (computed by the driver
for every case of the correspondence run, where they hold on every topology built through the API under the
stated assumptions): they say that the structures removed one after the other do not overlap and that a link
with other than two ends has at most one end in what is removed.  The proofs are inductions over the
removal loops (`seqCp`, `seqNs`, `seqComp`), not enumerations. -/

/-- membership in the closed form of `remove_cp_and_links(x, dp)`: the interface; with `dp`, each
connection-point neighbour that has no other connection-point neighbour (the sub-interfaces of `x`, or the
parent of an only child); and every Link at one of those that joins exactly two connection points -/
theorem mem_cpDel (g : G) (x : Nat) (dp : Bool) (y : Nat) :
    y ∈ cpDel g x dp ↔
      y = x ∨ (y ∈ g.nbrs x .connects .cp ∧ (g.nbrs y .connects .cp).length = 1 ∧ dp = true) ∨
      ∃ i, (i = x ∨ (i ∈ g.nbrs x .connects .cp ∧ (g.nbrs i .connects .cp).length = 1 ∧ dp = true)) ∧
        y ∈ g.nbrs i .connects .link ∧ (g.nbrs y .connects .cp).length = 2 := by
  simp only [cpDel, mem_dedup, List.mem_append, cpFamily, cpLinks, List.mem_cons, List.mem_filter,
    List.mem_flatMap, Bool.and_eq_true, beq_iff_eq]
  constructor
  · rintro ((h | h) | ⟨i, hi, h⟩)
    · exact Or.inl h
    · exact Or.inr (Or.inl ⟨h.1, h.2.1, h.2.2⟩)
    · exact Or.inr (Or.inr ⟨i, hi.imp id (fun h => ⟨h.1, h.2.1, h.2.2⟩), h⟩)
  · rintro (h | h | ⟨i, hi, h⟩)
    · exact Or.inl (Or.inl h)
    · exact Or.inl (Or.inr ⟨h.1, h.2.1, h.2.2⟩)
    · exact Or.inr ⟨i, hi.imp id (fun h => ⟨h.1, h.2.1, h.2.2⟩), h⟩

/-- **`remove_cp_and_links`** (also `disconnect`, `remove_child_interface`, `unpeer`, which call it): for *every*
graph and every present element, the result is the graph minus `cpDel` (characterised by `mem_cpDel`). -/
theorem removeCp_exact (g : G) (x : Nat) (dp : Bool) (hx : g.has x = true) :
    removeCp g x dp = .ok (g.minus (cpDel g x dp)) := removeCp_minus g x dp hx

/-- **`remove_ns_with_cps_and_links`** (`Topology.remove_network_service`, `Node.remove_network_service`):
induction over the interface loop. -/
theorem removeNs_exact (g : G) (s : Nat) (h : SepNs g [] s = true) :
    removeNs g s = .ok (g.minus (nsDel g s)) := by
  have := removeNs_after g [] s h
  simpa [minus_nil] using this

/-- **`remove_component_with_nss_cps_and_links`**: induction over the component's services, each an induction over
its interfaces. -/
theorem removeComp_exact (g : G) (c : Nat) (h : SepComp g [] c = true) :
    removeComp g c = .ok (g.minus (compDel g c)) := by
  have := removeComp_after g [] c h
  simpa [minus_nil] using this

/-- **`remove_network_node_with_components_nss_cps_and_links`**: components first, then the node, then its services. -/
theorem removeNodeG_exact (g : G) (n : Nat) (h : SepNode g [] n = true) :
    removeNodeG g n = .ok (g.minus (nodeDel g n)) := by
  have := removeNodeG_after g [] n h
  simpa [minus_nil] using this

/-- a VM `10` with component `11`, its service `12` with ports `13` (sub-interface `15`) and `14`; a service `20` with
port `21` joined to `14` by link `30`; `13`, `15` and the far interface `40` share the three-ended link `31` -/
def exG : G :=
  { nodes := [⟨10, .node, 0, "n"⟩, ⟨11, .comp, 0, "c"⟩, ⟨12, .ns, 0, "ovs"⟩, ⟨13, .cp, 4, "p1"⟩, ⟨14, .cp, 4, "p2"⟩,
              ⟨15, .cp, 0, "ch"⟩, ⟨20, .ns, 0, "s"⟩, ⟨21, .cp, 1, "sp"⟩, ⟨30, .link, 0, "l"⟩, ⟨40, .cp, 0, "far"⟩,
              ⟨41, .cp, 0, "far2"⟩, ⟨31, .link, 0, "shared"⟩],
    edges := [⟨10, 11, .has, ""⟩, ⟨11, 12, .has, ""⟩, ⟨12, 13, .connects, ""⟩, ⟨12, 14, .connects, ""⟩, ⟨13, 15, .connects, ""⟩,
              ⟨20, 21, .connects, ""⟩, ⟨30, 14, .connects, ""⟩, ⟨30, 21, .connects, ""⟩, ⟨31, 15, .connects, ""⟩,
              ⟨31, 40, .connects, ""⟩, ⟨31, 41, .connects, ""⟩] }

example : SepNs exG [] 12 = true := by decide
example : SepComp exG [] 11 = true := by decide
example : SepNode exG [] 10 = true := by decide
example : nodeDel exG 10 = [11, 12, 13, 15, 14, 30, 10] := by decide

/-! ## The public calls: disconnect loop, then the recursive removal -/

/-- **`Topology.remove_node(name)`**: every first-level interface with exactly one ServicePort peer is disconnected
(port and link deleted), then the node's structure goes. -/
theorem removeNodeApi_exact (g : G) (n : Nat) (hk : (g.cls? n == some .node && g.kind? n != some kFacility) = true)
    (h : SepNodeApi g n = true) : removeNodeApi g n = .ok (g.minus (nodeApiDel g n)) := removeNodeApi_closed g n hk h

/-- **`Topology.remove_facility(name=)`** -/
theorem removeFacilityApi_exact (g : G) (n : Nat) (hk : (g.cls? n == some .node && g.kind? n == some kFacility) = true)
    (h : SepNodeApi g n = true) : removeFacilityApi g n = .ok (g.minus (nodeApiDel g n)) := removeFacilityApi_closed g n hk h

/-- **`Topology.remove_switch(name=)`** -/
theorem removeSwitchApi_exact (g : G) (n : Nat) (hk : (g.cls? n == some .node && g.kind? n == some kSwitch) = true)
    (h : SepNodeApi g n = true) : removeSwitchApi g n = .ok (g.minus (nodeApiDel g n)) := by
  simp only [Bool.and_eq_true, beq_iff_eq] at hk
  have hk' : (g.cls? n == some .node && g.kind? n != some kFacility) = true := by
    simp [hk.1, hk.2, kSwitch, kFacility]
  simp only [removeSwitchApi, hk.1, hk.2, beq_self_eq_true, Bool.and_self, ite_true]
  exact removeNodeApi_closed g n hk' h

/-- **`Node.remove_component(name)`** -/
theorem removeComponentApi_exact (g : G) (c : Nat) (h : SepCompApi g c = true) :
    removeComponentApi g c = .ok (g.minus (compApiDel g c)) := removeComponentApi_closed g c h

/-- **`Topology.remove_network_service` / `Node.remove_network_service`** (after the repairs d80830f / 5701144) -/
theorem removeNsApi_exact (g : G) (s : Nat) (h : SepNsApi g s = true) :
    removeNsApi g s = .ok (g.minus (nsApiDel g s)) := removeNsApi_closed g s h

/-- **`Topology.remove_link`** (after the repair 4df540a): the link and the ServicePorts it peered -/
theorem removeLink_exact (g : G) (l : Nat) (hc : g.cls? l = some .link) (h : SepSeq g [l] (spEnds g l) = true) :
    removeLinkApi g l = .ok (g.minus (linkApiDel g l)) := removeLinkApi_closed g l hc h

example : SepNsApi exG 12 = true := by decide
example : SepNsApi exG 20 = true := by decide
example : SepSeq exG [30] (spEnds exG 30) = true ∧ linkApiDel exG 30 = [30, 21, 30] := by decide

example : SepNodeApi exG 10 = true := by decide
example : nodeApiDel exG 10 = [21, 30, 11, 12, 13, 15, 14, 30, 10] := by decide
example : SepCompApi exG 11 = true := by decide

/-! ## Handles

`h` is the interface list cached in the handle the call goes through; `freshIfs g s` is what a freshly looked-up
handle of `s` lists. The shape hypotheses say that the ServicePort removed is a plain port (no sub-interfaces) and
that the service itself is not among what is deleted. -/

/-- **handle_fresh (`disconnect_interface`)** -/
theorem handle_fresh_disconnect (g : G) (h : List IfH) (s i : Nat) (g' : G) (h' : List IfH)
    (hrun : disconnect g h i = .ok (g', h'))
    (hshape : ∀ p ∈ spPeers g i, g.nbrs p .connects .cp = [] ∧ (cpDel g p true).contains s = false)
    (hh : ∀ y, y ∈ hIds h ↔ y ∈ freshIfs g s) :
    ∀ y, y ∈ hIds h' ↔ y ∈ freshIfs g' s := disconnect_fresh g h s i g' h' hrun hshape hh

/-- moreover the surviving entries are the old entries, names included: the list is pruned by node id only -/
theorem handle_disconnect_entries (g : G) (h : List IfH) (i : Nat) (g' : G) (h' : List IfH)
    (hrun : disconnect g h i = .ok (g', h')) :
    h' = h ∨ ∃ p, spPeers g i = [p] ∧ h' = h.filter (fun x => x.id != p) := by
  obtain ⟨r, hr, heq⟩ := map_ok hrun
  simp only [Prod.mk.injEq] at heq
  obtain ⟨rfl, rfl⟩ := heq
  unfold disconnectG at hr
  split at hr
  · split at hr
    · cases hr; exact Or.inl rfl
    · rename_i p hsp
      obtain ⟨g1, _, rfl⟩ := map_ok hr
      exact Or.inr ⟨p, hsp, rfl⟩
    · cases hr
  · cases hr

/-- **handle_fresh (`remove_child_interface`)** — holds since the repairs 5785808 / 37318e4 -/
theorem handle_fresh_removeChild (g : G) (h : List IfH) (p c : Nat) (hk : g.kind? p = some kDedicatedPort) (hc : g.has c = true)
    (h1 : SepDiscSeq g [] (deepIfs g [c]) = true) (h2 : Sep g ((deepIfs g [c]).flatMap (discDel g)) c false = true)
    (hp : (childDel g c).contains p = false) (hD : ∀ y ∈ freshIfs g p, y ∈ childDel g c ↔ y = c)
    (hh : ∀ y, y ∈ hIds h ↔ y ∈ freshIfs g p) :
    ∃ g' h', removeChild g h p c = .ok (g', h') ∧ ∀ y, y ∈ hIds h' ↔ y ∈ freshIfs g' p :=
  removeChild_fresh g h p c hk hc h1 h2 hp hD hh

/-- **handle_fresh (`unpeer`)**, both handles — holds since the repairs 59b2237 / 76b13f8 -/
theorem handle_fresh_unpeer (g : G) (ha hb : List IfH) (a b i p : Nat) (g' : G) (ha' hb' : List IfH)
    (hfind : findPeering g ha hb = some (i, p))
    (hrun : unpeer g ha hb = .ok (g', ha', hb'))
    (hi : cpFamily g i true = [i]) (hpf : cpFamily (g.minus (cpDel g i true)) p true = [p])
    (hsa : (cpDel g i true).contains a = false) (hsb : (cpDel g i true).contains b = false)
    (hsa2 : (cpDel (g.minus (cpDel g i true)) p true).contains a = false)
    (hsb2 : (cpDel (g.minus (cpDel g i true)) p true).contains b = false)
    (hpa : p ∉ hIds ha) (hib : i ∉ hIds hb)
    (hha : ∀ y, y ∈ hIds ha ↔ y ∈ freshIfs g a) (hhb : ∀ y, y ∈ hIds hb ↔ y ∈ freshIfs g b) :
    (∀ y, y ∈ hIds ha' ↔ y ∈ freshIfs g' a) ∧ (∀ y, y ∈ hIds hb' ↔ y ∈ freshIfs g' b) :=
  unpeer_fresh g ha hb a b i p g' ha' hb' hfind hrun hi hpf hsa hsb hsa2 hsb2 hpa hib hha hhb

/-- two peered services `1`, `2` with ports `3`, `4` joined by link `5` -/
def exPeer : G :=
  { nodes := [⟨1, .ns, 0, "a"⟩, ⟨2, .ns, 0, "b"⟩, ⟨3, .cp, 1, "a-b"⟩, ⟨4, .cp, 1, "b-a"⟩, ⟨5, .link, 0, "l"⟩],
    edges := [⟨1, 3, .connects, ""⟩, ⟨2, 4, .connects, ""⟩, ⟨5, 3, .connects, ""⟩, ⟨5, 4, .connects, ""⟩] }

example : findPeering exPeer [⟨3, 0⟩] [⟨4, 0⟩] = some (3, 4) := by decide
example : (unpeer exPeer [⟨3, 0⟩] [⟨4, 0⟩]).toOption.map (fun r => (r.1.nodes.map (·.id), r.2)) = some ([1, 2], [], []) := by decide
example : ∀ p ∈ spPeers exG 14, exG.nbrs p .connects .cp = [] ∧ (cpDel exG p true).contains 20 = false := by decide


/-- service `1` with two ports `2`, `3` carrying the *same name* (code 7) joined by links `8`, `9` to interfaces `5`, `6`:
disconnecting `5` drops only the port `2` from the handle — a prune keyed by name would drop both -/
def exNames : G :=
  { nodes := [⟨1, .ns, 0, "s"⟩, ⟨2, .cp, 1, "n1-v100"⟩, ⟨3, .cp, 1, "n1-v100"⟩, ⟨5, .cp, 0, "v100"⟩, ⟨6, .cp, 0, "v100"⟩,
              ⟨8, .link, 0, ""⟩, ⟨9, .link, 0, ""⟩],
    edges := [⟨1, 2, .connects, ""⟩, ⟨1, 3, .connects, ""⟩, ⟨8, 2, .connects, ""⟩, ⟨8, 5, .connects, ""⟩,
              ⟨9, 3, .connects, ""⟩, ⟨9, 6, .connects, ""⟩] }

example : (disconnect exNames [⟨2, 7⟩, ⟨3, 7⟩] 5).toOption.map (fun r => (r.2, freshIfs r.1 1)) = some ([⟨3, 7⟩], [3]) := by decide

/-! ## `remove_exact`: against the declarative ownership relation

`Below g x` is reflexive-transitive ownership (`children`: node → components and services, component → services,
service → interfaces, interface → sub-interfaces); `OwnedG g x` adds the Link that joins an owned interface to exactly
one other connection point; `Owned g x` adds the ServicePort at the other end of that Link
(`Proofs/Lemmas/C08Spec.lean`, written without reference to the removal code).  `InvCP` and `InvPeer` are the
decidable containment / peering invariants of API-built topologies; the driver evaluates them, together with the
separation hypothesis, on every case of the correspondence run.  Each theorem: the call succeeds and returns the
pre-state minus a set `D` whose members are exactly the owned elements. -/

/-- **remove_exact, graph layer** (`remove_ns_with_cps_and_links`) -/
theorem remove_exact_ns (g : G) (s : Nat) (hI : InvCP g = true) (h : SepNs g [] s = true) :
    ∃ D, removeNs g s = .ok (g.minus D) ∧ ∀ y, y ∈ D ↔ OwnedG g s y := by
  have hc : g.cls? s = some .ns := by simp only [SepNs, Bool.and_eq_true, beq_iff_eq] at h; exact h.1.1.1
  exact ⟨_, removeNs_exact g s h, mem_nsDel_iff_ownedG g hI s hc⟩

/-- **remove_exact, graph layer** (`remove_component_with_nss_cps_and_links`) -/
theorem remove_exact_comp (g : G) (c : Nat) (hI : InvCP g = true) (h : SepComp g [] c = true) :
    ∃ D, removeComp g c = .ok (g.minus D) ∧ ∀ y, y ∈ D ↔ OwnedG g c y := by
  have hc : g.cls? c = some .comp := by simp only [SepComp, Bool.and_eq_true, beq_iff_eq] at h; exact h.1.1.1
  exact ⟨_, removeComp_exact g c h, mem_compDel_iff_ownedG g hI c hc⟩

/-- **remove_exact, graph layer** (`remove_network_node_with_components_nss_cps_and_links`) -/
theorem remove_exact_nodeG (g : G) (n : Nat) (hI : InvCP g = true) (h : SepNode g [] n = true) :
    ∃ D, removeNodeG g n = .ok (g.minus D) ∧ ∀ y, y ∈ D ↔ OwnedG g n y := by
  have hc : g.cls? n = some .node := by
    simp only [SepNode, Bool.and_eq_true, beq_iff_eq] at h; exact h.1.1.1.1.1
  exact ⟨_, removeNodeG_exact g n h, mem_nodeDel_iff_ownedG g hI n hc⟩

/-- **remove_exact** (`Topology.remove_node`) -/
theorem remove_exact_node (g : G) (n : Nat) (hI : InvCP g = true) (hP : InvPeer g = true)
    (hk : (g.cls? n == some .node && g.kind? n != some kFacility) = true) (h : SepNodeApi g n = true) :
    ∃ D, removeNodeApi g n = .ok (g.minus D) ∧ ∀ y, y ∈ D ↔ Owned g n y := by
  have hc : g.cls? n = some .node := by simp only [Bool.and_eq_true, beq_iff_eq] at hk; exact hk.1
  exact ⟨_, removeNodeApi_exact g n hk h, mem_nodeApiDel_iff_owned g hI hP n hc⟩

/-- **remove_exact** (`Topology.remove_facility`) -/
theorem remove_exact_facility (g : G) (n : Nat) (hI : InvCP g = true) (hP : InvPeer g = true)
    (hk : (g.cls? n == some .node && g.kind? n == some kFacility) = true) (h : SepNodeApi g n = true) :
    ∃ D, removeFacilityApi g n = .ok (g.minus D) ∧ ∀ y, y ∈ D ↔ Owned g n y := by
  have hc : g.cls? n = some .node := by simp only [Bool.and_eq_true, beq_iff_eq] at hk; exact hk.1
  exact ⟨_, removeFacilityApi_exact g n hk h, mem_nodeApiDel_iff_owned g hI hP n hc⟩

/-- **remove_exact** (`Topology.remove_switch`) -/
theorem remove_exact_switch (g : G) (n : Nat) (hI : InvCP g = true) (hP : InvPeer g = true)
    (hk : (g.cls? n == some .node && g.kind? n == some kSwitch) = true) (h : SepNodeApi g n = true) :
    ∃ D, removeSwitchApi g n = .ok (g.minus D) ∧ ∀ y, y ∈ D ↔ Owned g n y := by
  have hc : g.cls? n = some .node := by simp only [Bool.and_eq_true, beq_iff_eq] at hk; exact hk.1
  exact ⟨_, removeSwitchApi_exact g n hk h, mem_nodeApiDel_iff_owned g hI hP n hc⟩

/-- **remove_exact** (`Node.remove_component`) -/
theorem remove_exact_component (g : G) (c : Nat) (hI : InvCP g = true) (hP : InvPeer g = true) (h : SepCompApi g c = true) :
    ∃ D, removeComponentApi g c = .ok (g.minus D) ∧ ∀ y, y ∈ D ↔ Owned g c y := by
  have hc : g.cls? c = some .comp := by
    simp only [SepCompApi, SepComp, Bool.and_eq_true, beq_iff_eq] at h; exact h.2.1.1.1
  exact ⟨_, removeComponentApi_exact g c h, mem_compApiDel_iff_owned g hI hP c hc⟩

/-- **remove_exact** (`Topology.remove_network_service`, `Node.remove_network_service`) -/
theorem remove_exact_service (g : G) (s : Nat) (hI : InvCP g = true) (hP : InvPeer g = true) (h : SepNsApi g s = true) :
    ∃ D, removeNsApi g s = .ok (g.minus D) ∧ ∀ y, y ∈ D ↔ Owned g s y := by
  have hc : g.cls? s = some .ns := by
    simp only [SepNsApi, SepNs, Bool.and_eq_true, beq_iff_eq] at h; exact h.2.1.1.1
  exact ⟨_, removeNsApi_exact g s h, mem_nsApiDel_iff_owned g hI hP s hc⟩

/-- **remove_exact** (`Topology.remove_link`): the link and the ServicePorts it peered -/
theorem remove_exact_link (g : G) (l : Nat) (hP : InvPeer g = true) (hc : g.cls? l = some .link)
    (h : SepSeq g [l] (spEnds g l) = true) :
    ∃ D, removeLinkApi g l = .ok (g.minus D) ∧ ∀ y, y ∈ D ↔ OwnedLink g l y :=
  ⟨_, removeLink_exact g l hc h, mem_linkApiDel_iff_owned g hP l hc⟩

/-- **remove_exact** (`Interface.remove_child_interface`), with the handle -/
theorem remove_exact_child (g : G) (hl : List IfH) (p c : Nat) (hP : InvPeer g = true)
    (hk : g.kind? p = some kDedicatedPort) (hc : g.cls? c = some .cp) (hs : isSub g c = true)
    (hkc : g.kind? c ≠ some kDedicatedPort)
    (h1 : SepDiscSeq g [] (deepIfs g [c]) = true) (h2 : Sep g ((deepIfs g [c]).flatMap (discDel g)) c false = true) :
    ∃ D, removeChild g hl p c = .ok (g.minus D, hDrop hl c) ∧ ∀ y, y ∈ D ↔ Owned g c y := by
  have hhas : g.has c = true := by
    simp only [G.cls?, G.has] at hc ⊢; cases hf : g.find c <;> simp_all
  exact ⟨_, removeChild_closed g hl p c hk hhas h1 h2, mem_childDel_iff_owned g hP c hc hs hkc⟩

example : InvCP exG = true ∧ InvPeer exG = true := by decide
example : InvCP exPeer = true ∧ InvPeer exPeer = true ∧ SepNsApi exPeer 1 = true ∧ sameSet (nsApiDel exPeer 1) [1, 3, 5, 4] = true := by decide

/-- a node `10` whose *sub-interface* `15` is connected to service `20` (port `21`, link `30`): the ServicePort used to
survive `remove_node` (known finding until 968b3fd); now it is deleted -/
def exSub : G :=
  { nodes := [⟨10, .node, 0, "n"⟩, ⟨11, .comp, 0, "c"⟩, ⟨12, .ns, 0, "ovs"⟩, ⟨13, .cp, 4, "p1"⟩, ⟨15, .cp, 0, "ch"⟩,
              ⟨20, .ns, 0, "s"⟩, ⟨21, .cp, 1, "sp"⟩, ⟨30, .link, 0, "l"⟩],
    edges := [⟨10, 11, .has, ""⟩, ⟨11, 12, .has, ""⟩, ⟨12, 13, .connects, ""⟩, ⟨13, 15, .connects, ""⟩,
              ⟨20, 21, .connects, ""⟩, ⟨30, 15, .connects, ""⟩, ⟨30, 21, .connects, ""⟩] }

example : InvCP exSub = true ∧ InvPeer exSub = true ∧ SepNodeApi exSub 10 = true := by decide
example : (removeNodeApi exSub 10).toOption.map (fun g => g.nodes.map (·.id)) = some [20] := by decide
example : sameSet (nodeApiDel exSub 10) (owned exSub 10) = true := by decide

/-! ## Shared links with several ends inside the removed element

The separation hypothesis of the theorems above excludes a link with other than two ends that has two ends inside
what is removed.  What the code does there, exactly and without any hypothesis on links: each
`remove_cp_and_links` call deletes the links of the family that are still present and have exactly two *surviving*
ends (`cpDelA`, evaluated on the pre-state with the set `A` deleted so far).  Proved for the single step and for the
interface loop of a service (`seqDelA` is the fold over the pre-state); the component / node levels and the declarative
form "a link that joined at least two interfaces goes iff at most one of them survives" are not proved
(`_partial`), they are covered by the correspondence and the oracle only. -/

/-- the general sequential step: no hypothesis on links -/
theorem removeCp_after_general (g : G) (A : List Nat) (i : Nat) (dp : Bool) (hi : g.has i = true) (h : SepFam g A i = true) :
    removeCp (g.minus A) i dp = .ok (g.minus (A ++ cpDelA g A i dp)) := removeCp_after' g A i dp hi h

/-- `remove_ns_with_cps_and_links` with shared links having any number of ends inside the service -/
theorem removeNs_exact_general_partial (g : G) (s : Nat) (hc : g.cls? s = some .ns)
    (h : SepFamSeq g [s] (g.nbrs s .connects .cp) = true) :
    removeNs g s = .ok (g.minus (seqDelA g [s] (g.nbrs s .connects .cp))) := removeNs_general g s hc h

/-- service `1` with ports `2`, `3`; link `9` joins `2`, `3` and the far interface `4`: two of its three ends are inside -/
def exShared : G :=
  { nodes := [⟨1, .ns, 0, "s"⟩, ⟨2, .cp, 0, "a"⟩, ⟨3, .cp, 0, "b"⟩, ⟨4, .cp, 0, "far"⟩, ⟨9, .link, 0, "l"⟩],
    edges := [⟨1, 2, .connects, ""⟩, ⟨1, 3, .connects, ""⟩, ⟨9, 2, .connects, ""⟩, ⟨9, 3, .connects, ""⟩, ⟨9, 4, .connects, ""⟩] }

/-- the closed-form hypothesis fails here, the general one holds, and the link is deleted when its second inside end goes -/
example : SepNs exShared [] 1 = false ∧ SepFamSeq exShared [1] (exShared.nbrs 1 .connects .cp) = true ∧
    seqDelA exShared [1] (exShared.nbrs 1 .connects .cp) = [1, 2, 3, 9] := by decide

/-! ## `prune_exact`

`prune` removes the marked nodes, then — unless already gone — the marked components, services and interfaces, each
through the repaired user-level call.  `pruneDel` is the fold of the closed forms over the pre-state (an element that
is already in the set deleted so far is skipped, as `still_present` does); `HypPrune` chains the separation
hypotheses along the four loops (decidable; evaluated by the driver on every prune case). -/

/-- **prune_exact**: the result is the pre-state minus `pruneDel` -/
theorem prune_exact (g : G) (ns cs ss is : List Nat) (h : HypPrune g ns cs ss is = true) :
    prune g ns cs ss is = .ok (g.minus (pruneDel g ns cs ss is)) := prune_closed g ns cs ss is h

/-- **prune deletes nothing but owned structure of marked elements** (declarative form, under the invariants) -/
theorem prune_sound (g : G) (hI : InvCP g = true) (hP : InvPeer g = true) (ns cs ss is : List Nat)
    (hn : ∀ n ∈ ns, g.cls? n = some .node) (hc : ∀ c ∈ cs, g.cls? c = some .comp) (hs : ∀ s ∈ ss, g.cls? s = some .ns)
    (hi : ∀ i ∈ is, g.cls? i = some .cp ∧ isSub g i = false)
    (y : Nat) (h : y ∈ pruneDel g ns cs ss is) : ∃ x, (x ∈ ns ∨ x ∈ cs ∨ x ∈ ss ∨ x ∈ is) ∧ Owned g x y := by
  rcases pruneDel_sound g ns cs ss is y h with ⟨n, h1, h2⟩ | ⟨c, h1, h2⟩ | ⟨s, h1, h2⟩ | ⟨i, h1, h2⟩
  · exact ⟨n, Or.inl h1, (mem_nodeApiDel_iff_owned g hI hP n (hn n h1) y).mp h2⟩
  · exact ⟨c, Or.inr (Or.inl h1), (mem_compApiDel_iff_owned g hI hP c (hc c h1) y).mp h2⟩
  · exact ⟨s, Or.inr (Or.inr (Or.inl h1)), (mem_nsApiDel_iff_owned g hI hP s (hs s h1) y).mp h2⟩
  · exact ⟨i, Or.inr (Or.inr (Or.inr h1)), (mem_ifaceApiDel_iff_owned g hI hP i (hi i h1).1 (hi i h1).2 y).mp h2⟩

/-- **every marked node goes with all it owns, every other marked element is gone.**  Not proved (`_partial`): that the
whole owned structure of a marked component / service / interface that was *skipped* because an enclosing marked element
had already taken it is gone too (it is, whenever that enclosing element owns it; the oracle checks it). -/
theorem prune_covers_partial (g : G) (hI : InvCP g = true) (hP : InvPeer g = true) (ns cs ss is : List Nat)
    (hn : ∀ n ∈ ns, g.cls? n = some .node) :
    (∀ n ∈ ns, ∀ y, Owned g n y → y ∈ pruneDel g ns cs ss is) ∧
    (∀ x, x ∈ cs ∨ x ∈ ss ∨ x ∈ is → x ∈ pruneDel g ns cs ss is ∨ g.has x = false) :=
  ⟨fun n h1 y ho => (pruneDel_covers g ns cs ss is).1 n h1 y ((mem_nodeApiDel_iff_owned g hI hP n (hn n h1) y).mpr ho),
   (pruneDel_covers g ns cs ss is).2⟩

example : HypPrune exG [10] [11] [] [14] = true ∧ sameSet (pruneDel exG [10] [11] [] [14]) [10, 11, 12, 13, 14, 15, 30, 21] = true := by decide


/-! ## Exactness from well-formedness alone (wave 3)

`WF g` is one decidable predicate on the pre-state (containment and peering invariants, distinct link ends with no two in
one interface family, no parallel edges, every ServicePort on one service, no DedicatedPort below a port); the driver
evaluates it on every correspondence case.  No separation hypothesis, no restriction on the number of ends a link has inside
what is removed, no chained hypothesis for `prune`.  `OwnedS g R` is the declarative owned set of the roots `R`
(`Proofs/Lemmas/C08Full.lean`): below a root, or the service-side port of an interface below a root, or a Link that joined
at least two connection points of which at least one is owned and at most one is not.  The proofs carry the invariant
`InvA g A` (`LinkOK`: the links of the deletion list are determined by its connection points; family, downward and port
closure) through every `delete_node`, so the same lemmas serve a call on the pre-state and a call after any number of
earlier calls. -/

/-- **`Topology.remove_node`** -/
theorem remove_node_exact_wf (g : G) (hW : WF g = true) (n : Nat) (hc : g.cls? n = some .node)
    (hk : g.kind? n ≠ some kFacility) : ∃ D, removeNodeApi g n = .ok (g.minus D) ∧ ∀ y, y ∈ D ↔ OwnedS g [n] y := by
  have := removeNodeApi_resA g hW [] (invA_nil g) n hc hk (by simp)
  rw [minus_nil] at this
  exact resA_exact g hW n hc (by decide) _ this

/-- **`Topology.remove_facility`** -/
theorem remove_facility_exact_wf (g : G) (hW : WF g = true) (n : Nat) (hc : g.cls? n = some .node)
    (hk : g.kind? n = some kFacility) : ∃ D, removeFacilityApi g n = .ok (g.minus D) ∧ ∀ y, y ∈ D ↔ OwnedS g [n] y := by
  have := removeFacilityApi_resA g hW [] (invA_nil g) n hc hk (by simp)
  rw [minus_nil] at this
  exact resA_exact g hW n hc (by decide) _ this

/-- **`Topology.remove_switch`** -/
theorem remove_switch_exact_wf (g : G) (hW : WF g = true) (n : Nat) (hc : g.cls? n = some .node)
    (hk : g.kind? n = some kSwitch) : ∃ D, removeSwitchApi g n = .ok (g.minus D) ∧ ∀ y, y ∈ D ↔ OwnedS g [n] y := by
  have := removeSwitchApi_resA g hW [] (invA_nil g) n hc hk (by simp)
  rw [minus_nil] at this
  exact resA_exact g hW n hc (by decide) _ this

/-- **`Node.remove_component`** -/
theorem remove_component_exact_wf (g : G) (hW : WF g = true) (c : Nat) (hc : g.cls? c = some .comp) :
    ∃ D, removeComponentApi g c = .ok (g.minus D) ∧ ∀ y, y ∈ D ↔ OwnedS g [c] y := by
  have := removeComponentApi_resA g hW [] (invA_nil g) c hc (by simp)
  rw [minus_nil] at this
  exact resA_exact g hW c hc (by decide) _ this

/-- **`Topology.remove_network_service` / `Node.remove_network_service`** -/
theorem remove_service_exact_wf (g : G) (hW : WF g = true) (s : Nat) (hc : g.cls? s = some .ns) :
    ∃ D, removeNsApi g s = .ok (g.minus D) ∧ ∀ y, y ∈ D ↔ OwnedS g [s] y := by
  have := removeNsApi_resA g hW [] (invA_nil g) s hc (by simp)
  rw [minus_nil] at this
  exact resA_exact g hW s hc (by decide) _ this

/-- **`Topology.remove_link`**: the Link and the ServicePorts it peered, for a Link with any number of ends -/
theorem remove_link_exact_wf (g : G) (hW : WF g = true) (l : Nat) (hc : g.cls? l = some .link) :
    ∃ D, removeLinkApi g l = .ok (g.minus D) ∧ ∀ y, y ∈ D ↔ OwnedLink g l y := by
  refine ⟨_, removeLinkApi_wf g hW l hc, fun y => ?_⟩
  simp [OwnedLink, spEnds, List.mem_filter]

/-- **`Interface.remove_child_interface`**, with the parent handle's cache -/
theorem remove_child_exact_wf (g : G) (hW : WF g = true) (h : List IfH) (p c : Nat) (hk : g.kind? p = some kDedicatedPort)
    (hpc : g.cls? p = some .cp) (hps : isSub g p = false) (hcp : c ∈ g.nbrs p .connects .cp) :
    ∃ D, removeChild g h p c = .ok (g.minus D, hDrop h c) ∧ ∀ y, y ∈ D ↔ OwnedS g [c] y := by
  obtain ⟨D, h1, h2, _⟩ := removeChild_wf g hW h p c hk hpc hps hcp
  exact ⟨D, h1, h2⟩

/-- **`NetworkService.disconnect_interface`**: nothing changes when the interface has no service-side port; otherwise that
port and the Link created with it go, and the handle loses exactly that port -/
theorem disconnect_exact_wf (g : G) (hW : WF g = true) (h : List IfH) (i : Nat) (hc : g.cls? i = some .cp) :
    ((∀ p, ¬ PortOf g i p) ∧ disconnect g h i = .ok (g, h)) ∨
    ∃ p D, PortOf g i p ∧ disconnect g h i = .ok (g.minus D, hDrop h p) ∧ ∀ y, y ∈ D ↔ y = p ∨ LinkOf g i y := by
  rcases disconnect_wf g hW h i hc with h0 | ⟨p, h1, h2, h3⟩
  · exact Or.inl h0
  · exact Or.inr ⟨p, _, h1, h2, h3⟩

/-- **`NetworkService.unpeer`**: the two facing ServicePorts `i`, `p` found by the peering search and their Link -/
theorem unpeer_exact_wf (g : G) (hW : WF g = true) (ha hb : List IfH) (a b i p : Nat)
    (hac : g.cls? a = some .ns) (hbc : g.cls? b = some .ns) (hab : a ≠ b)
    (hha : ∀ y, y ∈ hIds ha ↔ y ∈ freshIfs g a) (hhb : ∀ y, y ∈ hIds hb ↔ y ∈ freshIfs g b)
    (hfind : findPeering g ha hb = some (i, p)) :
    ∃ D, unpeer g ha hb = .ok (g.minus D, hDrop ha i, hDrop hb p) ∧ ∀ y, y ∈ D ↔ OwnedS g [i] y := by
  obtain ⟨D, h1, h2, _⟩ := unpeer_wf g hW ha hb a b i p hac hbc hab hha hhb hfind
  exact ⟨D, h1, h2⟩

/-- **prune_exact, full strength**: for *any* marking of a well-formed topology — distinct non-facility nodes, components,
services and interfaces attached to services, nested in each other or not, sharing links or not, in any order —
`prune` succeeds and deletes exactly the owned structure of the marked elements. -/
theorem prune_exact_wf (g : G) (hW : WF g = true) (ns cs ss is : List Nat) (hnd : ns.Nodup)
    (hn : ∀ n ∈ ns, g.cls? n = some .node ∧ g.kind? n ≠ some kFacility) (hc : ∀ c ∈ cs, g.cls? c = some .comp)
    (hs : ∀ s ∈ ss, g.cls? s = some .ns) (hi : ∀ i ∈ is, g.cls? i = some .cp ∧ isSub g i = false) :
    ∃ D, prune g ns cs ss is = .ok (g.minus D) ∧ ∀ y, y ∈ D ↔ OwnedS g (ns ++ cs ++ ss ++ is) y :=
  prune_full g hW ns cs ss is hnd hn hc hs hi

/-- the same calls **after** any sequence of earlier user-level calls (the deletion list `A` they left satisfies `InvA`):
the result is `A` plus what the element owns -/
theorem remove_after_wf (g : G) (hW : WF g = true) (A : List Nat) (hA : InvA g A) (x : Nat) (hxA : x ∉ A) :
    (g.cls? x = some .node → g.kind? x ≠ some kFacility → ResA g A (Own g x) (removeNodeApi (g.minus A) x)) ∧
    (g.cls? x = some .comp → ResA g A (Own g x) (removeComponentApi (g.minus A) x)) ∧
    (g.cls? x = some .ns → ResA g A (Own g x) (removeNsApi (g.minus A) x)) :=
  ⟨fun hc hk => removeNodeApi_resA g hW A hA x hc hk hxA, fun hc => removeComponentApi_resA g hW A hA x hc hxA,
   fun hc => removeNsApi_resA g hW A hA x hc hxA⟩

/-! ### Handles, from well-formedness alone -/

/-- **handle_fresh (`disconnect_interface`)**: whatever service handle the call goes through -/
theorem handle_fresh_disconnect_wf (g : G) (hW : WF g = true) (h : List IfH) (s i : Nat) (g' : G) (h' : List IfH)
    (hs : g.cls? s = some .ns) (hrun : disconnect g h i = .ok (g', h'))
    (hh : ∀ y, y ∈ hIds h ↔ y ∈ freshIfs g s) : ∀ y, y ∈ hIds h' ↔ y ∈ freshIfs g' s :=
  disconnect_fresh_wf g hW h s i g' h' hs hrun hh

/-- **handle_fresh (`remove_child_interface`)** -/
theorem handle_fresh_removeChild_wf (g : G) (hW : WF g = true) (h : List IfH) (p c : Nat)
    (hk : g.kind? p = some kDedicatedPort) (hpc : g.cls? p = some .cp) (hps : isSub g p = false)
    (hcp : c ∈ g.nbrs p .connects .cp) (hh : ∀ y, y ∈ hIds h ↔ y ∈ freshIfs g p) :
    ∃ g' h', removeChild g h p c = .ok (g', h') ∧ ∀ y, y ∈ hIds h' ↔ y ∈ freshIfs g' p :=
  removeChild_fresh_wf g hW h p c hk hpc hps hcp hh

/-- **handle_fresh (`unpeer`)**, both handles -/
theorem handle_fresh_unpeer_wf (g : G) (hW : WF g = true) (ha hb : List IfH) (a b i p : Nat)
    (hac : g.cls? a = some .ns) (hbc : g.cls? b = some .ns) (hab : a ≠ b)
    (hha : ∀ y, y ∈ hIds ha ↔ y ∈ freshIfs g a) (hhb : ∀ y, y ∈ hIds hb ↔ y ∈ freshIfs g b)
    (hfind : findPeering g ha hb = some (i, p)) :
    ∃ g' ha' hb', unpeer g ha hb = .ok (g', ha', hb') ∧
      (∀ y, y ∈ hIds ha' ↔ y ∈ freshIfs g' a) ∧ (∀ y, y ∈ hIds hb' ↔ y ∈ freshIfs g' b) := by
  obtain ⟨D, h1, _, h3, h4⟩ := unpeer_wf g hW ha hb a b i p hac hbc hab hha hhb hfind
  exact ⟨_, _, _, h1, h3, h4⟩

/-- non-vacuity: the running examples are well-formed — a three-ended shared link next to a sub-interface (`exG`), peered
services (`exPeer`), equal-named ports (`exNames`), a connected sub-interface (`exSub`), a link with two of its three
ends inside the removed service (`exShared`, where the separation hypothesis of `removeNs_exact` fails) -/
example : WF exG = true ∧ WF exPeer = true ∧ WF exNames = true ∧ WF exSub = true ∧ WF exShared = true := by decide

/-- node `1` (component `2`, service `3`, ports `4`, `5`) and node `6` (service `7`, port `8`); link `9` joins `4`, `5`
and `8`; both nodes and the component are marked: the link goes although no single marked element owns it -/
def exPrune : G :=
  { nodes := [⟨1, .node, 0, "n1"⟩, ⟨2, .comp, 0, "c"⟩, ⟨3, .ns, 0, "ovs"⟩, ⟨4, .cp, 0, "p1"⟩, ⟨5, .cp, 0, "p2"⟩,
              ⟨6, .node, 0, "n2"⟩, ⟨7, .ns, 0, "s"⟩, ⟨8, .cp, 0, "q"⟩, ⟨9, .link, 0, "l"⟩],
    edges := [⟨1, 2, .has, ""⟩, ⟨2, 3, .has, ""⟩, ⟨3, 4, .connects, ""⟩, ⟨3, 5, .connects, ""⟩, ⟨6, 7, .has, ""⟩,
              ⟨7, 8, .connects, ""⟩, ⟨9, 4, .connects, ""⟩, ⟨9, 5, .connects, ""⟩, ⟨9, 8, .connects, ""⟩] }

example : WF exPrune = true ∧ HypPrune exPrune [1, 6] [2] [] [] = false ∧
    (prune exPrune [1, 6] [2] [] []).toOption.map (fun g => g.nodes.map (·.id)) = some [] := by decide

example : (unpeer exPeer [⟨3, 0⟩] [⟨4, 0⟩]).toOption.map (fun r => r.1.nodes.map (·.id)) = some [1, 2] ∧
    findPeering exPeer [⟨3, 0⟩] [⟨4, 0⟩] = some (3, 4) ∧ freshIfs exPeer 1 = [3] ∧ freshIfs exPeer 2 = [4] := by decide


/-! ## Names (wave 3)

The public calls take names.  `Model/RemoveNames.lean` mirrors the lookups (`find_node_by_name`: none or several matches
raise; `find_component_by_name` …: first neighbour with the name; the name-keyed dictionaries `Topology.nodes`,
`Node.components`: last element wins) and the collection phase of `prune`.  Names are opaque codes compared for equality
only, so an element whose name is a prefix of another's, or equals the name of an element of another class, cannot be
confused by the model — and the correspondence run, which feeds such names, shows the code does not confuse them either. -/

/-- **what a successful `find_node_by_name` returns**: the one element of that class carrying that name -/
theorem lookup_spec {g : G} {d : Dir} {c : Cls} {name n : Nat} (h : findByName g d c name = .ok n) :
    ∃ e ∈ g.nodes, e.id = n ∧ e.cls = c ∧ d.nameOf n = some name ∧
      ∀ e' ∈ g.nodes, e'.cls = c → d.nameOf e'.id = some name → e' = e := findByName_spec h

/-- **by-name = by-id**, for every removal call that takes a name: the call removes the element the lookup designates.
Graph ids distinct; component names distinct within the node (what `add_component` enforces). -/
theorem remove_byName (h : G) (d : Dir) (name x : Nat) (hid : (h.nodes.map (·.id)).Nodup) :
    (findByName h d .node name = .ok x → ((h.nbrs x .has .comp).map d.nameOf).Nodup →
      (h.kind? x ≠ some kFacility → removeNodeByName h d name = removeNodeApi h x) ∧
      (h.kind? x = some kFacility → removeFacilityByName h d name = removeFacilityApi h x) ∧
      (h.kind? x = some kSwitch → removeSwitchByName h d name = removeSwitchApi h x)) ∧
    (findByName h d .link name = .ok x → removeLinkByName h d name = removeLinkApi h x) ∧
    (findByName h d .ns name = .ok x → removeNsByName h d name = removeNsApi h x) :=
  ⟨fun hf hc => ⟨fun hk => removeNodeByName_eq h d name x hid hf hk hc,
                 fun hk => removeFacilityByName_eq h d name x hid hf hk hc,
                 fun hk => removeSwitchByName_eq h d name x hid hf hk hc⟩,
   fun hf => removeLinkByName_eq h d name x hf, fun hf => removeNsByName_eq h d name x hf⟩

/-- **by-name through a parent handle**: `Node.remove_component`, `Node.remove_network_service`,
`Interface.remove_child_interface` -/
theorem remove_byName_child (h : G) (d : Dir) (hl : List IfH) (p x name : Nat) (hname : d.nameOf x = some name) :
    (h.cls? p = some .node → x ∈ h.nbrs p .has .comp → ((h.nbrs p .has .comp).map d.nameOf).Nodup →
      nodeRemoveComponent h d p name = removeComponentApi h x) ∧
    ((h.cls? p = some .node ∨ h.cls? p = some .comp) → x ∈ h.nbrs p .has .ns →
      (∀ y ∈ h.nbrs p .has .ns, d.nameOf y = some name → y = x) → nodeRemoveNs h d p name = removeNsApi h x) ∧
    (x ∈ h.nbrs p .connects .cp → (∀ y ∈ h.nbrs p .connects .cp, d.nameOf y = some name → y = x) →
      removeChildByName h d hl p name = removeChild h hl p x) :=
  ⟨fun hp hx hnd => nodeRemoveComponent_eq h d p x name hp hx hname hnd,
   fun hp hx hu => nodeRemoveNs_eq h d p x name hp hx hname hu,
   fun hx hu => removeChildByName_eq h d hl p x name hx hname hu⟩

/-- **`NetworkService.remove_interface(name=)`** (substrate topologies): exactness, the handle, and by-name = by-id -/
theorem remove_interface_exact_wf (g : G) (hW : WF g = true) (h : List IfH) (s i : Nat) (hs : g.cls? s = some .ns)
    (hi : i ∈ g.nbrs s .connects .cp) (hh : ∀ y, y ∈ hIds h ↔ y ∈ freshIfs g s) :
    ∃ D, removeInterface g h i = .ok (g.minus D, hDrop h i) ∧
      (∀ y, y ∈ D ↔ Below g i y ∨ (g.cls? y = some .link ∧ 2 ≤ (g.nbrs y .connects .cp).length ∧
        (∃ e ∈ g.nbrs y .connects .cp, Below g i e) ∧
        ∀ e1 ∈ g.nbrs y .connects .cp, ∀ e2 ∈ g.nbrs y .connects .cp, ¬ Below g i e1 → ¬ Below g i e2 → e1 = e2)) ∧
      ∀ y, y ∈ hIds (hDrop h i) ↔ y ∈ freshIfs (g.minus D) s := removeInterface_wf g hW h s i hs hi hh

theorem remove_interface_byName (g : G) (d : Dir) (h : List IfH) (s i name : Nat) (hs : g.cls? s = some .ns)
    (hi : i ∈ g.nbrs s .connects .cp) (hname : d.nameOf i = some name)
    (huniq : ∀ y ∈ g.nbrs s .connects .cp, d.nameOf y = some name → y = i) :
    removeInterfaceByName g d h s name = removeInterface g h i := removeInterfaceByName_eq g d h s i name hs hi hname huniq

/-- a name that designates no (non-facility) node — e.g. the name of a service, of a link, or a prefix of a node's name —
makes `remove_node` raise before anything is touched -/
theorem remove_node_absent_name (h : G) (d : Dir) (name : Nat)
    (hno : ∀ e ∈ h.nodes, e.cls = .node → e.kind ≠ kFacility → d.nameOf e.id ≠ some name) :
    removeNodeByName h d name = .error .topology := removeNodeByName_absent h d name hno

/-- **soundness of the collection phase of `prune`** -/
theorem prune_collect_sound (g : G) (d : Dir) (hid : (g.nodes.map (·.id)).Nodup) : MarkedOK g d (pruneCollect g d) :=
  pruneCollect_ok g d hid

/-- **completeness of the collection phase** for nodes and services: every marked node of `Topology.nodes` and every marked
service of `Topology.network_services` (met below a component or only in the final pass) is collected.  (For components
and interfaces the correspondence run compares what the model collects with the marks on every prune case.) -/
theorem prune_collect_complete (g : G) (d : Dir) (x : Nat) (hm : d.isMarked x = true) :
    (x ∈ topoNodes g d → x ∈ (pruneCollect g d).nodes) ∧ (x ∈ topoNss g d → x ∈ (pruneCollect g d).nss) :=
  ⟨fun h => pruneCollect_nodes_complete g d x h hm, fun h => pruneCollect_nss_complete g d x h hm⟩

/-- **`ExperimentTopology.prune(state)` through its public entry point** — collection phase, by-name pruning of nodes
and components, guarded loops — on a well-formed topology with unique names deletes exactly the owned structure of what
the collection phase gathered -/
theorem prune_api_exact (g : G) (hW : WF g = true) (d : Dir) (hN : NamesOK g d = true) :
    ∃ D, pruneApi g d = .ok (g.minus D) ∧
      ∀ y, y ∈ D ↔ OwnedS g ((pruneCollect g d).nodes ++ (pruneCollect g d).comps.map (·.1) ++ (pruneCollect g d).nss ++
        (pruneCollect g d).ifs) y := pruneApi_exact g hW d hN

/-- names for `exPrune`: node `1` "a" (code 0), node `6` "ab" (code 1: a prefix-related name is just another code), the
service of node `6` carries the same name as node `1`; nodes `1`, `6` and component `2` are marked -/
def exDir : Dir :=
  { names := [(1, 0), (2, 2), (3, 3), (4, 4), (5, 5), (6, 1), (7, 0), (8, 6), (9, 7)], marked := [1, 6, 2] }

example : NamesOK exPrune exDir = true ∧ (findByName exPrune exDir .node 0).toOption = some 1 ∧
    (findByName exPrune exDir .ns 0).toOption = some 7 ∧ (findByName exPrune exDir .link 0).toOption = none ∧
    ((pruneCollect exPrune exDir).nodes, (pruneCollect exPrune exDir).comps) = ([1, 6], [(2, 1)]) ∧
    (pruneApi exPrune exDir).toOption.map (fun g => g.nodes.map (·.id)) = some [] := by decide


/-! ## The generated plans (wave 3)

`Generated/RemovalPlan.lean` is rewritten from /repo's AST on every run: per removal function the tracked helper calls
in evaluation order, the shape of the argument of `_disconnect_interfaces`, the two length tests of
`remove_cp_and_links`, the loops of `prune`.  The driver runs the interpretations of these plans
(`Model/RemovePlan.lean`); the theorems above are about the hand-written functions.  `plan_bridge` identifies the two for
the plans as they are; it is re-checked against the regenerated table on every run. -/

/-- **the interpreted plans are the modelled calls** -/
theorem plan_bridge :
    (∀ g x dp, removeCpP g x dp = removeCp g x (dp.getD true)) ∧ removeNsP = Remove.removeNs ∧ removeCompP = removeComp ∧
    removeNodeGP = removeNodeG ∧ removeLinkGP = removeLinkG ∧
    (∀ g n, removeNodeApiP g n = removeNodeApi g n) ∧ (∀ g n, removeFacilityApiP g n = removeFacilityApi g n) ∧
    (∀ g n, removeSwitchApiP g n = removeSwitchApi g n) ∧ (∀ g c, removeComponentApiP g c = removeComponentApi g c) ∧
    (∀ g s, removeNsApiP g s = removeNsApi g s) ∧ (∀ g l, removeLinkApiP g l = removeLinkApi g l) ∧
    (∀ g h p c, removeChildP g h p c = Remove.removeChild g h p c) ∧
    (∀ g h i, removeInterfaceP g h i = removeInterface g h i) ∧
    (∀ g ns cs ss is, pruneP g ns cs ss is = Remove.prune g ns cs ss is) :=
  ⟨removeCpP_eq, removeNsP_fun, removeCompP_fun, removeNodeGP_fun, removeLinkGP_fun, removeNodeApiP_eq, removeFacilityApiP_eq,
   removeSwitchApiP_eq, removeComponentApiP_eq, removeNsApiP_eq, removeLinkApiP_eq, removeChildP_eq, removeInterfaceP_eq, pruneP_eq⟩

open FimVerif.Gen.RemovalPlan in
/-- **table facts** for the calls that are not interpreted step by step: `disconnect_interface` looks for the peers and
makes one `remove_cp_and_links` call with the default `delete_parent`; `unpeer` makes two; `remove_interface` one;
`remove_storage` is `remove_component`; `_disconnect_interfaces` tests presence, asks for the ServicePort peers, takes the
parent element of the single peer and calls its `disconnect_interface`, all inside the loop, and insists on exactly one
peer; `Topology.remove_network_service` and `Node.remove_network_service` have the same plan -/
theorem plan_facts :
    disconnectInterface = [⟨.getPeers, false⟩, ⟨.gcp none, false⟩] ∧
    Gen.RemovalPlan.unpeer = [⟨.getPeers, true⟩, ⟨.gcp none, false⟩, ⟨.gcp none, false⟩] ∧
    Gen.RemovalPlan.removeInterface = [⟨.gcp none, false⟩] ∧ nodeRemoveStorage = [⟨.callRemoveComponent, false⟩] ∧
    disconnectInterfaces = [⟨.nodeExists, true⟩, ⟨.getPeers, true⟩, ⟨.getParent, true⟩, ⟨.dconn, true⟩] ∧
    discPeerCount = 1 ∧ removeNetworkService = nodeRemoveNetworkService ∧ cpDeleteParentDefault = true ∧
    pruneLoops = [(.pruneNode, false), (.pruneComp, true), (.pruneNs, true), (.pruneIface, true)] := by decide

/-! ## Renames: a name denotes what carries it now

Round 5.  A by-name call after `x.rename(new)` (with any lookups before it, and whoever took the freed name since) finds,
for every name other than `new`, an element that is not `x`, that is a child now and carries the name now; with
`remove_byName` (which holds for every `Dir`, hence for `d.rename x new`) the call then removes exactly `OwnedS` of that element.
The histories of the correspondence (lookup, rename, re-use of the freed name, by-name removal) send the model the names as
they are after the history. -/

/-- after a rename the element is denoted by no name other than the new one: `find_*_by_name` under a parent … -/
theorem findChild_rename_ne (g : G) (d : Dir) (x new p : Nat) (r : Rel) (c : Cls) (nm y : Nat)
    (hne : nm ≠ new) (h : findChild g (d.rename x new) p r c nm = .ok y) : y ≠ x := by
  unfold findChild at h
  split at h
  · rename_i y' hf
    have h1 := List.find?_some hf
    cases h
    intro hyx
    subst hyx
    exact hne (nameOf_rename_self d _ new nm (by simpa using h1))
  · cases h

/-- … what it finds is a child NOW and carries the name NOW … -/
theorem findChild_rename_spec (g : G) (d : Dir) (x new p : Nat) (r : Rel) (c : Cls) (nm y : Nat)
    (h : findChild g (d.rename x new) p r c nm = .ok y) :
    y ∈ g.nbrs p r c ∧ (d.rename x new).nameOf y = some nm := by
  unfold findChild at h
  split at h
  · rename_i y' hf
    cases h
    exact ⟨List.mem_of_find?_eq_some hf, by simpa using List.find?_some hf⟩
  · cases h

/-- … and the same for `find_node_by_name` -/
theorem findByName_rename_ne (g : G) (d : Dir) (x new : Nat) (c : Cls) (nm y : Nat)
    (hne : nm ≠ new) (h : findByName g (d.rename x new) c nm = .ok y) : y ≠ x := by
  unfold findByName at h
  split at h
  · rename_i e hf
    cases h
    have hm : e ∈ g.nodes.filter (fun e => e.cls == c && (d.rename x new).nameOf e.id == some nm) := by rw [hf]; simp
    have h2 := (List.mem_filter.mp hm).2
    simp only [Bool.and_eq_true, beq_iff_eq] at h2
    intro hyx
    rw [hyx] at h2
    exact hne (nameOf_rename_self d x new nm h2.2)
  · cases h

example : findChild ⟨[⟨1, .node, 0, ""⟩, ⟨2, .comp, 0, ""⟩, ⟨3, .comp, 0, ""⟩], [⟨1, 2, .has, ""⟩, ⟨1, 3, .has, ""⟩]⟩
    ((Dir.mk [(1, 0), (2, 7), (3, 8)] []).rename 2 9 |>.rename 3 7) 1 .has .comp 7 = .ok 3 := by rfl

/-! ### Round 7: what survives keeps every property

`props` stands for every property of an element other than the class and the `Type` the removal code looks at (the Site
of a service, labels, capacities, ...).  The implementation side of the correspondence compares the complete property
dictionaries of all survivors before and after the call (`frame`), the model answers `frame = true`: the two theorems
below say why - for every operation, every graph, every payload, and after any sequence of calls. -/

/-- **A survivor is literally the element it was**: class, kind and the whole property payload (the Site of a service whose
last interface has just been disconnected, for one). -/
theorem survivor_unchanged (op : Op) (g g' : G) (h : op.run g = .ok g') (x : Nat) (hx : g'.has x = true) :
    g'.find x = g.find x := by
  obtain ⟨D, hn, _⟩ := remove_frame op g g' h
  have hD : D.contains x = false := by
    unfold G.has G.find at hx
    rw [hn] at hx
    obtain ⟨n, hfind⟩ := Option.isSome_iff_exists.mp hx
    have hmem := List.mem_of_find?_eq_some hfind
    have hq := List.find?_some hfind
    have hid : n.id = x := by simpa using hq
    have hp := (List.mem_filter.mp hmem).2
    rw [hid] at hp
    simpa using hp
  unfold G.find
  rw [hn, List.find?_filter]
  congr 1
  funext a
  by_cases ha : a.id = x
  · subst ha
    have hD' : ¬ a.id ∈ D := by simpa using hD
    simp [hD']
  · simp [ha]

/-- ... and the same after any sequence of removal / disconnect / un-peer calls (connect .. disconnect .. disconnect). -/
theorem survivor_unchanged_seq (ops : List Op) (g g' : G) (h : ops.foldlM (fun g op => op.run g) g = .ok g')
    (x : Nat) (hx : g'.has x = true) : g'.find x = g.find x := by
  induction ops generalizing g with
  | nil => simp [List.foldlM] at h; cases h; rfl
  | cons op rest ih =>
    rw [List.foldlM_cons] at h
    cases h1 : op.run g with
    | error e => rw [h1] at h; cases h
    | ok g1 =>
      rw [h1] at h
      have e1 := ih g1 h
      have hx1 : g1.has x = true := by unfold G.has at hx ⊢; rw [← e1]; exact hx
      rw [e1]; exact survivor_unchanged op g g1 h1 x hx1

example : Op.run (.gRemoveLink 2) ⟨[⟨1, .ns, 0, "Site=RENC"⟩, ⟨2, .link, 0, ""⟩], [⟨1, 2, .connects, ""⟩]⟩ = .ok ⟨[⟨1, .ns, 0, "Site=RENC"⟩], []⟩ := by rfl

/-- The removal model never looks at the *model* of a component (a component is a class, its services and their ports);
the catalog probe (`gen/removalplan.py: probe_catalog`, regenerated on every run) pins that the code does not either: for every
model of the catalog - the rare one with ports of its own, an FPGA, included - `Node.remove_component`, `Node.remove_storage`
and `Topology.remove_node` leave nothing of the peering created for the component's interfaces behind; and the table is not
vacuous (some model has ports and had them connected). -/
theorem catalog_removal_clean :
    Gen.RemovalProbe.catalogRemoval.all (fun r => r.2.2.2.2) = true ∧
    Gen.RemovalProbe.catalogRemoval.any (fun r => decide (r.2.2.1 > 0) && decide (r.2.2.2.1 > r.2.2.1)) = true := by decide

/-- `survivor_unchanged` says the model never touches a property of a survivor; the service probe (regenerated on every run) pins
that the code does not either where it is most tempted to: a service of ANY ServiceType - single-site or not - that carries a
Site, given by the user or written by `validate()`, keeps its whole property dictionary when its last interface is
disconnected or removed with its owner. -/
theorem service_properties_kept :
    Gen.RemovalProbe.serviceKept.all (fun r => r.2.2.2) = true ∧ Gen.RemovalProbe.serviceKept.length > 0 := by decide

/-- The removal model deletes what hangs below a node by walking the containment graph: every interface of every service the
node owns, whatever it is called.  Interface names are unique per *service* only, so a node that owns several services
directly holds several interfaces of one name; the probe (`gen/removalplan.py: probe_own_services`, regenerated on every run)
pins that the code collects "the interfaces of the node" the same way - by identity, not by name: `remove_node`,
`remove_switch` and `prune` on a node / a switch with 1, 2, 3 services, each with a connected `p1`, leave no service-side port
and no link of any of them behind; and the table is not vacuous (hosts with several such services are in it). -/
theorem own_services_removal_clean :
    Gen.RemovalProbe.ownServicesRemoval.all (fun r => r.2.2.2) = true ∧
    Gen.RemovalProbe.ownServicesRemoval.any (fun r => decide (r.2.2.1 ≥ 2)) = true := by decide

end FimVerif.C08
