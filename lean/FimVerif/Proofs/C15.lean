import FimVerif.Model.Cap
/-!
# C15 — capacity arithmetic and comparison obey their algebraic laws

Every theorem quantifies over all capacity values (all `Int` in every field, any
field list the translator emits).  The operators `addOp subOp gtFail ltFail eqFail
negField posFail freeOp` are regenerated from the Python source on every run, so a
change of any of them re-checks these proofs against the new definition.
-/
namespace FimVerif.C15
open FimVerif.Cap FimVerif.Gen.CapOps

/-- `(a + b) - b = a`, field by field. -/
theorem add_sub_cancel (a b : Cap) : sub (add a b) b = a := by
  funext f; simp [sub, add, addOp, subOp]

/-- `a + b = b + a`. -/
theorem add_comm (a b : Cap) : add a b = add b a := by
  funext f; simp [add, addOp]; omega

/-- `free = total - allocated` and `free + allocated = total`. -/
theorem free_eq_sub (t al : Cap) : free t al = sub t al := by
  funext f; simp [free, sub, freeOp]

theorem free_plus_alloc (t al : Cap) : add (free t al) al = t := by
  funext f; simp [free, add, freeOp, addOp, subOp]

/-- `negative_fields` reports exactly the (known) fields whose value is negative, by name. -/
theorem negative_fields_exact (x : Cap) (f : String) :
    f ∈ negativeFields x ↔ f ∈ fields ∧ x f < 0 := by
  simp [negativeFields, negField]

private theorem lt_field (a b : Int) : (!ltFail a b) = true ↔ ¬ (negField (subOp b a) = true) := by
  grind [ltFail, negField, subOp]

private theorem gt_field (a b : Int) : (!gtFail a b) = true ↔ ¬ (negField (subOp a b) = true) := by
  grind [gtFail, negField, subOp]

/-- "a fits in b" (`a < b` in the library's componentwise sense) exactly when `b - a` has no negative field. -/
theorem lt_iff_sub_nonneg (a b : Cap) : lt a b = true ↔ negativeFields (sub b a) = [] := by
  simp only [lt, negativeFields, List.all_eq_true, List.filter_eq_nil_iff, sub]
  exact forall_congr' fun f => imp_congr_right fun _ => lt_field (a f) (b f)

theorem gt_iff_sub_nonneg (a b : Cap) : gt a b = true ↔ negativeFields (sub a b) = [] := by
  simp only [gt, negativeFields, List.all_eq_true, List.filter_eq_nil_iff, sub]
  exact forall_congr' fun f => imp_congr_right fun _ => gt_field (a f) (b f)

/-- the two comparisons are converses of each other -/
theorem gt_iff_lt_swap (a b : Cap) : gt a b = lt b a := by
  simp only [gt, lt]; congr

/-- `==` holds exactly when all observable fields agree -/
theorem eq_iff (a b : Cap) : eq a b = true ↔ ∀ f ∈ fields, a f = b f := by
  simp [eq, eqFail]

theorem eq_refl (a : Cap) : eq a a = true := by
  simp [eq, eqFail]

theorem eq_symm (a b : Cap) : eq a b = eq b a := by
  simp only [eq]; congr; funext f; grind [eqFail]

/-- equality is what the list of observable values says -/
theorem eq_iff_toList (a b : Cap) : eq a b = true ↔ toList a = toList b := by
  simp [eq_iff, toList]

/-- subtraction is total: the result of `a - b` is a value whatever the operands, its negative
fields are exactly the fields where `a < b`, and `toStr` is a total function on it. -/
theorem sub_negative_fields (a b : Cap) (f : String) :
    f ∈ negativeFields (sub a b) ↔ f ∈ fields ∧ a f < b f := by
  simp only [negativeFields, List.mem_filter]; grind [negField, sub, subOp]

/-- `positive_fields` -/
theorem positive_fields_iff (x : Cap) (fs : List String) :
    positiveFields x fs = true ↔ ∀ f ∈ fs, 0 < x f := by
  simp [positiveFields, posFail]

/-- adding is monotone for "fits": if a fits in b then a + c fits in b + c -/
theorem lt_add_right (a b c : Cap) : lt a b = true → lt (add a c) (add b c) = true := by
  simp only [lt, List.all_eq_true]
  intro h f hf; have := h f hf; grind [ltFail, add, addOp]

/-- **Operands are never modified**, also under augmented assignment: the class defines no in-place, reflected
or comparison/truthiness hook (decided over the method list regenerated from the source), so `a += b` /
`a -= b` rebind to a new value — which is what `augAdd`/`augSub` model — and the operand is left as it was. -/
theorem no_operator_hooks : operatorHooks.all (fun m => !methods.contains m) = true := by decide

theorem aug_assign_pure (a b : Cap) :
    (augAdd a b).1 = add a b ∧ (augAdd a b).2 = a ∧ (augSub a b).1 = sub a b ∧ (augSub a b).2 = a :=
  ⟨rfl, rfl, rfl, rfl⟩

/-- a running total kept with `+=` equals the fold of `+`, and `-=` undoes it -/
theorem running_total (xs : List Cap) (z : Cap) :
    xs.foldl (fun acc x => (augAdd acc x).1) z = xs.foldl add z := rfl

/-- Non-vacuity: a concrete pair where a fits in b, and one where it does not (negative field named). -/
example : lt (ofList [1,2,3,4,0,0,0,0]) (ofList [1,2,3,5,0,0,0,0]) = true := by decide
example : negativeFields (sub (ofList [1,2,3,4,0,0,0,0]) (ofList [1,2,4,4,0,0,0,0])) = ["ram"] := by decide

end FimVerif.C15
