import FimVerif.Model.Cap
/-!
# C15 — capacity arithmetic and comparison obey their algebraic laws

Every theorem quantifies over all capacity values (all `Int` in every field, any
field list the translator emits).  The operators `addOp subOp gtFail ltFail eqFail
negField posFail freeOp` are regenerated from the Python source on every run, so a
change of any of them re-checks these proofs against the new definition.
-/
namespace FimVerif.C15
open FimVerif.Cap FimVerif.Gen.CapOps

/-- `(a + b) - b = a`, field by field. -/
theorem add_sub_cancel (a b : Cap) : sub (add a b) b = a := by
  funext f; simp [sub, add, addOp, subOp]

/-- `a + b = b + a`. -/
theorem add_comm (a b : Cap) : add a b = add b a := by
  funext f; simp [add, addOp]; omega

/-- `free = total - allocated` and `free + allocated = total`. -/
theorem free_eq_sub (t al : Cap) : free t al = sub t al := by
  funext f; simp [free, sub, freeOp]

theorem free_plus_alloc (t al : Cap) : add (free t al) al = t := by
  funext f; simp [free, add, freeOp, addOp, subOp]

/-- `negative_fields` reports exactly the (known) fields whose value is negative, by name. -/
theorem negative_fields_exact (x : Cap) (f : String) :
    f ∈ negativeFields x ↔ f ∈ fields ∧ x f < 0 := by
  simp [negativeFields, negField]

private theorem lt_field (a b : Int) : (!ltFail a b) = true ↔ ¬ (negField (subOp b a) = true) := by
  grind [ltFail, negField, subOp]

private theorem gt_field (a b : Int) : (!gtFail a b) = true ↔ ¬ (negField (subOp a b) = true) := by
  grind [gtFail, negField, subOp]

/-- "a fits in b" (`a < b` in the library's componentwise sense) exactly when `b - a` has no negative field. -/
theorem lt_iff_sub_nonneg (a b : Cap) : lt a b = true ↔ negativeFields (sub b a) = [] := by
  simp only [lt, negativeFields, List.all_eq_true, List.filter_eq_nil_iff, sub]
  exact forall_congr' fun f => imp_congr_right fun _ => lt_field (a f) (b f)

theorem gt_iff_sub_nonneg (a b : Cap) : gt a b = true ↔ negativeFields (sub a b) = [] := by
  simp only [gt, negativeFields, List.all_eq_true, List.filter_eq_nil_iff, sub]
  exact forall_congr' fun f => imp_congr_right fun _ => gt_field (a f) (b f)

/-- the two comparisons are converses of each other -/
theorem gt_iff_lt_swap (a b : Cap) : gt a b = lt b a := by
  simp only [gt, lt]; congr

/-- `==` holds exactly when all observable fields agree -/
theorem eq_iff (a b : Cap) : eq a b = true ↔ ∀ f ∈ fields, a f = b f := by
  simp [eq, eqFail]

theorem eq_refl (a : Cap) : eq a a = true := by
  simp [eq, eqFail]

theorem eq_symm (a b : Cap) : eq a b = eq b a := by
  simp only [eq]; congr; funext f; grind [eqFail]

/-- equality is what the list of observable values says -/
theorem eq_iff_toList (a b : Cap) : eq a b = true ↔ toList a = toList b := by
  simp [eq_iff, toList]

/-- subtraction is total: the result of `a - b` is a value whatever the operands, its negative
fields are exactly the fields where `a < b`, and `toStr` is a total function on it. -/
theorem sub_negative_fields (a b : Cap) (f : String) :
    f ∈ negativeFields (sub a b) ↔ f ∈ fields ∧ a f < b f := by
  simp only [negativeFields, List.mem_filter]; grind [negField, sub, subOp]

/-- `positive_fields` -/
theorem positive_fields_iff (x : Cap) (fs : List String) :
    positiveFields x fs = true ↔ ∀ f ∈ fs, 0 < x f := by
  simp [positiveFields, posFail]

/-- adding is monotone for "fits": if a fits in b then a + c fits in b + c -/
theorem lt_add_right (a b c : Cap) : lt a b = true → lt (add a c) (add b c) = true := by
  simp only [lt, List.all_eq_true]
  intro h f hf; have := h f hf; grind [ltFail, add, addOp]

/-! ### more algebra -/

/-- `(a - b) + b = a` -/
theorem sub_add_cancel (a b : Cap) : add (sub a b) b = a := by
  funext f; simp [sub, add, addOp, subOp]

theorem add_assoc (a b c : Cap) : add (add a b) c = add a (add b c) := by
  funext f; simp [add, addOp]; omega

theorem add_zero (a : Cap) : add a zero = a := by
  funext f; simp [add, addOp, zero]

theorem sub_zero (a : Cap) : sub a zero = a := by
  funext f; simp [sub, subOp, zero]

/-- `a - a` is the all-zero capacity, which prints as the empty string and has no negative field -/
theorem sub_self (a : Cap) : sub a a = zero := by
  funext f; simp [sub, subOp, zero]

/-- `a - b = a + (-b)`-style law without negation: `(a - b) - c = a - (b + c)` (allocating twice = allocating the sum) -/
theorem sub_sub (a b c : Cap) : sub (sub a b) c = sub a (add b c) := by
  funext f; simp [sub, add, addOp, subOp]; omega

/-- free capacity after a further allocation: `FreeCapacity(total, alloc + x).free = FreeCapacity(total, alloc).free - x` -/
theorem free_after_allocation (t al x : Cap) : free t (add al x) = sub (free t al) x := by
  funext f; simp [free, sub, add, freeOp, addOp, subOp]; omega

/-! ### the order "fits within" -/

theorem lt_refl (a : Cap) : lt a a = true := by
  simp [lt, ltFail]

theorem lt_trans (a b c : Cap) (h1 : lt a b = true) (h2 : lt b c = true) : lt a c = true := by
  simp only [lt, List.all_eq_true] at *
  intro f hf; have := h1 f hf; have := h2 f hf; grind [ltFail]

/-- fitting both ways is equality of all observable fields -/
theorem lt_antisymm (a b : Cap) (h1 : lt a b = true) (h2 : lt b a = true) : eq a b = true := by
  simp only [lt, eq, List.all_eq_true] at *
  intro f hf; have := h1 f hf; have := h2 f hf; grind [ltFail, eqFail]

/-- "fits" in terms of the fields: every observable field of `a` is at most that of `b` - for ALL integers, negative included -/
theorem lt_iff_fields (a b : Cap) : lt a b = true ↔ ∀ f ∈ fields, a f ≤ b f := by
  simp only [lt, List.all_eq_true]
  exact forall_congr' fun f => imp_congr_right fun _ => by grind [ltFail]

theorem gt_iff_fields (a b : Cap) : gt a b = true ↔ ∀ f ∈ fields, b f ≤ a f := by
  simp only [gt, List.all_eq_true]
  exact forall_congr' fun f => imp_congr_right fun _ => by grind [gtFail]

/-- when `a` does NOT fit in `b`, the fields reported for `b - a` are exactly the fields in which `a` exceeds `b`, and there is one -/
theorem not_lt_names_deficit (a b : Cap) (h : lt a b = false) :
    negativeFields (sub b a) ≠ [] ∧ ∀ f, f ∈ negativeFields (sub b a) ↔ f ∈ fields ∧ b f < a f := by
  refine ⟨?_, fun f => sub_negative_fields b a f⟩
  intro hnil
  have := (lt_iff_sub_nonneg a b).mpr hnil
  simp [this] at h

/-! ### equality -/

theorem eq_trans (a b c : Cap) (h1 : eq a b = true) (h2 : eq b c = true) : eq a c = true := by
  rw [eq_iff] at *
  intro f hf; rw [h1 f hf, h2 f hf]

/-- the all-zero capacity equals itself (the value C15-r3-1 broke), and equality with it means every field is zero -/
theorem eq_zero_zero : eq zero zero = true := eq_refl zero

theorem eq_zero_iff (a : Cap) : eq a zero = true ↔ ∀ f ∈ fields, a f = 0 := by
  simp [eq_iff, zero]

/-- equal operands give equal results -/
theorem add_congr (a a' b b' : Cap) (h1 : eq a a' = true) (h2 : eq b b' = true) : eq (add a b) (add a' b') = true := by
  rw [eq_iff] at *
  intro f hf; simp [add, h1 f hf, h2 f hf]

theorem sub_congr (a a' b b' : Cap) (h1 : eq a a' = true) (h2 : eq b b' = true) : eq (sub a b) (sub a' b') = true := by
  rw [eq_iff] at *
  intro f hf; simp [sub, h1 f hf, h2 f hf]

/-! ### equality when an operand lacks fields (an object restored from a pickle of an older release)

`eqMissing` (how `__eq__` reads a field the other object does not carry) is probed on the real method each run; the theorems below
are re-checked against the probed value.  Full statement wanted by the property: `∀ x y, eqD x y = eqD y x`.  It is FALSE for the
code as it is (`legacy_eq_symm_counterexample`: the loop runs over the left operand's own fields, so a non-zero field only the
right operand carries is never looked at); what holds is symmetry whenever the fields only one side carries are 0 there
(`legacy_eq_symm_partial`), and that the two directions TOGETHER are exactly equality of the values (`legacy_eq_both_iff_value`). -/

/-- complete objects: the loop with `.get` is the ordinary `__eq__` -/
theorem legacy_eq_full (a b : Cap) : eqD (PCap.full a) (PCap.full b) = eq a b := by
  simp [eqD, PCap.full, PCap.read, eq]

/-- what `x == y` decides: every field x carries equals y's, a field y lacks counting as 0 -/
theorem legacy_eq_iff (x y : PCap) : eqD x y = true ↔ ∀ f ∈ fields, x.has f = true → x.val f = y.value f := by
  simp only [eqD, List.all_eq_true, List.mem_filter, PCap.read, PCap.value, eqMissing]
  constructor
  · intro h f hf hx
    have := h f ⟨hf, hx⟩
    by_cases hy : y.has f = true <;> simp [hy, eqFail] at this ⊢ <;> exact this
  · intro h f hf
    have := h f hf.1 hf.2
    by_cases hy : y.has f = true <;> simp [hy, eqFail] at this ⊢ <;> exact this

/-- reflexive, whatever fields the object carries -/
theorem legacy_eq_refl (x : PCap) : eqD x x = true := by
  rw [legacy_eq_iff]; intro f _ hx; simp [PCap.value, hx]

/-- a current object on the left (the case the comment in `__eq__` is about): equal iff the values are, missing = 0 -/
theorem legacy_eq_full_left (a : Cap) (y : PCap) : eqD (PCap.full a) y = eq a y.value := by
  rw [Bool.eq_iff_iff, legacy_eq_iff, eq_iff]; simp [PCap.full]

/-- every field that only one of the two objects carries holds 0 there -/
def zeroExtras (x y : PCap) : Bool :=
  fields.all fun f => (!(x.has f && !y.has f) || x.val f == 0) && (!(y.has f && !x.has f) || y.val f == 0)

theorem legacy_eq_symm_partial (x y : PCap) (h : zeroExtras x y = true) : eqD x y = eqD y x := by
  rw [Bool.eq_iff_iff, legacy_eq_iff, legacy_eq_iff]
  simp only [zeroExtras, List.all_eq_true] at h
  constructor
  · intro hxy f hf hy
    have h1 := h f hf; have h2 := hxy f hf
    by_cases hx : x.has f = true <;> simp [PCap.value, hx, hy] at h1 h2 ⊢ <;> omega
  · intro hyx f hf hx
    have h1 := h f hf; have h2 := hyx f hf
    by_cases hy : y.has f = true <;> simp [PCap.value, hx, hy] at h1 h2 ⊢ <;> omega

/-- the old object of the demo: everything but `mtu`, against a current object with the same values and `mtu = 0` -/
def legacyOld : PCap := { has := fun f => f != "mtu", val := fun f => if f == "core" then 4 else 0 }
def legacyNew (mtu : Int) : PCap := PCap.full fun f => if f == "core" then 4 else if f == "mtu" then mtu else 0

example : zeroExtras legacyOld (legacyNew 0) = true := by decide
example : eqD legacyOld (legacyNew 0) = true ∧ eqD (legacyNew 0) legacyOld = true := by decide

/-- symmetry fails as soon as the right operand carries a non-zero field the left one lacks -/
theorem legacy_eq_symm_counterexample : eqD legacyOld (legacyNew 1500) = true ∧ eqD (legacyNew 1500) legacyOld = false := by decide

/-- both directions together are exactly equality of the values the objects stand for (missing = 0) -/
theorem legacy_eq_both_iff_value (x y : PCap) : (eqD x y = true ∧ eqD y x = true) ↔ eq x.value y.value = true := by
  rw [legacy_eq_iff, legacy_eq_iff, eq_iff]
  constructor
  · intro ⟨h1, h2⟩ f hf
    have a := h1 f hf; have b := h2 f hf
    by_cases hx : x.has f = true <;> by_cases hy : y.has f = true <;> simp [PCap.value, hx, hy] at a b ⊢ <;> omega
  · intro h
    constructor
    · intro f hf hx; have a := h f hf; simp [PCap.value, hx] at a ⊢; exact a
    · intro f hf hy; have a := h f hf; simp [PCap.value, hy] at a ⊢; exact a.symm

/-! ### operands are never modified

The class defines no in-place, reflected or comparison/truthiness hook (decided over the list of special methods read from the
running class), and the translator's probe of `acc = a; acc += b` on the real objects found a new object (`iaddInPlace = false`).
On that basis: -/

theorem no_operator_hooks : operatorHooks.all (fun m => !methods.contains m) = true := by decide

theorem aug_assign_pure (a b : Cap) :
    (augAdd a b).1 = add a b ∧ (augAdd a b).2 = a ∧ (augSub a b).1 = sub a b ∧ (augSub a b).2 = a := by
  simp [augAdd, augSub, iaddInPlace, isubInPlace]

/-- a running total kept with `+=` equals the fold of `+`, and `-=` undoes it -/
theorem running_total (xs : List Cap) (z : Cap) :
    xs.foldl (fun acc x => (augAdd acc x).1) z = xs.foldl add z := by
  simp [augAdd, iaddInPlace]

/-- one statement only ever appends to the store -/
theorem step_prefix (s : St) (st : Stmt) : s.heap <+: (step s st).heap := by
  cases st with
  | bin isAdd d x y => exact List.prefix_append _ _
  | aug isAdd x y =>
    cases isAdd <;> simp [step, iaddInPlace, isubInPlace, St.bindNew]
  | free d t a => exact List.prefix_append _ _
  | alias d x => exact List.prefix_refl _

/-- **No object is ever modified**: whatever sequence of `+ - += -= FreeCapacity =` statements runs, in whatever aliasing
situation, the store before is a prefix of the store after: every object that existed keeps its value (and its id). -/
theorem objects_never_modified (p : List Stmt) (s : St) : s.heap <+: (run p s).heap := by
  induction p generalizing s with
  | nil => exact List.prefix_refl _
  | cons st rest ih => exact List.IsPrefix.trans (step_prefix s st) (ih (step s st))

/-- in particular the value of every existing object is the same after any program -/
theorem object_value_stable (p : List Stmt) (s : St) (k : Nat) (hk : k < s.heap.length) :
    (run p s).heap[k]? = s.heap[k]? := by
  obtain ⟨t, ht⟩ := objects_never_modified p s
  rw [← ht, List.getElem?_append_left hk]

/-- `x += y` while another variable `w` refers to the same object: `w` still sees the old value, `x` sees the sum -/
theorem aug_leaves_other_holders (s : St) (x y w : Nat) (hx : s.obj x < s.heap.length) (hw : s.obj w = s.obj x) (hne : w ≠ x)
    (hxl : x < s.env.length) :
    (step s (.aug true x y)).val w = s.val x ∧ (step s (.aug true x y)).val x = add (s.val x) (s.val y) := by
  simp only [step, iaddInPlace, Bool.false_eq_true, if_false, if_true, St.bindNew, St.val, St.obj]
  constructor
  · have : (s.env.set x s.heap.length).getD w 0 = s.env.getD w 0 := by
      simp [List.getD_eq_getElem?_getD, List.getElem?_set, Ne.symm hne]
    rw [this]
    simp only [St.obj] at hw hx
    rw [hw, List.getD_eq_getElem?_getD, List.getD_eq_getElem?_getD, List.getElem?_append_left hx]
  · have : (s.env.set x s.heap.length).getD x 0 = s.heap.length := by
      simp [List.getD_eq_getElem?_getD, List.getElem?_set, hxl]
    rw [this]
    simp [List.getD_eq_getElem?_getD]

/-! ### results are fresh objects

"Operands are never modified" also has to survive what the caller does with the RESULT: if `a - b` handed back one of its operands
(say, when `b` is all zero), updating the result in place later would change that operand.  In the model every statement with a
result allocates (`step` → `bindNew`); the correspondence compares object identities statement by statement (programs) and the
oracle checks `is not` + mutate-the-result on the real objects, all-zero operands included. -/

/-- **every result is a fresh object**: a statement with a result allocates exactly one object, its id is the first id that did
not exist before, and the result variable is bound to it - whatever the operand VALUES are (no special case for zero) -/
theorem result_is_fresh (s : St) (st : Stmt) (d : Nat) (h : resultVar st = some d) (hd : d < s.env.length) :
    (step s st).obj d = s.heap.length ∧ (step s st).heap.length = s.heap.length + 1 := by
  cases st with
  | bin isAdd d' x y =>
    simp only [resultVar, Option.some.injEq] at h; subst h
    simp [step, St.bindNew, St.obj, List.getD_eq_getElem?_getD, hd]
  | aug isAdd x y =>
    simp only [resultVar, Option.some.injEq] at h; subst h
    cases isAdd <;> simp [step, iaddInPlace, isubInPlace, St.bindNew, St.obj, List.getD_eq_getElem?_getD, hd]
  | free d' t a =>
    simp only [resultVar, Option.some.injEq] at h; subst h
    simp [step, St.bindNew, St.obj, List.getD_eq_getElem?_getD, hd]
  | alias d' x => simp [resultVar] at h

/-- ... so the result is none of the objects that existed: not an operand, not anything another variable holds -/
theorem result_aliases_nothing (s : St) (st : Stmt) (d v : Nat) (h : resultVar st = some d) (hd : d < s.env.length)
    (hv : s.obj v < s.heap.length) : (step s st).obj d ≠ s.obj v := by
  rw [(result_is_fresh s st d h hd).1]; omega

/-- ... and whatever is done with the result afterwards (any further statements), every object a variable held before the
statement - the operands in particular - keeps its value -/
theorem operands_survive_result_updates (s : St) (st : Stmt) (p : List Stmt) (v : Nat) (hv : s.obj v < s.heap.length) :
    (run p (step s st)).heap[s.obj v]? = s.heap[s.obj v]? :=
  object_value_stable (st :: p) s (s.obj v) hv

-- non-vacuity: `r = a - z` with `z` all zero, then `r -= a`: r is object 2 (new), `a` (object 0) still has its value
example : let s : St := { heap := [ofList [8], zero], env := [0, 1, 0] }
    resultVar (.bin false 2 0 1) = some 2 ∧ 2 < s.env.length ∧ s.obj 0 < s.heap.length ∧ (step s (.bin false 2 0 1)).obj 2 = 2 ∧
    ((run [.aug false 2 0] (step s (.bin false 2 0 1))).heap[0]?).map toList = some (toList (ofList [8])) := by decide

/-! ### a result with a negative field is representable and printable

Subtraction is a total function on capacities (no guard, no clamp): `sub_negative_fields` above says which fields of the result
are negative.  The rendering `toStr` (checked character by character against `str()` in the correspondence) is total as well;
a negative value is printed as `-` followed by the rendering of its absolute value, and a value with a non-zero field never
prints as the empty string. -/

theorem fmtComma_neg (v : Int) (h : v < 0) : fmtComma v = "-" ++ fmtComma (-v) := by
  have h2 : ¬ (-v < 0) := by omega
  simp only [fmtComma, Int.natAbs_neg, h, h2, if_true, if_false]

theorem toStr_empty_iff (x : Cap) : toStr x = "" ↔ ∀ f ∈ fields, x f = 0 := by
  constructor
  · intro h f hf
    by_cases hz : x f = 0
    · exact hz
    · exfalso
      have hmem : f ∈ fields.filter (fun f => x f != 0) := by simp [List.mem_filter, hf, hz]
      have hne : (fields.filter (fun f => x f != 0)).isEmpty = false := by
        cases hl : fields.filter (fun f => x f != 0) with
        | nil => rw [hl] at hmem; cases hmem
        | cons a t => rfl
      simp only [toStr, hne, Bool.false_eq_true, if_false] at h
      have := congrArg String.length h
      simp at this
  · intro h
    have : fields.filter (fun f => x f != 0) = [] := by
      simp only [List.filter_eq_nil_iff]; intro f hf; simp [h f hf]
    simp [toStr, this]

private def grp (n : Nat) (x : Char × Nat) (acc : List Char) : List Char :=
  if (n - 1 - x.2) % 3 == 0 && (n - 1 - x.2) != 0 then x.1 :: ',' :: acc else x.1 :: acc

private theorem grp_filter (n : Nat) (x : Char × Nat) (acc : List Char) (hx : x.1 ≠ ',') :
    (grp n x acc).filter (fun c => c != ',') = x.1 :: acc.filter (fun c => c != ',') := by
  unfold grp
  split <;> simp [hx]

private theorem group_filter_aux (n : Nat) (l : List (Char × Nat)) (h : ∀ p ∈ l, p.1 ≠ ',') :
    (l.foldr (grp n) []).filter (fun c => c != ',') = l.map (·.1) := by
  induction l with
  | nil => rfl
  | cons p t ih =>
    have hp : p.1 ≠ ',' := h p (by simp)
    have iht := ih (fun q hq => h q (by simp [hq]))
    simp only [List.foldr_cons, List.map_cons]
    rw [grp_filter n p _ hp, iht]

private theorem groupDigits_eq (ds : List Char) : groupDigits ds = ds.zipIdx.foldr (grp ds.length) [] := rfl

theorem zipIdx_map_fst (l : List Char) (k : Nat) : (l.zipIdx k).map (·.1) = l := by
  induction l generalizing k with
  | nil => rfl
  | cons a t ih => simp [List.zipIdx_cons, ih]

/-- removing the thousands separators gives back the digits -/
theorem groupDigits_filter (ds : List Char) (h : ∀ c ∈ ds, c ≠ ',') :
    (groupDigits ds).filter (fun c => c != ',') = ds := by
  rw [groupDigits_eq]
  have := group_filter_aux ds.length ds.zipIdx (by
    intro p hp
    have : p.1 ∈ (ds.zipIdx).map (·.1) := List.mem_map_of_mem hp
    rw [zipIdx_map_fst] at this
    exact h _ this)
  rw [zipIdx_map_fst] at this
  exact this

theorem digits_no_comma (n : Nat) : ∀ c ∈ Nat.toDigits 10 n, c ≠ ',' := by
  intro c hc hcc
  subst hcc
  have := Nat.isDigit_of_mem_toDigits (by decide) (by decide) hc
  simp at this

/-- **printing loses nothing**: the text of a value with its thousands separators removed is the decimal numeral of the value
(sign included), for every integer -/
theorem fmtComma_digits (v : Int) : (fmtComma v).toList.filter (fun c => c != ',') = (toString v).toList := by
  have hd := groupDigits_filter (Nat.toDigits 10 v.natAbs) (digits_no_comma _)
  unfold fmtComma
  cases v with
  | ofNat n =>
    have h0 : ¬ ((n : Int) < 0) := by omega
    have hd' : List.filter (fun c => c != ',') (groupDigits (Nat.toDigits 10 n)) = Nat.toDigits 10 n := by simpa using hd
    simp [h0, hd', Nat.toList_repr, Int.repr]
  | negSucc m =>
    have h0 : Int.negSucc m < 0 := Int.negSucc_lt_zero m
    have hd' : List.filter (fun c => c != ',') (groupDigits (Nat.toDigits 10 (m + 1))) = Nat.toDigits 10 (m + 1) := by simpa using hd
    simp [h0, hd', Nat.toList_repr, Int.repr]

/-- a difference with a deficit prints as a non-empty string -/
theorem deficit_is_printable (a b : Cap) (f : String) (hf : f ∈ negativeFields (sub a b)) : toStr (sub a b) ≠ "" := by
  intro h
  have hz := (toStr_empty_iff _).mp h f ((negative_fields_exact _ f).mp hf).1
  have := ((negative_fields_exact _ f).mp hf).2
  omega

/-- Non-vacuity: a concrete pair where a fits in b, and one where it does not (negative field named). -/
example : lt (ofList [1,2,3,4,0,0,0,0]) (ofList [1,2,3,5,0,0,0,0]) = true := by decide
example : negativeFields (sub (ofList [1,2,3,4,0,0,0,0]) (ofList [1,2,4,4,0,0,0,0])) = ["ram"] := by decide
example : lt (ofList [1,2,3,4,0,0,0,0]) (ofList [1,2,2,5,0,0,0,0]) = false := by decide
example : toStr (sub (ofList [1,2,3,4,0,0,0,0]) (ofList [1,2,4,4,0,0,0,0])) = "{ ram: -1 G}" := by decide +kernel
/-- a two-variable aliasing situation satisfying the hypotheses of `aug_leaves_other_holders` -/
example : let s : St := { heap := [ofList [1], ofList [2]], env := [0, 1, 0] }
    s.obj 0 < s.heap.length ∧ s.obj 2 = s.obj 0 ∧ (2 : Nat) ≠ 0 ∧ 0 < s.env.length := by decide

end FimVerif.C15
